/-
  Property C11, part 2: the model of the fixed `to_page_dom` (Model/PageDom.lean) computes exactly
  the declarative page DOM of Spec/PageTree.lean.

  A. `resolveChain = deref`  (followed-set resolver = hop-bounded dereference; pigeonhole on |defs|)
  B. dictionary representation invariant (`DefsWF`: keys strictly increasing = the BTreeMap)
  C. order facts for `bytesLt` / `idLt`, `bmInsert`, `bmGet`
  D. converters vs. the spec's well-formedness predicates (fonts, resources, kids, contents)
  E. one loop iteration vs. `view`; one BFS level; the whole discovery (`discover`)
  F. `dom_spec` (model = `specDom`), facts about the spec alone (once, complete, origin of every
     record, nearest-ancestor scope along a path)
  G. the property theorems: dom_matches_spec, dom_error_or_complete, dom_records_reachable_once,
     dom_resources_nearest, dom_contents_in_order, dom_page_resources_on_path
  H. non-vacuity examples.

  Hypothesis of the section-G theorems: `DefsWF defs` -- every dictionary inside a defined object has
  strictly increasing keys, i.e. the association list standing for a Rust `BTreeMap` is a map.  It
  is weaker than the property's own domain ("type-correct catalog": a Rust value); without it the
  statements are false (a list with two /Font keys: the converter's loop takes the last, `dictGet`
  the first).  `sortedKeys_dictInsert`: the model's `BTreeMap::insert` keeps it.
  Core Lean only (no Mathlib).
-/
import Parsley.Props.C11
namespace Parsley.C11
open Parsley Parsley.Obj Parsley.PageDom Parsley.PageTreeSpec

/-! ## A. resolve_chain = hop-bounded dereference -/

theorem lookup_eq_defOf (defs : Defs) (id : ObjId) : lookup defs id = defOf defs id := by
  induction defs with
  | nil => simp [lookup, defOf]
  | cons e t ih =>
    obtain ⟨k, v⟩ := e
    simp only [lookup, defOf, List.find?_cons]
    by_cases hk : (k == id) = true
    · simp [hk]
    · simp only [hk]
      simpa [defOf] using ih

/-- the model's provenance of a value: the identifier of the last link followed -/
def srcOf : Option ObjId → Src
  | none => .inline
  | some id => .byId id

theorem srcOf_inj {a b : Option ObjId} (h : srcOf a = srcOf b) : a = b := by
  cases a <;> cases b <;> simp_all [srcOf]

def convR (r : Option (Option ObjId × Obj)) : Option (Src × Obj) := r.map fun p => (srcOf p.1, p.2)

theorem derefN_isSome_src (defs : Defs) (n : Nat) (s1 s2 : Option ObjId) (o : Obj) :
    (derefN defs n s1 o).isSome = (derefN defs n s2 o).isSome := by
  cases o <;> cases n <;> simp [derefN]

theorem derefN_mono (defs : Defs) : ∀ (n : Nat) (s : Option ObjId) (o : Obj) (r : Option ObjId × Obj),
    derefN defs n s o = some r → derefN defs (n + 1) s o = some r := by
  intro n
  induction n with
  | zero => intro s o r h; cases o <;> simp_all [derefN]
  | succ n ih =>
    intro s o r h
    cases o
    case ref a g =>
      simp only [derefN] at h ⊢
      cases hd : defOf defs (a, g) with
      | none => simp [hd] at h
      | some o' =>
        simp only [hd] at h ⊢
        exact ih _ _ _ h
    all_goals simp_all [derefN]

theorem derefN_le (defs : Defs) (n m : Nat) (hnm : n ≤ m) (s : Option ObjId) (o : Obj) (r : Option ObjId × Obj)
    (h : derefN defs n s o = some r) : derefN defs m s o = some r := by
  induction m with
  | zero =>
    have : n = 0 := by omega
    subst this; exact h
  | succ m ih =>
    by_cases hn : n = m + 1
    · subst hn; exact h
    · exact derefN_mono defs m s o r (ih (by omega))

/-- a value returned by the followed-set loop is found by the hop-bounded dereference within as many
    hops as there are definitions not yet followed -/
theorem resolveLoop_some (defs : Defs) : ∀ (f : Nat) (followed : List ObjId) (so : Option ObjId) (o : Obj)
    (s : Src) (v : Obj), resolveLoop defs f followed (srcOf so) o = .ok (some (s, v)) →
    ∃ n, n ≤ unseen defs followed ∧ ∃ so', s = srcOf so' ∧ derefN defs n so o = some (so', v) := by
  intro f
  induction f with
  | zero => intro _ _ _ _ _ h; simp [resolveLoop] at h
  | succ f ih =>
    intro followed so o s v h
    unfold resolveLoop at h
    split at h
    · rename_i a g
      split at h
      · simp at h
      · rename_i hc
        split at h
        · simp at h
        · rename_i o' hl
          have hc' : followed.contains (a, g) = false := by simpa using hc
          have hlt := unseen_cons_lt (lookup_some_mem hl) hc'
          obtain ⟨n, hn, so', hs, hd⟩ := ih ((a, g) :: followed) (some (a, g)) o' s v h
          refine ⟨n + 1, by omega, so', hs, ?_⟩
          simp only [derefN, ← lookup_eq_defOf, hl]
          exact hd
    · rename_i hnr
      simp only [DRes.ok.injEq, Option.some.injEq, Prod.mk.injEq] at h
      refine ⟨0, Nat.zero_le _, so, h.1.symm, ?_⟩
      rw [← h.2]
      cases o
      case ref a g => exact absurd rfl (hnr a g)
      all_goals simp [derefN]

/-- loop invariant: from every identifier already followed, the current value is reached in at least
    one hop (so it converges strictly faster) -/
def Faster (defs : Defs) (followed : List ObjId) (cur : Obj) : Prop :=
  ∀ id ∈ followed, ∀ m, (derefN defs m none (.ref id.1 id.2)).isSome = true →
    ∃ m', m' < m ∧ (derefN defs m' none cur).isSome = true

theorem derefN_ref_succ (defs : Defs) (m : Nat) (s : Option ObjId) (a g : Nat) (o : Obj)
    (hl : lookup defs (a, g) = some o) :
    derefN defs (m + 1) s (.ref a g) = derefN defs m (some (a, g)) o := by
  simp only [derefN, ← lookup_eq_defOf, hl]

theorem resolveLoop_none (defs : Defs) : ∀ (f : Nat) (followed : List ObjId) (src : Src) (o : Obj),
    Faster defs followed o → resolveLoop defs f followed src o = .ok none →
    ∀ m s, derefN defs m s o = none := by
  intro f
  induction f with
  | zero => intro _ _ _ _ h; simp [resolveLoop] at h
  | succ f ih =>
    intro followed src o hinv h
    unfold resolveLoop at h
    split at h
    · rename_i a g
      split at h
      · -- the loop: (a, g) was followed before
        rename_i hc
        have hmem : (a, g) ∈ followed := by simpa using hc
        have key : ∀ m, (derefN defs m none (.ref a g)).isSome = false := by
          intro m
          induction m using Nat.strongRecOn with
          | _ m ihm =>
            cases hsome : (derefN defs m none (.ref a g)).isSome with
            | false => rfl
            | true =>
              obtain ⟨m', hlt, hm'⟩ := hinv (a, g) hmem m hsome
              rw [ihm m' hlt] at hm'
              exact absurd hm' (by simp)
        intro m s
        have := key m
        rw [derefN_isSome_src defs m none s] at this
        simpa using this
      · rename_i hc
        split at h
        · rename_i hl
          intro m s
          cases m with
          | zero => simp [derefN]
          | succ m => simp [derefN, ← lookup_eq_defOf, hl]
        · rename_i o' hl
          have hinv' : Faster defs ((a, g) :: followed) o' := by
            intro id hid m hm
            rcases List.mem_cons.mp hid with rfl | hid
            · cases m with
              | zero => simp [derefN] at hm
              | succ m =>
                rw [derefN_ref_succ defs m none a g o' hl] at hm
                exact ⟨m, Nat.lt_succ_self _, by rwa [derefN_isSome_src defs m none (some (a, g))]⟩
            · obtain ⟨m1, hlt, hm1⟩ := hinv id hid m hm
              cases m1 with
              | zero => simp [derefN] at hm1
              | succ m1 =>
                rw [derefN_ref_succ defs m1 none a g o' hl] at hm1
                exact ⟨m1, by omega, by rwa [derefN_isSome_src defs m1 none (some (a, g))]⟩
          have := ih _ _ _ hinv' h
          intro m s
          cases m with
          | zero => simp [derefN]
          | succ m =>
            rw [derefN_ref_succ defs m s a g o' hl]
            exact this m _
    · simp at h

/-- **resolve_chain_is_deref**: for ALL definition maps and values, the iterative resolver with its
    followed-set returns exactly what following at most `|defs|` links returns (a chain that is
    longer than `|defs|` repeats an identifier, hence never ends): same value, same provenance,
    `None` for undefined targets and for loops. -/
theorem resolveChain_eq_deref (defs : Defs) (o : Obj) :
    resolveChain defs o = .ok (convR (deref defs o)) := by
  cases hr : resolveChain defs o with
  | panic p => exact absurd hr (resolveChain_ne_panic defs o p)
  | err e => exact absurd hr ((resolve_fuel_sufficient defs o _ (Nat.le_refl _)).2.2 e)
  | ok r =>
    cases r with
    | none =>
      have := resolveLoop_none defs _ [] .inline o (by intro id hid; simp at hid) hr defs.length none
      simp [deref, this, convR]
    | some sv =>
      obtain ⟨s, v⟩ := sv
      obtain ⟨n, hn, so', hs, hd⟩ := resolveLoop_some defs _ [] none o s v hr
      have hle := unseen_le defs []
      have := derefN_le defs n defs.length (by omega) none o _ hd
      simp [deref, this, convR, hs]

example : deref [((5, 0), .ref 5 0)] (.ref 5 0) = none := by rfl
example : deref [((5, 0), .ref 6 0), ((6, 0), .int 3)] (.ref 5 0) = some (some (6, 0), .int 3) := by rfl

/-! ## B. representation invariant of dictionaries

  `Obj.dict kvs` stands for a Rust `BTreeMap<Vec<u8>, _>`: "an association list sorted by key bytes"
  (Model/Obj.lean).  The list type itself also contains unsorted lists and lists with repeated keys,
  which no `BTreeMap` corresponds to; the DOM converters *iterate* two dictionaries (the resource
  dictionary and the /Font dictionary), so the theorems below are about definition maps whose
  dictionaries are genuine maps: keys strictly increasing (`DefsWF`). -/

/-- every defined object is a well-formed value -/
def DefsWF (defs : Defs) : Prop := ∀ id o, lookup defs id = some o → wfObj o = true

theorem wfKvs_get {kvs : Kvs} {k : Bytes} {v : Obj} (h : wfKvs kvs = true) (hg : dictGet k kvs = some v) :
    wfObj v = true := by
  induction kvs with
  | nil => simp [dictGet] at hg
  | cons e t ih =>
    obtain ⟨k', v'⟩ := e
    simp only [wfKvs, Bool.and_eq_true] at h
    simp only [dictGet] at hg
    split at hg
    · simp at hg; rw [← hg]; exact h.1
    · exact ih h.2 hg

theorem wfList_mem {xs : List Obj} {x : Obj} (h : wfList xs = true) (hx : x ∈ xs) : wfObj x = true := by
  induction xs with
  | nil => simp at hx
  | cons y t ih =>
    simp only [wfList, Bool.and_eq_true] at h
    rcases List.mem_cons.mp hx with rfl | hx
    · exact h.1
    · exact ih h.2 hx

theorem wf_derefN {defs : Defs} (hwf : DefsWF defs) : ∀ (n : Nat) (s : Option ObjId) (o : Obj) (r : Option ObjId × Obj),
    wfObj o = true → derefN defs n s o = some r → wfObj r.2 = true := by
  intro n
  induction n with
  | zero => intro s o r ho h; cases o <;> simp_all [derefN] <;> (rw [← h]; simpa using ho)
  | succ n ih =>
    intro s o r ho h
    cases o
    case ref a g =>
      simp only [derefN] at h
      cases hd : defOf defs (a, g) with
      | none => simp [hd] at h
      | some o' =>
        simp only [hd] at h
        exact ih _ _ _ (hwf (a, g) o' (by rw [lookup_eq_defOf]; exact hd)) h
    all_goals (simp only [derefN, Option.some.injEq] at h; rw [← h]; exact ho)

theorem wf_deref {defs : Defs} (hwf : DefsWF defs) {o : Obj} {r : Option ObjId × Obj}
    (ho : wfObj o = true) (h : deref defs o = some r) : wfObj r.2 = true :=
  wf_derefN hwf _ _ _ _ ho h

/-! ## C. order facts -/

theorem bytesLt_asymm : ∀ (a b : Bytes), bytesLt a b = true → bytesLt b a = false
  | [], [], h => by simp [bytesLt] at h
  | [], _ :: _, _ => by simp [bytesLt]
  | _ :: _, [], h => by simp [bytesLt] at h
  | a :: s, b :: t, h => by
    simp only [bytesLt] at h ⊢
    by_cases h1 : a < b
    · have h2 : ¬ b < a := by rw [UInt8.lt_iff_toNat_lt] at *; omega
      simp [h1, h2]
    · by_cases h2 : b < a
      · simp [h1, h2] at h
      · simp only [h1, h2, if_false] at h ⊢
        exact bytesLt_asymm s t h

theorem bytesLt_irrefl (a : Bytes) : bytesLt a a = false := by
  cases h : bytesLt a a with
  | false => rfl
  | true => have := bytesLt_asymm a a h; simp_all

theorem bytesLt_trans : ∀ (a b c : Bytes), bytesLt a b = true → bytesLt b c = true → bytesLt a c = true
  | [], _, [], _, h2 => by cases ‹Bytes› <;> simp [bytesLt] at h2
  | [], _, _ :: _, _, _ => by simp [bytesLt]
  | _ :: _, [], _, h1, _ => by simp [bytesLt] at h1
  | _ :: _, _ :: _, [], _, h2 => by simp [bytesLt] at h2
  | a :: s, b :: t, c :: u, h1, h2 => by
    simp only [bytesLt] at h1 h2 ⊢
    by_cases hab : a < b
    · by_cases hbc : b < c
      · have : a < c := by rw [UInt8.lt_iff_toNat_lt] at *; omega
        simp [this]
      · by_cases hcb : c < b
        · simp [hbc, hcb] at h2
        · have : a < c := by rw [UInt8.lt_iff_toNat_lt] at *; omega
          simp [this]
    · by_cases hba : b < a
      · simp [hab, hba] at h1
      · simp only [hab, hba, if_false] at h1
        by_cases hbc : b < c
        · have : a < c := by rw [UInt8.lt_iff_toNat_lt] at *; omega
          simp [this]
        · by_cases hcb : c < b
          · simp [hbc, hcb] at h2
          · simp only [hbc, hcb, if_false] at h2
            have h3 : ¬ a < c := by rw [UInt8.lt_iff_toNat_lt] at *; omega
            have h4 : ¬ c < a := by rw [UInt8.lt_iff_toNat_lt] at *; omega
            simp only [h3, h4, if_false]
            exact bytesLt_trans s t u h1 h2

theorem bytesLt_total : ∀ (a b : Bytes), bytesLt a b = false → bytesLt b a = false → a = b
  | [], [], _, _ => rfl
  | [], _ :: _, h, _ => by simp [bytesLt] at h
  | _ :: _, [], _, h => by simp [bytesLt] at h
  | a :: s, b :: t, h1, h2 => by
    simp only [bytesLt] at h1 h2
    by_cases hab : a < b
    · simp [hab] at h1
    · by_cases hba : b < a
      · simp [hba] at h2
      · simp only [hab, hba, if_false] at h1 h2
        have : a = b := by
          apply UInt8.toNat_inj.mp
          rw [UInt8.lt_iff_toNat_lt] at *; omega
        rw [this, bytesLt_total s t h1 h2]

theorem dictInsert_mem (k : Bytes) (v : Obj) : ∀ (kvs : Kvs), ∀ e ∈ dictInsert k v kvs, e.1 = k ∨ e ∈ kvs := by
  intro kvs
  induction kvs with
  | nil => intro e he; simp [dictInsert] at he; simp [he]
  | cons x t ih =>
    intro e he
    obtain ⟨k', v'⟩ := x
    simp only [dictInsert] at he
    split at he
    · rcases List.mem_cons.mp he with rfl | he
      · exact Or.inl rfl
      · exact Or.inr he
    · split at he
      · rcases List.mem_cons.mp he with rfl | he
        · exact Or.inr (by simp)
        · rcases ih e he with h | h
          · exact Or.inl h
          · exact Or.inr (by simp [h])
      · rcases List.mem_cons.mp he with rfl | he
        · exact Or.inl rfl
        · exact Or.inr (by simp [he])

/-- `BTreeMap::insert` as modelled by `dictInsert` keeps the keys strictly increasing: every
    dictionary built by insertions from the empty one satisfies the invariant -/
theorem sortedKeys_dictInsert (k : Bytes) (v : Obj) : ∀ (kvs : Kvs), sortedKeys kvs = true →
    sortedKeys (dictInsert k v kvs) = true := by
  intro kvs
  induction kvs with
  | nil => intro _; simp [dictInsert, sortedKeys]
  | cons x t ih =>
    intro hs
    obtain ⟨k', v'⟩ := x
    simp only [sortedKeys, Bool.and_eq_true, List.all_eq_true] at hs
    simp only [dictInsert]
    split
    · rename_i h1
      simp only [sortedKeys, Bool.and_eq_true, List.all_eq_true, List.mem_cons, forall_eq_or_imp]
      exact ⟨⟨h1, fun e he => bytesLt_trans _ _ _ h1 (hs.1 e he)⟩, hs.1, hs.2⟩
    · split
      · rename_i h1 h2
        simp only [sortedKeys, Bool.and_eq_true, List.all_eq_true]
        refine ⟨?_, ih hs.2⟩
        intro e he
        rcases dictInsert_mem k v t e he with h | h
        · rw [h]; exact h2
        · exact hs.1 e h
      · rename_i h1 h2
        have : k = k' := bytesLt_total _ _ (by simpa using h1) (by simpa using h2)
        subst this
        simp only [sortedKeys, Bool.and_eq_true, List.all_eq_true]
        exact hs

/-- inserting a key above all present keys appends -/
theorem bmInsert_append {α : Type} (k : Bytes) (v : α) : ∀ (m : List (Bytes × α)),
    (∀ e ∈ m, bytesLt e.1 k = true) → bmInsert bytesLt k v m = m ++ [(k, v)] := by
  intro m
  induction m with
  | nil => intro _; rfl
  | cons e t ih =>
    intro h
    obtain ⟨k', v'⟩ := e
    have h1 : bytesLt k' k = true := h (k', v') (by simp)
    have h2 := bytesLt_asymm _ _ h1
    simp only [bmInsert, h1, h2, if_true, List.cons_append]
    simp
    exact ih fun e he => h e (by simp [he])

theorem idLt_irrefl (a : ObjId) : idLt a a = false := by simp [idLt]

theorem idLt_eq {a b : ObjId} (h1 : idLt a b = false) (h2 : idLt b a = false) : a = b := by
  obtain ⟨a1, a2⟩ := a
  obtain ⟨b1, b2⟩ := b
  simp only [idLt, Bool.or_eq_false_iff, decide_eq_false_iff_not, Bool.and_eq_false_iff, beq_eq_false_iff_ne] at h1 h2
  have : a1 = b1 := by omega
  subst this
  have : a2 = b2 := by omega
  subst this
  rfl

theorem bmGet_insert_isSome {α : Type} (k k' : ObjId) (v : α) : ∀ (m : List (ObjId × α)),
    (bmGet idLt k (bmInsert idLt k' v m)).isSome = true → k = k' ∨ (bmGet idLt k m).isSome = true := by
  intro m
  induction m with
  | nil =>
    intro h
    simp only [bmInsert, bmGet] at h
    by_cases h1 : idLt k k' = false
    · by_cases h2 : idLt k' k = false
      · exact Or.inl (idLt_eq h1 h2)
      · simp [h1, h2] at h
    · simp [h1] at h
  | cons e t ih =>
    intro h
    obtain ⟨k2, v2⟩ := e
    simp only [bmInsert] at h
    by_cases hkk : k = k'
    · exact Or.inl hkk
    · right
      have hne : (!idLt k k' && !idLt k' k) = false := by
        cases h1 : idLt k k' <;> cases h2 : idLt k' k <;> simp
        exact hkk (idLt_eq h1 h2)
      split at h
      · simpa [bmGet, hne] using h
      · split at h
        · simp only [bmGet] at h ⊢
          split
          · simp
          · rename_i hc
            simp only [hc] at h
            rcases ih h with h' | h'
            · exact absurd h' hkk
            · exact h'
        · rename_i h1 h2
          have : k' = k2 := idLt_eq (by simpa using h1) (by simpa using h2)
          subst this
          simpa [bmGet, hne] using h

/-- inserting a key that is not present adds exactly that binding -/
theorem bmInsert_perm {α : Type} (k : ObjId) (v : α) : ∀ (m : List (ObjId × α)),
    k ∉ m.map (·.1) → (bmInsert idLt k v m).Perm ((k, v) :: m) := by
  intro m
  induction m with
  | nil => intro _; exact List.Perm.refl _
  | cons e t ih =>
    intro h
    obtain ⟨k2, v2⟩ := e
    simp only [List.map_cons, List.mem_cons, not_or] at h
    simp only [bmInsert]
    split
    · exact List.Perm.refl _
    · split
      · exact ((ih h.2).cons _).trans (List.Perm.swap _ _ _)
      · rename_i h1 h2
        exact absurd (idLt_eq (by simpa using h1) (by simpa using h2)) h.1


/-! ## D. converters vs. the spec's predicates -/

/-- font resource names of a converted resource dictionary -/
def names (r : Resources) : List Bytes := r.fonts.map (·.1)
def scopeOf (r : Option Resources) : Scope := r.map names

/-- the descriptor cache only holds identifiers whose definition is a good descriptor -/
def DomInv (defs : Defs) (dom : Dom) : Prop :=
  ∀ id, (bmGet idLt id dom.fontDescrs).isSome = true →
    ∃ dd, lookup defs id = some (.dict dd) ∧ descrBodyOK dd = true

/-- outcome of a font-level converter: an error exactly when the spec's predicate is false; on
    success the page map is untouched and the cache invariant is kept -/
def FontRes (defs : Defs) (dom : Dom) {α : Type} (ok : Bool) (res : DRes (Dom × α)) (P : α → Prop) : Prop :=
  (ok = true → ∃ dom' a, res = .ok (dom', a) ∧ DomInv defs dom' ∧ dom'.pages = dom.pages ∧ P a) ∧
  (ok = false → ∃ e, res = .err e)

theorem toFontDescriptor_sim (d : Kvs) :
    (descrBodyOK d = true → ∃ fd, toFontDescriptor d = .ok fd) ∧
    (descrBodyOK d = false → ∃ e, toFontDescriptor d = .error e) := by
  simp only [toFontDescriptor, descrBodyOK, getName, getUsize]
  cases h1 : dictGet nFontName d with
  | none => simp [isName]
  | some o1 =>
    cases o1
    case name n =>
      cases h2 : dictGet nFlags d with
      | none => simp [isName, isNat]
      | some o2 =>
        cases o2
        case int i => by_cases hi : 0 ≤ i <;> simp [isName, isNat, hi]
        all_goals simp [isName, isNat]
    all_goals simp [isName]

theorem toFontDescrEntry_sim (defs : Defs) (dom : Dom) (d : Kvs) (hinv : DomInv defs dom) :
    FontRes defs dom (descrOK defs d) (toFontDescrEntry defs dom d) (fun _ => True) := by
  unfold toFontDescrEntry descrOK FontRes
  cases hg : dictGet nFontDescriptor d with
  | none => simp; exact hinv
  | some o =>
    cases o
    case dict dd =>
      simp only []
      have := toFontDescriptor_sim dd
      constructor
      · intro hok
        obtain ⟨fd, hfd⟩ := this.1 hok
        exact ⟨dom, some fd, by simp [hfd], hinv, rfl, trivial⟩
      · intro hok
        obtain ⟨e, he⟩ := this.2 hok
        exact ⟨e, by simp [he]⟩
    case ref n g =>
      simp only []
      cases hb : bmGet idLt (n, g) dom.fontDescrs with
      | some fd =>
        obtain ⟨dd, hl, hok⟩ := hinv (n, g) (by simp [hb])
        simp only [← lookup_eq_defOf, hl, hok]
        simp
        exact hinv
      | none =>
        simp only [← lookup_eq_defOf]
        cases hl : lookup defs (n, g) with
        | none => simp
        | some o' =>
          cases o'
          case dict dd =>
            simp only []
            have := toFontDescriptor_sim dd
            constructor
            · intro hok
              obtain ⟨fd, hfd⟩ := this.1 hok
              refine ⟨{ dom with fontDescrs := bmInsert idLt (n, g) fd dom.fontDescrs }, some fd, by simp [hfd], ?_, rfl, trivial⟩
              intro id hid
              rcases bmGet_insert_isSome id (n, g) fd _ hid with rfl | h'
              · exact ⟨dd, hl, hok⟩
              · exact hinv id h'
            · intro hok
              obtain ⟨e, he⟩ := this.2 hok
              exact ⟨e, by simp [he]⟩
          all_goals simp
    all_goals simp

/-- the spec's condition on an /Encoding value -/
def encValOK (defs : Defs) (o : Obj) : Bool :=
  match deref defs o with
  | some (_, .name n) => utf8Valid n
  | some (_, .dict _) => true
  | _ => false

theorem toEncoding_sim (defs : Defs) (o : Obj) :
    (encValOK defs o = true → ∃ enc, toEncoding defs o = .ok enc) ∧
    (encValOK defs o = false → ∃ e, toEncoding defs o = .err e) := by
  unfold toEncoding encValOK
  rw [resolveChain_eq_deref]
  cases hd : deref defs o with
  | none => simp [convR]
  | some r =>
    obtain ⟨s, v⟩ := r
    cases v
    case name n =>
      simp only [convR, Option.map_some]
      by_cases hu : utf8Valid n = true
      · simp only [hu, Bool.not_true]
        simp
        split <;> (try split) <;> (try split) <;> simp
      · simp [hu]
    all_goals simp [convR]

theorem encodingOK_eq (defs : Defs) (fd : Kvs) :
    encodingOK defs fd = match dictGet nEncoding fd with | none => true | some o => encValOK defs o := by
  unfold encodingOK encValOK
  rfl

theorem getName_isName (d : Kvs) (k : Bytes) : (getName d k).isSome = isName (dictGet k d) := by
  unfold getName isName
  cases dictGet k d with
  | none => rfl
  | some o => cases o <;> rfl

theorem toFontDict_sim (defs : Defs) (dom : Dom) (d : Kvs) (hinv : DomInv defs dom) :
    FontRes defs dom (fontBodyOK defs d) (toFontDict defs dom d) (fun _ => True) := by
  unfold toFontDict fontBodyOK
  have hb := getName_isName d nBaseFont
  have hs := getName_isName d nSubtype
  cases h1 : getName d nBaseFont with
  | none => rw [h1] at hb; simp [FontRes, ← hb]
  | some bf =>
    rw [h1] at hb
    cases h2 : getName d nSubtype with
    | none => rw [h2] at hs; simp [FontRes, ← hs]
    | some st =>
      rw [h2] at hs
      simp only [← hb, ← hs, Option.isSome_some, Bool.true_and]
      have hde := toFontDescrEntry_sim defs dom d hinv
      cases hdo : descrOK defs d with
      | false =>
        obtain ⟨e, he⟩ := hde.2 hdo
        simp [FontRes, he]
      | true =>
        obtain ⟨dom', fdo, he, hinv', hp, _⟩ := hde.1 hdo
        simp only [he, Bool.true_and, encodingOK_eq]
        cases hen : dictGet nEncoding d with
        | none => simp [FontRes]; exact ⟨hinv', hp⟩
        | some eo =>
          simp only []
          have henc := toEncoding_sim defs eo
          cases heo : encValOK defs eo with
          | false =>
            obtain ⟨e, he⟩ := henc.2 heo
            simp [FontRes, he]
          | true =>
            obtain ⟨enc, he⟩ := henc.1 heo
            simp [FontRes, he]; exact ⟨hinv', hp⟩


theorem domInv_fontDicts {defs : Defs} {dom : Dom} (h : DomInv defs dom) (x : List (ObjId × FontDict)) :
    DomInv defs { dom with fontDicts := x } := fun id hid => h id hid

/-- one font resource entry -/
theorem fontEntry_sim (defs : Defs) (dom : Dom) (fr : Obj) (hinv : DomInv defs dom) :
    match fr with
    | .ref n g =>
      match lookup defs (n, g) with
      | none => fontOK defs fr = false
      | some o => FontRes defs dom (fontOK defs fr) (objToFontDict defs dom o) (fun _ => True)
    | .dict dd => FontRes defs dom (fontOK defs fr) (toFontDict defs dom dd) (fun _ => True)
    | _ => fontOK defs fr = false := by
  cases fr
  case ref n g =>
    simp only [fontOK, ← lookup_eq_defOf]
    cases hl : lookup defs (n, g) with
    | none => simp
    | some o =>
      cases o
      case dict fd => simpa [objToFontDict] using toFontDict_sim defs dom fd hinv
      all_goals simp [objToFontDict, FontRes]
  case dict dd => simpa [fontOK] using toFontDict_sim defs dom dd hinv
  all_goals simp [fontOK]

theorem fontLoop_sim (defs : Defs) : ∀ (kvs : Kvs) (dom : Dom) (fonts : List (Bytes × FontDict)),
    DomInv defs dom → sortedKeys kvs = true →
    (∀ e ∈ fonts, ∀ e' ∈ kvs, bytesLt e.1 e'.1 = true) →
    FontRes defs dom (kvs.all fun kv => fontOK defs kv.2) (fontLoop defs kvs dom fonts)
      (fun fs => fs.map (·.1) = fonts.map (·.1) ++ kvs.map (·.1)) := by
  intro kvs
  induction kvs with
  | nil => intro dom fonts hinv _ _; exact ⟨fun _ => ⟨dom, fonts, by simp [fontLoop], hinv, rfl, by simp⟩, by simp⟩
  | cons e t ih =>
    intro dom fonts hinv hs hlt
    obtain ⟨frn, fr⟩ := e
    simp only [sortedKeys, Bool.and_eq_true, List.all_eq_true] at hs
    have happ : ∀ fd : FontDict, bmInsert bytesLt frn fd fonts = fonts ++ [(frn, fd)] := fun fd =>
      bmInsert_append frn fd fonts fun e he => hlt e he (frn, fr) (by simp)
    have hlt' : ∀ fd : FontDict, ∀ e ∈ fonts ++ [(frn, fd)], ∀ e' ∈ t, bytesLt e.1 e'.1 = true := by
      intro fd e he e' he'
      rcases List.mem_append.mp he with he | he
      · exact hlt e he e' (by simp [he'])
      · simp only [List.mem_singleton] at he
        subst he
        exact hs.1 e' he'
    have hent := fontEntry_sim defs dom fr hinv
    simp only [List.all_cons]
    -- shared tail argument
    have tail : ∀ (dom1 : Dom) (fd : FontDict), DomInv defs dom1 → dom1.pages = dom.pages →
        FontRes defs dom (t.all fun kv => fontOK defs kv.2) (fontLoop defs t dom1 (fonts ++ [(frn, fd)]))
          (fun fs => fs.map (·.1) = fonts.map (·.1) ++ (frn :: t.map (·.1))) := by
      intro dom1 fd hinv1 hp1
      have := ih dom1 (fonts ++ [(frn, fd)]) hinv1 hs.2 (hlt' fd)
      refine ⟨fun hok => ?_, fun hok => this.2 hok⟩
      obtain ⟨dom', fs, h1, h2, h3, h4⟩ := this.1 hok
      exact ⟨dom', fs, h1, h2, h3.trans hp1, by simp [h4]⟩
    cases fr
    case ref n g =>
      simp only [] at hent
      simp only [fontLoop]
      cases hl : lookup defs (n, g) with
      | none =>
        simp only [hl] at hent
        simp [FontRes, hent]
      | some o =>
        simp only [hl] at hent
        cases hok : fontOK defs (.ref n g) with
        | false =>
          obtain ⟨e, he⟩ := hent.2 hok
          simp [FontRes, he]
        | true =>
          obtain ⟨dom1, fd, he, hinv1, hp1, _⟩ := hent.1 hok
          simp only [he, happ, Bool.true_and, List.map_cons]
          exact tail _ fd (domInv_fontDicts hinv1 _) hp1
    case dict dd =>
      simp only [] at hent
      simp only [fontLoop]
      cases hok : fontOK defs (.dict dd) with
      | false =>
        obtain ⟨e, he⟩ := hent.2 hok
        simp [FontRes, he]
      | true =>
        obtain ⟨dom1, fd, he, hinv1, hp1, _⟩ := hent.1 hok
        simp only [he, happ, Bool.true_and, List.map_cons]
        exact tail _ fd hinv1 hp1
    all_goals (simp only [] at hent; simp [FontRes, fontLoop, hent])

/-- the spec's reading of a /Font value -/
def fontValNames (defs : Defs) (fv : Obj) : Option (List Bytes) :=
  match deref defs fv with
  | some (_, .dict fonts) => if fonts.all fun kv => fontOK defs kv.2 then some (fonts.map (·.1)) else none
  | _ => none

theorem toResourceFontValue_sim (defs : Defs) (hwf : DefsWF defs) (dom : Dom) (fv : Obj)
    (hinv : DomInv defs dom) (hfv : wfObj fv = true) :
    FontRes defs dom (fontValNames defs fv).isSome (toResourceFontValue defs dom fv)
      (fun fs => some (fs.map (·.1)) = fontValNames defs fv) := by
  unfold toResourceFontValue fontValNames
  rw [resolveChain_eq_deref]
  cases hd : deref defs fv with
  | none => cases fv <;> simp [convR, FontRes]
  | some r =>
    obtain ⟨s, v⟩ := r
    have hv : wfObj v = true := wf_deref hwf hfv hd
    cases v
    case dict fonts =>
      simp only [wfObj, Bool.and_eq_true] at hv
      simp only [convR, Option.map_some]
      have := fontLoop_sim defs fonts dom [] hinv hv.1 (by simp)
      cases hall : (fonts.all fun kv => fontOK defs kv.2) with
      | false =>
        obtain ⟨e, he⟩ := this.2 hall
        simp [FontRes, he]
      | true =>
        obtain ⟨dom', fs, h1, h2, h3, h4⟩ := this.1 hall
        simp only [List.map_nil, List.nil_append] at h4
        exact ⟨fun _ => ⟨dom', fs, h1, h2, h3, by simp [h4]⟩, by simp⟩
    all_goals simp [convR, FontRes]


theorem resLoop_nofont (defs : Defs) : ∀ (kvs : Kvs) (dom : Dom) (acc : Option (List (Bytes × FontDict))),
    (∀ e ∈ kvs, (e.1 == nFont) = false) → resLoop defs kvs dom acc = .ok (dom, acc) := by
  intro kvs
  induction kvs with
  | nil => intro _ _ _; rfl
  | cons e t ih =>
    intro dom acc h
    obtain ⟨k, v⟩ := e
    have hk : (k == nFont) = false := h (k, v) (by simp)
    simp only [resLoop, hk]
    exact ih _ _ fun e he => h e (by simp [he])

theorem dictGet_none_of (k : Bytes) : ∀ (kvs : Kvs), (∀ e ∈ kvs, (e.1 == k) = false) → dictGet k kvs = none := by
  intro kvs
  induction kvs with
  | nil => intro _; rfl
  | cons e t ih =>
    intro h
    obtain ⟨k', v⟩ := e
    have hk : (k' == k) = false := h (k', v) (by simp)
    have hk' : (k == k') = false := by
      have : k' ≠ k := by simpa using hk
      simpa using fun h' => this h'.symm
    simp only [dictGet, hk']
    exact ih fun e he => h e (by simp [he])

theorem sorted_tail_ne {k : Bytes} {v : Obj} {t : Kvs} (hs : sortedKeys ((k, v) :: t) = true) :
    ∀ e ∈ t, (e.1 == k) = false := by
  intro e he
  simp only [sortedKeys, Bool.and_eq_true, List.all_eq_true] at hs
  have := hs.1 e he
  cases hek : e.1 == k with
  | false => rfl
  | true =>
    have hk : e.1 = k := by simpa using hek
    have h2 := hs.1 e he
    rw [hk, bytesLt_irrefl] at h2
    exact absurd h2 (by simp)

theorem resLoop_sim (defs : Defs) : ∀ (kvs : Kvs) (dom : Dom) (acc : Option (List (Bytes × FontDict))),
    sortedKeys kvs = true →
    resLoop defs kvs dom acc =
      match dictGet nFont kvs with
      | none => .ok (dom, acc)
      | some fv =>
        match toResourceFontValue defs dom fv with
        | .panic p => .panic p
        | .err e => .err e
        | .ok (dom', f) => .ok (dom', some f) := by
  intro kvs
  induction kvs with
  | nil => intro _ _ _; rfl
  | cons e t ih =>
    intro dom acc hs
    obtain ⟨k, v⟩ := e
    have hs2 : sortedKeys t = true := by simp only [sortedKeys, Bool.and_eq_true] at hs; exact hs.2
    by_cases hk : (k == nFont) = true
    · have hk' : (nFont == k) = true := by
        have : k = nFont := by simpa using hk
        simp [this]
      have hne := sorted_tail_ne hs
      have hkeq : k = nFont := by simpa using hk
      simp only [resLoop, hk, dictGet, hk', if_true]
      cases toResourceFontValue defs dom v with
      | panic p => rfl
      | err e => rfl
      | ok r =>
        obtain ⟨dom', f⟩ := r
        simp only []
        exact resLoop_nofont defs t dom' (some f) (by rw [← hkeq]; exact hne)
    · have hk1 : (k == nFont) = false := by simpa using hk
      have hk' : (nFont == k) = false := by
        have : k ≠ nFont := by simpa using hk1
        simpa using fun h' => this h'.symm
      simp only [resLoop, hk1, dictGet, hk']
      exact ih dom acc hs2

/-- the spec's reading of a resource dictionary -/
def resNames (defs : Defs) (rd : Kvs) : Option (List Bytes) :=
  match dictGet nFont rd with
  | none => some []
  | some fv => fontValNames defs fv

theorem toResources_sim (defs : Defs) (hwf : DefsWF defs) (dom : Dom) (rd : Kvs) (hinv : DomInv defs dom)
    (hrd : wfObj (.dict rd) = true) :
    FontRes defs dom (resNames defs rd).isSome (toResources defs dom rd)
      (fun res => some (names res) = resNames defs rd) := by
  simp only [wfObj, Bool.and_eq_true] at hrd
  unfold toResources resNames
  rw [resLoop_sim defs rd dom none hrd.1]
  cases hg : dictGet nFont rd with
  | none => exact ⟨fun _ => ⟨dom, ⟨[]⟩, rfl, hinv, rfl, by simp [names]⟩, by simp⟩
  | some fv =>
    simp only []
    have := toResourceFontValue_sim defs hwf dom fv hinv (wfKvs_get hrd.2 hg)
    cases hok : (fontValNames defs fv).isSome with
    | false =>
      obtain ⟨e, he⟩ := this.2 hok
      simp [FontRes, he]
    | true =>
      obtain ⟨dom', fs, h1, h2, h3, h4⟩ := this.1 hok
      exact ⟨fun _ => ⟨dom', ⟨fs⟩, by simp [h1], h2, h3, by simpa [names] using h4⟩, by simp⟩

theorem ownFonts_eq (defs : Defs) (d : Kvs) :
    ownFonts defs d =
      match dictGet nResources d with
      | none => none
      | some o =>
        match deref defs o with
        | some (_, .dict rd) => some (resNames defs rd)
        | _ => none := by
  unfold ownFonts entry resNames fontValNames
  cases dictGet nResources d with
  | none => rfl
  | some o =>
    simp only []
    cases hd : deref defs o with
    | none => rfl
    | some r =>
      obtain ⟨s, v⟩ := r
      cases v
      case dict rd =>
        simp only [Option.map_some]
        cases dictGet nFont rd with
        | none => rfl
        | some fv =>
          simp only []
          cases hfv : deref defs fv with
          | none => rfl
          | some r2 =>
            obtain ⟨s2, v2⟩ := r2
            cases v2
            case dict fonts => simp only []; split <;> rfl
            all_goals rfl
      all_goals rfl

/-- /Resources of a node: own resources are absent, defective (error), or converted with exactly
    the spec's font resource names -/
theorem ownResources_sim (defs : Defs) (hwf : DefsWF defs) (dom : Dom) (d : Kvs) (hinv : DomInv defs dom)
    (hd : wfKvs d = true) :
    match ownFonts defs d with
    | none => ownResources defs dom d = .ok (dom, none)
    | some none => ∃ e, ownResources defs dom d = .err e
    | some (some ns) => ∃ dom' res, ownResources defs dom d = .ok (dom', some res) ∧ names res = ns ∧
        DomInv defs dom' ∧ dom'.pages = dom.pages := by
  rw [ownFonts_eq]
  unfold ownResources getChainResolvedDict
  cases hg : dictGet nResources d with
  | none => rfl
  | some o =>
    simp only [resolveChain_eq_deref]
    cases hdr : deref defs o with
    | none => simp [convR]
    | some r =>
      obtain ⟨s, v⟩ := r
      have hv : wfObj v = true := wf_deref hwf (wfKvs_get hd hg) hdr
      cases v
      case dict rd =>
        simp only [convR, Option.map_some]
        have := toResources_sim defs hwf dom rd hinv hv
        cases hn : resNames defs rd with
        | none =>
          obtain ⟨e, he⟩ := this.2 (by simp [hn])
          simp [he]
        | some ns =>
          obtain ⟨dom', res, h1, h2, h3, h4⟩ := this.1 (by simp [hn])
          rw [hn] at h4
          simp only [Option.some.injEq] at h4
          exact ⟨dom', res, by simp [h1], h4, h2, h3⟩
      all_goals simp [convR]


/-! ### kids -/

def refsOf : List Obj → List ObjId
  | [] => []
  | .ref a g :: t => (a, g) :: refsOf t
  | _ :: t => refsOf t

theorem refsOf_eq (f : Obj → Option ObjId) (h1 : ∀ a g, f (.ref a g) = some (a, g))
    (h2 : ∀ x, (∀ a g, x ≠ .ref a g) → f x = none) (xs : List Obj) : xs.filterMap f = refsOf xs := by
  induction xs with
  | nil => rfl
  | cons x t ih =>
    cases x
    case ref a g => simp [h1, refsOf, ih]
    all_goals (rw [List.filterMap_cons, h2 _ (by intro a g; simp)]; simpa [refsOf] using ih)

theorem kidsOf_eq (defs : Defs) (d : Kvs) :
    kidsOf defs d =
      match dictGet nKids d with
      | none => none
      | some ko =>
        match deref defs ko with
        | some (_, .arr xs) => some (refsOf xs)
        | _ => none := by
  unfold kidsOf entry
  cases dictGet nKids d with
  | none => rfl
  | some ko =>
    simp only []
    cases hd : deref defs ko with
    | none => rfl
    | some r =>
      obtain ⟨s, v⟩ := r
      cases v
      case arr xs =>
        simp only [Option.map_some]
        congr 1
        apply refsOf_eq
        · intro a g; rfl
        · intro x hx; cases x <;> first | rfl | exact absurd rfl (hx _ _)
      all_goals rfl

/-- the spec's frontier entry of a queue entry -/
def proj (e : QEntry) : ObjId × Scope := (e.1, scopeOf e.2.1)

theorem newKids_cons (defs : Defs) (sc : Scope) (k : ObjId) (t seen : List ObjId) :
    newKids defs sc (k :: t) seen =
      if (defOf defs k).isSome && !seen.contains k then
        ((k, sc) :: (newKids defs sc t (k :: seen)).1, (newKids defs sc t (k :: seen)).2)
      else newKids defs sc t seen := by
  rw [newKids]

theorem kidsLoop_sim (defs : Defs) (r : Option Resources) : ∀ (xs : List Obj) (q : ConvQ) (kids : List ObjId),
    (kidsLoop defs r xs q kids).2 = kids ++ refsOf xs ∧
    (kidsLoop defs r xs q kids).1.examined = (newKids defs (scopeOf r) (refsOf xs) q.examined).2 ∧
    ∃ nxt, (kidsLoop defs r xs q kids).1.nodes = q.nodes ++ nxt ∧
      nxt.map proj = (newKids defs (scopeOf r) (refsOf xs) q.examined).1 ∧
      ∀ e ∈ nxt, lookup defs e.1 = some e.2.2 := by
  intro xs
  induction xs with
  | nil => intro q kids; simp [kidsLoop, refsOf, newKids]
  | cons x t ih =>
    intro q kids
    cases x
    case ref n g =>
      simp only [kidsLoop, refsOf, newKids_cons, ← lookup_eq_defOf]
      cases hl : lookup defs (n, g) with
      | none =>
        simp only [Option.isSome_none, Bool.false_and]
        obtain ⟨h1, h2, nxt, h3, h4, h5⟩ := ih q (kids ++ [(n, g)])
        exact ⟨by simp [h1], h2, nxt, h3, h4, h5⟩
      | some o =>
        simp only [Option.isSome_some, Bool.true_and, ConvQ.add]
        cases hc : q.examined.contains (n, g) with
        | true =>
          simp only [if_true, Bool.not_true]
          obtain ⟨h1, h2, nxt, h3, h4, h5⟩ := ih q (kids ++ [(n, g)])
          exact ⟨by simp [h1], h2, nxt, h3, h4, h5⟩
        | false =>
          simp only [Bool.not_false, if_true]
          obtain ⟨h1, h2, nxt, h3, h4, h5⟩ :=
            ih { nodes := q.nodes ++ [((n, g), r, o)], examined := (n, g) :: q.examined } (kids ++ [(n, g)])
          refine ⟨by simp [h1], h2, ((n, g), r, o) :: nxt, by simp [h3], by simp [h4, proj], ?_⟩
          intro e he
          rcases List.mem_cons.mp he with rfl | he
          · exact hl
          · exact h5 e he
    all_goals (simp only [kidsLoop, refsOf]; exact ih q kids)

/-! ### contents -/

def contOf (defs : Defs) (co : Obj) : Option (List (Option ObjId)) :=
  match deref defs co with
  | some (src, .stream _ _) => some [src]
  | some (_, .arr xs) => xs.mapM (streamOf defs)
  | _ => none

theorem contentsOf_eq (defs : Defs) (d : Kvs) :
    contentsOf defs d = match dictGet nContents d with | none => none | some co => contOf defs co := by
  unfold contentsOf contOf
  rfl

theorem toPageContent_sim (defs : Defs) (o : Obj) :
    (streamOf defs o = none → toPageContent defs o = .ok none) ∧
    (∀ src, streamOf defs o = some src → ∃ v, toPageContent defs o = .ok (some (srcOf src, v))) := by
  unfold toPageContent streamOf
  rw [resolveChain_eq_deref]
  cases hd : deref defs o with
  | none => simp [convR]
  | some r =>
    obtain ⟨s, v⟩ := r
    cases v <;> simp [convR]

theorem contentsLoop_sim (defs : Defs) : ∀ (xs : List Obj) (v : List (Src × Obj)),
    (xs.mapM (streamOf defs) = none → contentsLoop defs xs v = .ok none) ∧
    (∀ cs, xs.mapM (streamOf defs) = some cs →
      ∃ l, contentsLoop defs xs v = .ok (some (v ++ l)) ∧ l.map (·.1) = cs.map srcOf) := by
  intro xs
  induction xs with
  | nil => intro v; simp [contentsLoop]
  | cons x t ih =>
    intro v
    have hx := toPageContent_sim defs x
    simp only [List.mapM_cons, contentsLoop]
    cases hs : streamOf defs x with
    | none =>
      simp [hx.1 hs]
    | some src =>
      obtain ⟨sv, hsv⟩ := hx.2 src hs
      simp only [hsv]
      have := ih (v ++ [(srcOf src, sv)])
      cases hm : t.mapM (streamOf defs) with
      | none => simp [this.1 hm]
      | some cs =>
        obtain ⟨l, h1, h2⟩ := this.2 cs hm
        simp only [Option.bind_eq_bind, Option.bind_some, Option.pure_def, Option.some.injEq, forall_eq',
          reduceCtorEq, false_implies, true_and]
        exact ⟨(srcOf src, sv) :: l, by simp [h1], by simp [h2]⟩

theorem toPageContents_sim (defs : Defs) (co : Obj) :
    (contOf defs co = none → toPageContents defs co = .ok none) ∧
    (∀ cs, contOf defs co = some cs →
      ∃ l, toPageContents defs co = .ok (some l) ∧ l.map (·.1) = cs.map srcOf) := by
  unfold toPageContents contOf
  rw [resolveChain_eq_deref]
  cases hd : deref defs co with
  | none => simp [convR]
  | some r =>
    obtain ⟨s, v⟩ := r
    cases v
    case arr xs =>
      simp only [convR, Option.map_some]
      have := contentsLoop_sim defs xs []
      simpa using this
    all_goals simp [convR]


/-! ## E. one loop iteration vs. `view` -/

/-- effect on the work queue of offering `kids` with scope `sc`: exactly the spec's `newKids` -/
def QStep (defs : Defs) (q q' : ConvQ) (sc : Scope) (kids : List ObjId) : Prop :=
  q'.examined = (newKids defs sc kids q.examined).2 ∧
  ∃ nxt, q'.nodes = q.nodes ++ nxt ∧ nxt.map proj = (newKids defs sc kids q.examined).1 ∧
    ∀ e ∈ nxt, lookup defs e.1 = some e.2.2

def kidsVal (defs : Defs) (ko : Obj) : Option (List ObjId) :=
  match deref defs ko with
  | some (_, .arr xs) => some (refsOf xs)
  | _ => none

theorem toPageKids_sim (defs : Defs) (q : ConvQ) (r : Option Resources) (ko : Obj) :
    (kidsVal defs ko = none → toPageKids defs q r ko = .ok (q, none)) ∧
    (∀ kids, kidsVal defs ko = some kids →
      ∃ q', toPageKids defs q r ko = .ok (q', some kids) ∧ QStep defs q q' (scopeOf r) kids) := by
  unfold toPageKids kidsVal
  rw [resolveChain_eq_deref]
  cases hd : deref defs ko with
  | none => simp [convR]
  | some rv =>
    obtain ⟨s, v⟩ := rv
    cases v
    case arr xs =>
      simp only [convR, Option.map_some]
      obtain ⟨h1, h2, h3⟩ := kidsLoop_sim defs r xs q []
      refine ⟨by simp, ?_⟩
      intro kids hk
      simp only [Option.some.injEq] at hk
      subst hk
      refine ⟨(kidsLoop defs r xs q []).1, ?_, h2, h3⟩
      simp only [List.nil_append] at h1
      rw [← h1]
    all_goals simp [convR]

theorem getRef_parent (d : Kvs) : getRef d nParent = parentOf d := by
  unfold getRef parentOf
  cases dictGet nParent d with
  | none => rfl
  | some o => cases o <;> rfl

theorem getUsize_count (d : Kvs) : getUsize d nCount = countOf d := by
  unfold getUsize countOf
  cases dictGet nCount d with
  | none => rfl
  | some o => cases o <;> rfl

theorem kidsOf_eq' (defs : Defs) (d : Kvs) :
    kidsOf defs d = match dictGet nKids d with | none => none | some ko => kidsVal defs ko := by
  rw [kidsOf_eq]; rfl

/-- scope in force below a node: its own declaration, else the inherited one -/
def effScope (own : Option (List Bytes)) (sc : Scope) : Scope :=
  match own with
  | some f => some f
  | none => sc

/-- what the spec's `level` does with a /Pages object, on the model's side -/
def NodeOK (defs : Defs) (q : ConvQ) (dom : Dom) (r : Option Resources)
    (parent : ObjId) (c : Nat) (kids : List ObjId) (own : Option (List Bytes))
    (res : DRes (ConvQ × Dom × TreeNode)) : Prop :=
  ∃ q' dom' n, res = .ok (q', dom', n) ∧ n.parent = parent ∧ n.count = c ∧ n.kids = kids ∧
    scopeOf n.resources = effScope own (scopeOf r) ∧
    QStep defs q q' (effScope own (scopeOf r)) kids ∧ DomInv defs dom' ∧ dom'.pages = dom.pages

theorem toPageTreeNode_sim (defs : Defs) (hwf : DefsWF defs) (q : ConvQ) (dom : Dom) (r : Option Resources)
    (d : Kvs) (t : Bytes) (hinv : DomInv defs dom) (hd : wfKvs d = true)
    (hT : dictGet nType d = some (.name t)) (ht : (t == nPages) = true) :
    match view defs (.dict d) with
    | .pages parent c kids own => NodeOK defs q dom r parent c kids own (toPageTreeNode defs q dom r (.dict d))
    | .page _ _ _ => False
    | .defective => ∃ e, toPageTreeNode defs q dom r (.dict d) = .err e := by
  simp only [view, hT, toPageTreeNode, getRef_parent]
  cases hP : parentOf d with
  | none => simp
  | some parent =>
    simp only []
    have hown := ownResources_sim defs hwf dom d hinv hd
    cases hO : ownFonts defs d with
    | none =>
      simp only [hO] at hown
      simp only [hown, getUsize_count, ht, if_true, kidsOf_eq']
      cases hC : countOf d with
      | none => simp
      | some c =>
        cases hK : dictGet nKids d with
        | none => simp
        | some ko =>
          simp only []
          have hk := toPageKids_sim defs q r ko
          cases hkv : kidsVal defs ko with
          | none => simp [hk.1 hkv]
          | some kids =>
            obtain ⟨q', h1, h2⟩ := hk.2 kids hkv
            simp only [h1]
            exact ⟨q', dom, _, rfl, rfl, rfl, rfl, rfl, h2, hinv, rfl⟩
    | some own =>
      cases own with
      | none =>
        simp only [hO] at hown
        obtain ⟨e, he⟩ := hown
        simp [he]
      | some ns =>
        simp only [hO] at hown
        obtain ⟨dom', res, h1, h2, h3, h4⟩ := hown
        simp only [h1, getUsize_count, ht, if_true, kidsOf_eq']
        cases hC : countOf d with
        | none => simp
        | some c =>
          cases hK : dictGet nKids d with
          | none => simp
          | some ko =>
            simp only []
            have hk := toPageKids_sim defs q (some res) ko
            cases hkv : kidsVal defs ko with
            | none => simp [hk.1 hkv]
            | some kids =>
              obtain ⟨q', h5, h6⟩ := hk.2 kids hkv
              simp only [h5]
              have hsc : scopeOf (some res) = effScope (some ns) (scopeOf r) := by simp [scopeOf, effScope, h2]
              refine ⟨q', dom', _, rfl, rfl, rfl, rfl, ?_, ?_, h3, h4⟩
              · exact hsc
              · simpa [Option.bind, ← hsc] using h6


/-- fonts in force on a page: own declaration, else the inherited scope, else none -/
def pageFonts (own : Option (List Bytes)) (sc : Scope) : List Bytes :=
  match own, sc with
  | some f, _ => f
  | none, some f => f
  | none, none => []

def PageOK (defs : Defs) (dom : Dom) (r : Option Resources)
    (parent : ObjId) (own : Option (List Bytes)) (cs : List (Option ObjId)) (res : DRes (Dom × Page)) : Prop :=
  ∃ dom' p, res = .ok (dom', p) ∧ p.parent = parent ∧ names p.resources = pageFonts own (scopeOf r) ∧
    p.contents.map (·.1) = cs.map srcOf ∧ DomInv defs dom' ∧ dom'.pages = dom.pages

theorem toPage_sim (defs : Defs) (hwf : DefsWF defs) (dom : Dom) (r : Option Resources)
    (d : Kvs) (t : Bytes) (hinv : DomInv defs dom) (hd : wfKvs d = true)
    (hT : dictGet nType d = some (.name t)) (ht1 : (t == nPages) = false) (ht2 : (t == nPage) = true) :
    match view defs (.dict d) with
    | .pages _ _ _ _ => False
    | .page parent own cs => PageOK defs dom r parent own cs (toPage defs dom r (.dict d))
    | .defective => ∃ e, toPage defs dom r (.dict d) = .err e := by
  simp only [view, hT, toPage, getRef_parent]
  cases hP : parentOf d with
  | none => simp
  | some parent =>
    simp only []
    have hown := ownResources_sim defs hwf dom d hinv hd
    cases hO : ownFonts defs d with
    | none =>
      simp only [hO] at hown
      simp only [hown, ht1, ht2, if_true, contentsOf_eq]
      cases hK : dictGet nContents d with
      | none => simp
      | some co =>
        simp only []
        have hk := toPageContents_sim defs co
        cases hkv : contOf defs co with
        | none => simp [hk.1 hkv]
        | some cs =>
          obtain ⟨l, h1, h2⟩ := hk.2 cs hkv
          simp only [h1]
          refine ⟨dom, _, rfl, rfl, ?_, h2, hinv, rfl⟩
          cases r <;> simp [pageFonts, scopeOf, names]
    | some own =>
      cases own with
      | none =>
        simp only [hO] at hown
        obtain ⟨e, he⟩ := hown
        simp [he]
      | some ns =>
        simp only [hO] at hown
        obtain ⟨dom', res, h1, h2, h3, h4⟩ := hown
        simp only [h1, ht1, ht2, if_true, contentsOf_eq]
        cases hK : dictGet nContents d with
        | none => simp
        | some co =>
          simp only []
          have hk := toPageContents_sim defs co
          cases hkv : contOf defs co with
          | none => simp [hk.1 hkv]
          | some cs =>
            obtain ⟨l, h5, h6⟩ := hk.2 cs hkv
            simp only [h5]
            exact ⟨dom', _, rfl, rfl, by simp [pageFonts, h2], h6, h3, h4⟩

theorem getName_type (d : Kvs) :
    getName d nType = match dictGet nType d with | some (.name t) => some t | _ => none := by
  unfold getName
  cases dictGet nType d with
  | none => rfl
  | some o => cases o <;> rfl

/-- **one iteration of the work loop** on a queue entry whose object is `o`: what the spec's `view`
    says about `o` decides the outcome -/
theorem domStep_sim (defs : Defs) (hwf : DefsWF defs) (q : ConvQ) (dom : Dom) (id : ObjId)
    (r : Option Resources) (o : Obj) (hinv : DomInv defs dom) (ho : wfObj o = true) :
    match view defs o with
    | .pages parent c kids own =>
      ∃ q' dom' n, domStep defs q dom id r o = .ok (q', dom') ∧
        dom'.pages = bmInsert idLt id (.node n) dom.pages ∧
        n.parent = parent ∧ n.count = c ∧ n.kids = kids ∧
        scopeOf n.resources = effScope own (scopeOf r) ∧
        QStep defs q q' (effScope own (scopeOf r)) kids ∧ DomInv defs dom'
    | .page parent own cs =>
      ∃ dom' p, domStep defs q dom id r o = .ok (q, dom') ∧
        dom'.pages = bmInsert idLt id (.leaf p) dom.pages ∧
        p.parent = parent ∧ names p.resources = pageFonts own (scopeOf r) ∧
        p.contents.map (·.1) = cs.map srcOf ∧ DomInv defs dom'
    | .defective => ∃ e, domStep defs q dom id r o = .err e := by
  cases o
  case dict d =>
    simp only [wfObj, Bool.and_eq_true] at ho
    cases hT : dictGet nType d with
    | none => simp [view, domStep, getName_type, hT]
    | some tv =>
      cases tv
      case name t =>
        by_cases ht : (t == nPages) = true
        · have := toPageTreeNode_sim defs hwf q dom r d t hinv ho.2 hT ht
          simp only [domStep, getName_type, hT, ht, if_true]
          cases hv : view defs (.dict d) with
          | pages parent c kids own =>
            simp only [hv] at this
            obtain ⟨q', dom', n, h1, h2, h3, h4, h5, h6, h7, h8⟩ := this
            simp only [h1]
            exact ⟨q', _, n, rfl, by simp [h8], h2, h3, h4, h5, h6, fun i hi => h7 i hi⟩
          | page _ _ _ => simp [hv] at this
          | defective =>
            simp only [hv] at this
            obtain ⟨e, he⟩ := this
            simp [he]
        · have ht1 : (t == nPages) = false := by simpa using ht
          by_cases ht2 : (t == nPage) = true
          · have := toPage_sim defs hwf dom r d t hinv ho.2 hT ht1 ht2
            simp only [domStep, getName_type, hT, ht1, ht2, if_true]
            cases hv : view defs (.dict d) with
            | pages _ _ _ _ => simp [hv] at this
            | page parent own cs =>
              simp only [hv] at this
              obtain ⟨dom', p, h1, h2, h3, h4, h5, h6⟩ := this
              simp only [h1]
              exact ⟨_, p, rfl, by simp [h6], h2, h3, h4, fun i hi => h5 i hi⟩
            | defective =>
              simp only [hv] at this
              obtain ⟨e, he⟩ := this
              simp [he]
          · have ht2' : (t == nPage) = false := by simpa using ht2
            have hv : view defs (.dict d) = .defective := by
              simp only [view, hT]
              cases parentOf d with
              | none => rfl
              | some parent =>
                simp only [ht1, ht2']
                cases ownFonts defs d with
                | none => rfl
                | some own => cases own <;> rfl
            simp [hv, domStep, getName_type, hT, ht1, ht2']
      all_goals simp [view, domStep, getName_type, hT]
  all_goals simp [view, domStep]


/-! ### one BFS level, the whole discovery -/

/-- a DOM entry carries exactly what the spec's record says -/
def Matches : Rec → ObjId × PageKid → Prop
  | .node id parent count fonts kids, (id', .node n) =>
    id' = id ∧ n.parent = parent ∧ n.count = count ∧ scopeOf n.resources = fonts ∧ n.kids = kids
  | .leaf id parent fonts cs, (id', .leaf p) =>
    id' = id ∧ p.parent = parent ∧ names p.resources = fonts ∧ p.contents.map (·.1) = cs.map srcOf
  | _, _ => False

def RecsRel : List Rec → List (ObjId × PageKid) → Prop
  | [], [] => True
  | r :: rs, p :: ps => Matches r p ∧ RecsRel rs ps
  | _, _ => False

theorem RecsRel_append : ∀ (a : List Rec) (b : List (ObjId × PageKid)) (c : List Rec) (d : List (ObjId × PageKid)),
    RecsRel a b → RecsRel c d → RecsRel (a ++ c) (b ++ d) := by
  intro a
  induction a with
  | nil => intro b c d h1 h2; cases b <;> simp_all [RecsRel]
  | cons x t ih =>
    intro b c d h1 h2
    cases b with
    | nil => simp [RecsRel] at h1
    | cons y u =>
      simp only [RecsRel] at h1
      exact ⟨h1.1, ih u c d h1.2 h2⟩

/-- `dom.pages.insert` for a sequence of entries -/
def insAll (pages pairs : List (ObjId × PageKid)) : List (ObjId × PageKid) :=
  pairs.foldl (fun m e => bmInsert idLt e.1 e.2 m) pages

theorem level_cons_pages {defs : Defs} {id : ObjId} {o : Obj} {sc : Scope} {t : List (ObjId × Scope)}
    {seen : List ObjId} {parent : ObjId} {c : Nat} {kids : List ObjId} {own : Option (List Bytes)}
    (hd : defOf defs id = some o) (hv : view defs o = .pages parent c kids own) :
    level defs ((id, sc) :: t) seen =
      match level defs t (newKids defs (effScope own sc) kids seen).2 with
      | none => none
      | some (recs, fr', seen2) =>
        some (.node id parent c (effScope own sc) kids :: recs,
              (newKids defs (effScope own sc) kids seen).1 ++ fr', seen2) := by
  rw [level]
  simp only [hd, Option.map_some, hv]
  rfl

theorem level_cons_page {defs : Defs} {id : ObjId} {o : Obj} {sc : Scope} {t : List (ObjId × Scope)}
    {seen : List ObjId} {parent : ObjId} {own : Option (List Bytes)} {cs : List (Option ObjId)}
    (hd : defOf defs id = some o) (hv : view defs o = .page parent own cs) :
    level defs ((id, sc) :: t) seen =
      match level defs t seen with
      | none => none
      | some (recs, fr', seen2) => some (.leaf id parent (pageFonts own sc) cs :: recs, fr', seen2) := by
  rw [level]
  simp only [hd, Option.map_some, hv]
  rfl

theorem level_cons_bad {defs : Defs} {id : ObjId} {o : Obj} {sc : Scope} {t : List (ObjId × Scope)}
    {seen : List ObjId} (hd : defOf defs id = some o) (hv : view defs o = .defective) :
    level defs ((id, sc) :: t) seen = none := by
  rw [level]
  simp only [hd, Option.map_some, hv]

theorem qMeasure_pop {defs : Defs} {q : ConvQ} {e : QEntry} {rest : List QEntry} (hq : q.nodes = e :: rest) :
    qMeasure defs { q with nodes := rest } + 1 = qMeasure defs q := by
  simp only [qMeasure, hq, List.length_cons]; omega

theorem domLoop_cons {defs : Defs} {f : Nat} {q : ConvQ} {dom : Dom} {id : ObjId} {r : Option Resources} {o : Obj}
    {rest : List QEntry} (hq : q.nodes = (id, r, o) :: rest) :
    domLoop defs (f + 1) q dom =
      match domStep defs { q with nodes := rest } dom id r o with
      | .panic p => .panic p
      | .err e => .err e
      | .ok (q, dom) => domLoop defs f q dom := by
  rw [domLoop]
  simp only [hq, List.isEmpty_cons, Bool.false_eq_true, if_false]
  cases domStep defs { nodes := rest, examined := q.examined } dom id r o with
  | panic p => rfl
  | err e => rfl
  | ok res => obtain ⟨a, b⟩ := res; rfl

theorem level_sim (defs : Defs) (hwf : DefsWF defs) : ∀ (cur nxt : List QEntry) (q : ConvQ) (dom : Dom) (fuel : Nat),
    q.nodes = cur ++ nxt → (∀ e ∈ cur, lookup defs e.1 = some e.2.2) → DomInv defs dom →
    qMeasure defs q < fuel →
    match level defs (cur.map proj) q.examined with
    | none => ∃ e, domLoop defs fuel q dom = .err e
    | some (recs, fr', seen2) =>
      ∃ q' dom' fuel' pairs nxt', domLoop defs fuel q dom = domLoop defs fuel' q' dom' ∧
        qMeasure defs q' < fuel' ∧ qMeasure defs q' + cur.length ≤ qMeasure defs q ∧
        q'.nodes = nxt ++ nxt' ∧ nxt'.map proj = fr' ∧ (∀ e ∈ nxt', lookup defs e.1 = some e.2.2) ∧
        q'.examined = seen2 ∧ DomInv defs dom' ∧ dom'.pages = insAll dom.pages pairs ∧
        RecsRel recs pairs := by
  intro cur
  induction cur with
  | nil =>
    intro nxt q dom fuel hq _ hinv hm
    simp only [List.map_nil, level]
    exact ⟨q, dom, fuel, [], [], rfl, hm, by simp, by simpa using hq, rfl, by simp, rfl, hinv, rfl, trivial⟩
  | cons e cur' ih =>
    intro nxt q dom fuel hq hdef hinv hm
    obtain ⟨id, r, o⟩ := e
    have hl : lookup defs id = some o := hdef (id, r, o) (by simp)
    have hd : defOf defs id = some o := by rw [← lookup_eq_defOf]; exact hl
    have hq' : q.nodes = (id, r, o) :: (cur' ++ nxt) := by simpa using hq
    cases fuel with
    | zero => omega
    | succ f =>
    rw [domLoop_cons hq']
    have hpop := qMeasure_pop (defs := defs) hq'
    have hstep := domStep_sim defs hwf { q with nodes := cur' ++ nxt } dom id r o hinv (hwf id o hl)
    simp only [List.map_cons, proj]
    cases hv : view defs o with
    | defective =>
      simp only [hv] at hstep
      obtain ⟨e, he⟩ := hstep
      rw [level_cons_bad hd hv]
      exact ⟨e, by simp [he]⟩
    | pages parent c kids own =>
      simp only [hv] at hstep
      obtain ⟨q1, dom1, n, h1, h2, h3, h4, h5, h6, ⟨h7, nx1, h8, h9, h10⟩, h11⟩ := hstep
      rw [level_cons_pages hd hv]
      simp only [h1]
      have hmeas := domStep_measure h1
      have := ih (nxt ++ nx1) q1 dom1 f (by simp [h8]) (fun e he => hdef e (by simp [he])) h11 (by omega)
      rw [h7] at this
      simp only [] at this
      cases hlv : level defs (cur'.map proj) (newKids defs (effScope own (scopeOf r)) kids q.examined).2 with
      | none =>
        simp only [hlv] at this
        exact this
      | some res =>
        obtain ⟨recs, fr', seen2⟩ := res
        simp only [hlv] at this
        obtain ⟨q', dom', fuel', pairs, nxt', g1, g2, g3, g4, g5, g6, g7, g8, g9, g10⟩ := this
        refine ⟨q', dom', fuel', (id, .node n) :: pairs, nx1 ++ nxt', g1, g2, ?_, by simp [g4], ?_, ?_, g7, g8, ?_, ?_⟩
        · simp only [List.length_cons]; omega
        · simp [h9, g5]
        · intro e he
          rcases List.mem_append.mp he with he | he
          · exact h10 e he
          · exact g6 e he
        · simp [insAll, g9, h2]
        · exact ⟨⟨rfl, h3, h4, h6, h5⟩, g10⟩
    | page parent own cs =>
      simp only [hv] at hstep
      obtain ⟨dom1, p, h1, h2, h3, h4, h5, h6⟩ := hstep
      rw [level_cons_page hd hv]
      simp only [h1]
      have := ih nxt { q with nodes := cur' ++ nxt } dom1 f rfl (fun e he => hdef e (by simp [he])) h6 (by omega)
      simp only [] at this
      cases hlv : level defs (cur'.map proj) q.examined with
      | none =>
        simp only [hlv] at this
        exact this
      | some res =>
        obtain ⟨recs, fr', seen2⟩ := res
        simp only [hlv] at this
        obtain ⟨q', dom', fuel', pairs, nxt', g1, g2, g3, g4, g5, g6, g7, g8, g9, g10⟩ := this
        refine ⟨q', dom', fuel', (id, .leaf p) :: pairs, nxt', g1, g2, ?_, g4, g5, g6, g7, g8, ?_, ?_⟩
        · simp only [List.length_cons]; omega
        · simp [insAll, g9, h2]
        · exact ⟨⟨rfl, h3, h4, h5⟩, g10⟩


theorem domLoop_empty {defs : Defs} {fuel : Nat} {q : ConvQ} {dom : Dom} (hq : q.nodes = []) (hf : 0 < fuel) :
    domLoop defs fuel q dom = .ok dom := by
  cases fuel with
  | zero => omega
  | succ f => rw [domLoop]; simp [hq]

/-- the work loop against the spec's level-by-level discovery (the queue is the rest of the current
    level followed by the part of the next level found so far; `examined` is `seen`) -/
theorem discover_sim (defs : Defs) (hwf : DefsWF defs) : ∀ (n : Nat) (q : ConvQ) (dom : Dom) (fuel : Nat),
    qMeasure defs q ≤ n → qMeasure defs q < fuel →
    (∀ e ∈ q.nodes, lookup defs e.1 = some e.2.2) → DomInv defs dom →
    match discover defs n (q.nodes.map proj) q.examined with
    | none => ∃ e, domLoop defs fuel q dom = .err e
    | some recs => ∃ dom' pairs, domLoop defs fuel q dom = .ok dom' ∧
        dom'.pages = insAll dom.pages pairs ∧ RecsRel recs pairs := by
  intro n
  induction n with
  | zero =>
    intro q dom fuel hn hf _ _
    have hq : q.nodes = [] := by
      have : q.nodes.length = 0 := by simp only [qMeasure] at hn; omega
      exact List.length_eq_zero_iff.mp this
    simp only [hq, List.map_nil, discover]
    exact ⟨dom, [], domLoop_empty hq (by omega), rfl, trivial⟩
  | succ n ih =>
    intro q dom fuel hn hf hdef hinv
    cases hq : q.nodes with
    | nil =>
      simp only [List.map_nil, discover, List.isEmpty_nil, if_true]
      exact ⟨dom, [], domLoop_empty hq (by omega), rfl, trivial⟩
    | cons e rest =>
      have hne : ((e :: rest).map proj).isEmpty = false := by simp
      rw [discover]
      simp only [hne, Bool.false_eq_true, if_false]
      have := level_sim defs hwf q.nodes [] q dom fuel (by simp) hdef hinv hf
      rw [hq] at this
      cases hlv : level defs ((e :: rest).map proj) q.examined with
      | none =>
        simp only [hlv] at this
        exact this
      | some res =>
        obtain ⟨recs, fr', seen2⟩ := res
        simp only [hlv] at this
        obtain ⟨q', dom', fuel', pairs, nxt', g1, g2, g3, g4, g5, g6, g7, g8, g9, g10⟩ := this
        simp only [List.nil_append] at g4
        simp only [List.length_cons] at g3
        have := ih q' dom' fuel' (by omega) g2 (by rw [g4]; exact g6) g8
        rw [g4, g5, g7] at this
        simp only []
        cases hdisc : discover defs n fr' seen2 with
        | none =>
          simp only [hdisc] at this
          rw [g1]; exact this
        | some more =>
          simp only [hdisc] at this
          obtain ⟨dom'', pairs2, k1, k2, k3⟩ := this
          refine ⟨dom'', pairs ++ pairs2, by rw [g1]; exact k1, ?_, RecsRel_append _ _ _ _ g10 k3⟩
          simp [insAll, k2, g9]

theorem domInv_empty (defs : Defs) : DomInv defs {} := by
  intro id hid
  simp [bmGet] at hid

/-- the root node converter against the spec's reading of the root -/
theorem toRoot_sim (defs : Defs) (hwf : DefsWF defs) (q : ConvQ) (dom : Dom) (rd : Kvs)
    (hinv : DomInv defs dom) (hd : wfKvs rd = true) :
    (∀ c kids, ownFonts defs rd ≠ some none → countOf rd = some c → kidsOf defs rd = some kids →
      ∃ q' dom' root, toRootPageTreeNode defs q dom (.dict rd) = .ok (q', dom', root) ∧
        root.count = c ∧ root.kids = kids ∧ scopeOf root.resources = (ownFonts defs rd).bind id ∧
        QStep defs q q' ((ownFonts defs rd).bind id) kids ∧ DomInv defs dom' ∧ dom'.pages = dom.pages) ∧
    ((ownFonts defs rd = some none ∨ countOf rd = none ∨ kidsOf defs rd = none) →
      ∃ e, toRootPageTreeNode defs q dom (.dict rd) = .err e) := by
  simp only [toRootPageTreeNode, getUsize_count, kidsOf_eq']
  have hown := ownResources_sim defs hwf dom rd hinv hd
  cases hO : ownFonts defs rd with
  | none =>
    simp only [hO] at hown
    simp only [hown]
    cases hC : countOf rd with
    | none => simp
    | some c =>
      cases hK : dictGet nKids rd with
      | none => simp
      | some ko =>
        simp only []
        have hk := toPageKids_sim defs q none ko
        cases hkv : kidsVal defs ko with
        | none => simp [hk.1 hkv]
        | some kids =>
          obtain ⟨q', h1, h2⟩ := hk.2 kids hkv
          simp only [h1]
          refine ⟨?_, by simp⟩
          intro c' kids' _ hc hk'
          simp only [Option.some.injEq] at hc hk'
          subst hc hk'
          exact ⟨q', dom, _, rfl, rfl, rfl, rfl, h2, hinv, rfl⟩
  | some own =>
    cases own with
    | none =>
      simp only [hO] at hown
      obtain ⟨e, he⟩ := hown
      simp [he]
    | some ns =>
      simp only [hO] at hown
      obtain ⟨dom', res, h1, h2, h3, h4⟩ := hown
      simp only [h1]
      cases hC : countOf rd with
      | none => simp
      | some c =>
        cases hK : dictGet nKids rd with
        | none => simp
        | some ko =>
          simp only []
          have hk := toPageKids_sim defs q (some res) ko
          cases hkv : kidsVal defs ko with
          | none => simp [hk.1 hkv]
          | some kids =>
            obtain ⟨q', h5, h6⟩ := hk.2 kids hkv
            simp only [h5]
            refine ⟨?_, by simp⟩
            intro c' kids' _ hc hk'
            simp only [Option.some.injEq] at hc hk'
            subst hc hk'
            have hsc : scopeOf (some res) = some ns := by simp [scopeOf, h2]
            exact ⟨q', dom', _, rfl, rfl, rfl, by simpa using hsc, by simpa [hsc] using h6, h3, h4⟩


/-! ## F. the model computes the spec's DOM -/

/-- **the model of `to_page_dom` against `specDom`**: an error exactly when the spec expects one;
    otherwise the root node and the page map are the spec's: `dom.pages` is the result of inserting
    one entry per spec record, in discovery order, each entry carrying the record's identifier,
    parent, count / kids, font resource names and content stream identities. -/
theorem dom_spec (defs : Defs) (hwf : DefsWF defs) (cat : Obj) :
    match specDom defs cat with
    | none => ∃ e, toPageDom defs cat = .err e
    | some sd => ∃ root dom pairs, toPageDom defs cat = .ok (root, dom) ∧
        root.count = sd.rootCount ∧ scopeOf root.resources = sd.rootFonts ∧ root.kids = sd.rootKids ∧
        dom.pages = insAll [] pairs ∧ RecsRel sd.recs pairs := by
  unfold specDom toPageDom toPageDomFuel toCatalog getRef
  cases cat
  case dict cd =>
    simp only []
    cases hP : dictGet nPages cd with
    | none => simp
    | some po =>
      cases po
      case ref a g =>
        simp only [← lookup_eq_defOf]
        cases hl : lookup defs (a, g) with
        | none => simp
        | some ro =>
          have hro : wfObj ro = true := hwf (a, g) ro hl
          cases ro
          case dict rd =>
            simp only [wfObj, Bool.and_eq_true] at hro
            have hroot := toRoot_sim defs hwf {} {} rd (domInv_empty defs) hro.2
            simp only []
            cases hO : ownFonts defs rd with
            | some own =>
              cases own with
              | none =>
                obtain ⟨e, he⟩ := hroot.2 (Or.inl hO)
                simp [he]
              | some ns =>
                cases hC : countOf rd with
                | none =>
                  obtain ⟨e, he⟩ := hroot.2 (Or.inr (Or.inl hC))
                  simp [he]
                | some c =>
                  cases hK : kidsOf defs rd with
                  | none =>
                    obtain ⟨e, he⟩ := hroot.2 (Or.inr (Or.inr hK))
                    simp [he]
                  | some kids =>
                    obtain ⟨q', dom', root, h1, h2, h3, h4, ⟨h5, nx, h6, h7, h8⟩, h9, h10⟩ :=
                      hroot.1 c kids (by simp [hO]) hC hK
                    have hmeas := toRootPageTreeNode_measure h1
                    have hu := unseen_le defs []
                    have hm0 : qMeasure defs ({} : ConvQ) ≤ defs.length := by
                      simpa [qMeasure] using hu
                    have hsim := discover_sim defs hwf (defs.length + 1) q' dom' (defs.length + 1)
                      (by omega) (by omega) (by simpa [h6] using h8) h9
                    simp only [h6, List.nil_append, h7, h5] at hsim
                    simp only [h1, hO] at hsim ⊢
                    simp only [Option.bind_some, id] at hsim ⊢
                    cases hdisc : discover defs (defs.length + 1) (newKids defs (some ns) kids []).1
                        (newKids defs (some ns) kids []).2 with
                    | none =>
                      simp only [hdisc] at hsim
                      obtain ⟨e, he⟩ := hsim
                      simp [he]
                    | some recs =>
                      simp only [hdisc] at hsim
                      obtain ⟨dom'', pairs, k1, k2, k3⟩ := hsim
                      simp only [k1]
                      exact ⟨root, dom'', pairs, rfl, h2, by simpa [hO] using h4, h3, by rw [k2, h10], k3⟩
            | none =>
              cases hC : countOf rd with
              | none =>
                obtain ⟨e, he⟩ := hroot.2 (Or.inr (Or.inl hC))
                simp [he]
              | some c =>
                cases hK : kidsOf defs rd with
                | none =>
                  obtain ⟨e, he⟩ := hroot.2 (Or.inr (Or.inr hK))
                  simp [he]
                | some kids =>
                  obtain ⟨q', dom', root, h1, h2, h3, h4, ⟨h5, nx, h6, h7, h8⟩, h9, h10⟩ :=
                    hroot.1 c kids (by simp [hO]) hC hK
                  have hmeas := toRootPageTreeNode_measure h1
                  have hu := unseen_le defs []
                  have hm0 : qMeasure defs ({} : ConvQ) ≤ defs.length := by
                    simpa [qMeasure] using hu
                  have hsim := discover_sim defs hwf (defs.length + 1) q' dom' (defs.length + 1)
                    (by omega) (by omega) (by simpa [h6] using h8) h9
                  simp only [h6, List.nil_append, h7, h5] at hsim
                  simp only [h1, hO] at hsim ⊢
                  simp only [Option.bind_none] at hsim ⊢
                  cases hdisc : discover defs (defs.length + 1) (newKids defs none kids []).1
                      (newKids defs none kids []).2 with
                  | none =>
                    simp only [hdisc] at hsim
                    obtain ⟨e, he⟩ := hsim
                    simp [he]
                  | some recs =>
                    simp only [hdisc] at hsim
                    obtain ⟨dom'', pairs, k1, k2, k3⟩ := hsim
                    simp only [k1]
                    exact ⟨root, dom'', pairs, rfl, h2, by simpa [hO] using h4, h3, by rw [k2, h10], k3⟩
          all_goals simp [toRootPageTreeNode]
      all_goals simp
  all_goals simp


/-! ### facts about the spec alone: every identifier is discovered once -/

theorem newKids_seen (defs : Defs) (sc : Scope) : ∀ (kids seen : List ObjId),
    (newKids defs sc kids seen).2 = ((newKids defs sc kids seen).1.map (·.1)).reverse ++ seen ∧
    (seen.Nodup → (newKids defs sc kids seen).2.Nodup) := by
  intro kids
  induction kids with
  | nil => intro seen; simp [newKids]
  | cons k t ih =>
    intro seen
    rw [newKids_cons]
    split
    · rename_i hc
      simp only [Bool.and_eq_true, Bool.not_eq_true', Option.isSome_iff_exists] at hc
      obtain ⟨h1, h2⟩ := ih (k :: seen)
      refine ⟨by simp only [h1]; simp, fun hn => h2 ?_⟩
      have : k ∉ seen := by simpa using hc.2
      exact List.nodup_cons.mpr ⟨this, hn⟩
    · exact ih seen

theorem level_spec (defs : Defs) : ∀ (t : List (ObjId × Scope)) (seen : List ObjId) (recs : List Rec)
    (fr' : List (ObjId × Scope)) (seen2 : List ObjId), level defs t seen = some (recs, fr', seen2) →
    recs.map Rec.id = t.map (·.1) ∧ seen2 = (fr'.map (·.1)).reverse ++ seen ∧ (seen.Nodup → seen2.Nodup) := by
  intro t
  induction t with
  | nil => intro seen recs fr' seen2 h; simp [level] at h; obtain ⟨rfl, rfl, rfl⟩ := h; simp
  | cons e t ih =>
    intro seen recs fr' seen2 h
    obtain ⟨id, sc⟩ := e
    cases hd : defOf defs id with
    | none => rw [level] at h; simp [hd] at h
    | some o =>
      cases hv : view defs o with
      | defective => rw [level_cons_bad hd hv] at h; simp at h
      | pages parent c kids own =>
        rw [level_cons_pages hd hv] at h
        obtain ⟨k1, k2⟩ := newKids_seen defs (effScope own sc) kids seen
        cases hl : level defs t (newKids defs (effScope own sc) kids seen).2 with
        | none => simp [hl] at h
        | some res =>
          obtain ⟨recs1, fr1, seen1⟩ := res
          simp only [hl, Option.some.injEq, Prod.mk.injEq] at h
          obtain ⟨rfl, rfl, rfl⟩ := h
          obtain ⟨g1, g2, g3⟩ := ih _ _ _ _ hl
          refine ⟨by simp [g1, Rec.id], ?_, fun hn => g3 (k2 hn)⟩
          rw [g2, k1]; simp
      | page parent own cs =>
        rw [level_cons_page hd hv] at h
        cases hl : level defs t seen with
        | none => simp [hl] at h
        | some res =>
          obtain ⟨recs1, fr1, seen1⟩ := res
          simp only [hl, Option.some.injEq, Prod.mk.injEq] at h
          obtain ⟨rfl, rfl, rfl⟩ := h
          obtain ⟨g1, g2, g3⟩ := ih _ _ _ _ hl
          exact ⟨by simp [g1, Rec.id], g2, g3⟩

theorem discover_spec (defs : Defs) : ∀ (n : Nat) (fr : List (ObjId × Scope)) (seen : List ObjId) (recs : List Rec),
    discover defs n fr seen = some recs → seen.Nodup →
    ∃ more, recs.map Rec.id = fr.map (·.1) ++ more ∧ (more.reverse ++ seen).Nodup := by
  intro n
  induction n with
  | zero =>
    intro fr seen recs h hn
    cases fr with
    | nil => simp [discover] at h; subst h; exact ⟨[], by simp, by simpa using hn⟩
    | cons _ _ => simp [discover] at h
  | succ n ih =>
    intro fr seen recs h hn
    rw [discover] at h
    split at h
    · rename_i he
      have : fr = [] := by simpa using he
      simp only [Option.some.injEq] at h
      subst h this
      exact ⟨[], by simp, by simpa using hn⟩
    · cases hl : level defs fr seen with
      | none => simp [hl] at h
      | some res =>
        obtain ⟨recs1, fr1, seen1⟩ := res
        simp only [hl] at h
        cases hdisc : discover defs n fr1 seen1 with
        | none => simp [hdisc] at h
        | some more1 =>
          simp only [hdisc, Option.some.injEq] at h
          subst h
          obtain ⟨g1, g2, g3⟩ := level_spec defs _ _ _ _ _ hl
          obtain ⟨more2, k1, k2⟩ := ih _ _ _ hdisc (g3 hn)
          refine ⟨fr1.map (·.1) ++ more2, by simp [g1, k1], ?_⟩
          rw [g2] at k2
          simpa using k2

/-- **each identifier is discovered exactly once** (a fact about the spec): the records of the
    expected DOM have pairwise different identifiers -/
theorem spec_recs_nodup (defs : Defs) (cat : Obj) (sd : SpecDom) (h : specDom defs cat = some sd) :
    (sd.recs.map Rec.id).Nodup := by
  unfold specDom at h
  split at h
  · split at h
    · split at h
      · split at h
        · simp at h
        · rename_i rd _ _ _ _ c kids _ _ _
          generalize (ownFonts defs rd).bind id = sc at h
          simp only [] at h
          obtain ⟨k1, k2⟩ := newKids_seen defs sc kids []
          cases hdisc : discover defs (defs.length + 1) (newKids defs sc kids []).1
              (newKids defs sc kids []).2 with
          | none => simp [hdisc] at h
          | some recs =>
            simp only [hdisc, Option.some.injEq] at h
            subst h
            obtain ⟨more, g1, g2⟩ := discover_spec defs _ _ _ _ hdisc (k2 List.nodup_nil)
            simp only []
            rw [g1]
            rw [k1] at g2
            simp only [List.append_nil] at g2
            have : (((newKids defs sc kids []).1.map (·.1)) ++ more).reverse.Nodup := by
              simpa using g2
            exact (List.reverse_perm _).nodup_iff.mp this
        · simp at h
      · simp at h
    · simp at h
  · simp at h

/-! ### facts about the spec alone: the discovered set is closed under defined kids, and every
    record is explained by the node that discovered it -/

theorem newKids_closed (defs : Defs) (sc : Scope) : ∀ (kids seen : List ObjId),
    (∀ k ∈ seen, k ∈ (newKids defs sc kids seen).2) ∧
    (∀ k ∈ kids, (defOf defs k).isSome = true → k ∈ (newKids defs sc kids seen).2) ∧
    (∀ e ∈ (newKids defs sc kids seen).1, e.2 = sc ∧ e.1 ∈ kids) := by
  intro kids
  induction kids with
  | nil => intro seen; simp [newKids]
  | cons k t ih =>
    intro seen
    rw [newKids_cons]
    split
    · obtain ⟨h1, h2, h3⟩ := ih (k :: seen)
      refine ⟨fun x hx => h1 x (by simp [hx]), ?_, ?_⟩
      · intro x hx hd
        rcases List.mem_cons.mp hx with rfl | hx
        · exact h1 x (by simp)
        · exact h2 x hx hd
      · intro e he
        rcases List.mem_cons.mp he with rfl | he
        · simp
        · have := h3 e he
          exact ⟨this.1, by simp [this.2]⟩
    · rename_i hc
      obtain ⟨h1, h2, h3⟩ := ih seen
      refine ⟨h1, ?_, ?_⟩
      · intro x hx hd
        rcases List.mem_cons.mp hx with rfl | hx
        · have hmem : x ∈ seen := by
            apply Classical.byContradiction
            intro hn
            simp only [hd, Bool.true_and, Bool.not_eq_true', List.contains_eq_mem, decide_eq_false_iff_not,
              Classical.not_not] at hc
            exact hn hc
          exact h1 x hmem
        · exact h2 x hx hd
      · intro e he
        have := h3 e he
        exact ⟨this.1, by simp [this.2]⟩

/-- how a record arises from the definition of its identifier under the inherited scope `sc`:
    own resources first, else the inherited scope -/
def RecFrom (defs : Defs) (r : Rec) (sc : Scope) : Prop :=
  ∃ o, defOf defs r.id = some o ∧
    match r with
    | .node _ parent c fonts kids => ∃ own, view defs o = .pages parent c kids own ∧ fonts = effScope own sc
    | .leaf _ parent fonts cs => ∃ own, view defs o = .page parent own cs ∧ fonts = pageFonts own sc

theorem level_origin (defs : Defs) : ∀ (t : List (ObjId × Scope)) (seen : List ObjId) (recs : List Rec)
    (fr' : List (ObjId × Scope)) (seen2 : List ObjId), level defs t seen = some (recs, fr', seen2) →
    (∀ r ∈ recs, ∃ sc, (r.id, sc) ∈ t ∧ RecFrom defs r sc) ∧
    (∀ e ∈ fr', ∃ id parent c kids, Rec.node id parent c e.2 kids ∈ recs ∧ e.1 ∈ kids) ∧
    (∀ k ∈ seen, k ∈ seen2) ∧
    (∀ id parent c f kids, Rec.node id parent c f kids ∈ recs → ∀ k ∈ kids, (defOf defs k).isSome = true → k ∈ seen2) := by
  intro t
  induction t with
  | nil => intro seen recs fr' seen2 h; simp [level] at h; obtain ⟨rfl, rfl, rfl⟩ := h; simp
  | cons e t ih =>
    intro seen recs fr' seen2 h
    obtain ⟨id, sc⟩ := e
    cases hd : defOf defs id with
    | none => rw [level] at h; simp [hd] at h
    | some o =>
      cases hv : view defs o with
      | defective => rw [level_cons_bad hd hv] at h; simp at h
      | pages parent c kids own =>
        rw [level_cons_pages hd hv] at h
        obtain ⟨k1, k2, k3⟩ := newKids_closed defs (effScope own sc) kids seen
        cases hl : level defs t (newKids defs (effScope own sc) kids seen).2 with
        | none => simp [hl] at h
        | some res =>
          obtain ⟨recs1, fr1, seen1⟩ := res
          simp only [hl, Option.some.injEq, Prod.mk.injEq] at h
          obtain ⟨rfl, rfl, rfl⟩ := h
          obtain ⟨g1, g2, g3, g4⟩ := ih _ _ _ _ hl
          refine ⟨?_, ?_, fun k hk => g3 k (k1 k hk), ?_⟩
          · intro r hr
            rcases List.mem_cons.mp hr with rfl | hr
            · exact ⟨sc, by simp [Rec.id], o, by simpa [Rec.id] using hd, own, hv, rfl⟩
            · obtain ⟨sc', h1, h2⟩ := g1 r hr
              exact ⟨sc', by simp [h1], h2⟩
          · intro e he
            rcases List.mem_append.mp he with he | he
            · have := k3 e he
              exact ⟨id, parent, c, kids, by rw [this.1]; simp, this.2⟩
            · obtain ⟨id', p', c', kids', h1, h2⟩ := g2 e he
              exact ⟨id', p', c', kids', by simp [h1], h2⟩
          · intro id' p' c' f' kids' hm k hk hdk
            rcases List.mem_cons.mp hm with heq | hm
            · simp only [Rec.node.injEq] at heq
              obtain ⟨_, _, _, _, rfl⟩ := heq
              exact g3 k (k2 k hk hdk)
            · exact g4 id' p' c' f' kids' hm k hk hdk
      | page parent own cs =>
        rw [level_cons_page hd hv] at h
        cases hl : level defs t seen with
        | none => simp [hl] at h
        | some res =>
          obtain ⟨recs1, fr1, seen1⟩ := res
          simp only [hl, Option.some.injEq, Prod.mk.injEq] at h
          obtain ⟨rfl, rfl, rfl⟩ := h
          obtain ⟨g1, g2, g3, g4⟩ := ih _ _ _ _ hl
          refine ⟨?_, ?_, g3, ?_⟩
          · intro r hr
            rcases List.mem_cons.mp hr with rfl | hr
            · exact ⟨sc, by simp [Rec.id], o, by simpa [Rec.id] using hd, own, hv, rfl⟩
            · obtain ⟨sc', h1, h2⟩ := g1 r hr
              exact ⟨sc', by simp [h1], h2⟩
          · intro e he
            obtain ⟨id', p', c', kids', h1, h2⟩ := g2 e he
            exact ⟨id', p', c', kids', by simp [h1], h2⟩
          · intro id' p' c' f' kids' hm k hk hdk
            rcases List.mem_cons.mp hm with heq | hm
            · simp at heq
            · exact g4 id' p' c' f' kids' hm k hk hdk

theorem discover_fr_sub (defs : Defs) (n : Nat) (fr : List (ObjId × Scope)) (seen : List ObjId) (recs : List Rec)
    (h : discover defs n fr seen = some recs) : ∀ k ∈ fr.map (·.1), k ∈ recs.map Rec.id := by
  cases n with
  | zero =>
    cases fr with
    | nil => simp
    | cons _ _ => simp [discover] at h
  | succ n =>
    rw [discover] at h
    split at h
    · rename_i he
      have : fr = [] := by simpa using he
      subst this; simp
    · cases hl : level defs fr seen with
      | none => simp [hl] at h
      | some res =>
        obtain ⟨recs1, fr1, seen1⟩ := res
        simp only [hl] at h
        cases hdisc : discover defs n fr1 seen1 with
        | none => simp [hdisc] at h
        | some more1 =>
          simp only [hdisc, Option.some.injEq] at h
          subst h
          obtain ⟨s1, _, _⟩ := level_spec defs _ _ _ _ _ hl
          intro k hk
          simp only [List.map_append, List.mem_append]
          left; rw [s1]; exact hk

/-- origin of every record, and the final seen-set of a discovery -/
theorem discover_origin (defs : Defs) : ∀ (n : Nat) (fr : List (ObjId × Scope)) (seen : List ObjId) (recs : List Rec),
    discover defs n fr seen = some recs →
    (∀ pre r post, recs = pre ++ r :: post → ∃ sc, RecFrom defs r sc ∧
      ((r.id, sc) ∈ fr ∨ ∃ id parent c kids, Rec.node id parent c sc kids ∈ pre ∧ r.id ∈ kids)) ∧
    ∃ seenF : List ObjId, (∀ k ∈ seen, k ∈ seenF) ∧
      (∀ k ∈ seenF, k ∈ seen ∨ k ∈ recs.map Rec.id) ∧
      (∀ id parent c f kids, Rec.node id parent c f kids ∈ recs → ∀ k ∈ kids,
        (defOf defs k).isSome = true → k ∈ seenF) := by
  intro n
  induction n with
  | zero =>
    intro fr seen recs h
    cases fr with
    | nil =>
      simp [discover] at h; subst h
      exact ⟨by intro pre r post h; simp at h, seen, fun k hk => hk, fun k hk => Or.inl hk, by simp⟩
    | cons _ _ => simp [discover] at h
  | succ n ih =>
    intro fr seen recs h
    rw [discover] at h
    split at h
    · simp only [Option.some.injEq] at h
      subst h
      exact ⟨by intro pre r post h; simp at h, seen, fun k hk => hk, fun k hk => Or.inl hk, by simp⟩
    · cases hl : level defs fr seen with
      | none => simp [hl] at h
      | some res =>
        obtain ⟨recs1, fr1, seen1⟩ := res
        simp only [hl] at h
        cases hdisc : discover defs n fr1 seen1 with
        | none => simp [hdisc] at h
        | some more1 =>
          simp only [hdisc, Option.some.injEq] at h
          subst h
          obtain ⟨g1, g2, g3, g4⟩ := level_origin defs _ _ _ _ _ hl
          obtain ⟨s1, s2, s3⟩ := level_spec defs _ _ _ _ _ hl
          obtain ⟨k1, seenF, k2, k3, k4⟩ := ih _ _ _ hdisc
          refine ⟨?_, seenF, fun k hk => k2 k (g3 k hk), ?_, ?_⟩
          · intro pre r post heq
            rcases List.append_eq_append_iff.mp heq with ⟨a', h1, h2⟩ | ⟨c', h1, h2⟩
            · -- recs1 ++ more1 = pre ++ r :: post with pre = recs1 ++ a'
              obtain ⟨sc, hr, hor⟩ := k1 a' r post h2
              refine ⟨sc, hr, ?_⟩
              rcases hor with hor | ⟨id, p, c, kids, hm, hk⟩
              · obtain ⟨id, p, c, kids, hm, hk⟩ := g2 (r.id, sc) hor
                exact Or.inr ⟨id, p, c, kids, by rw [h1]; simp [hm], hk⟩
              · exact Or.inr ⟨id, p, c, kids, by rw [h1]; simp [hm], hk⟩
            · -- recs1 = pre ++ c', r :: post = c' ++ more1
              cases c' with
              | nil =>
                simp only [List.nil_append] at h2
                obtain ⟨sc, hr, hor⟩ := k1 [] r post (by simpa using h2.symm)
                refine ⟨sc, hr, ?_⟩
                rcases hor with hor | ⟨id, p, c, kids, hm, hk⟩
                · obtain ⟨id, p, c, kids, hm, hk⟩ := g2 (r.id, sc) hor
                  exact Or.inr ⟨id, p, c, kids, by rw [h1] at hm; simpa using hm, hk⟩
                · simp at hm
              | cons x c'' =>
                simp only [List.cons_append, List.cons.injEq] at h2
                obtain ⟨rfl, _⟩ := h2
                obtain ⟨sc, hm, hr⟩ := g1 r (by rw [h1]; simp)
                exact ⟨sc, hr, Or.inl hm⟩
          · intro k hk
            rcases k3 k hk with hk | hk
            · rw [s2] at hk
              rcases List.mem_append.mp hk with hk | hk
              · right
                have hk' : k ∈ fr1.map (·.1) := by simpa using hk
                have := discover_fr_sub defs _ _ _ _ hdisc k hk'
                simp only [List.map_append, List.mem_append]
                exact Or.inr this
              · exact Or.inl hk
            · right; simp only [List.map_append, List.mem_append]; exact Or.inr hk
          · intro id p c f kids hm k hk hdk
            rcases List.mem_append.mp hm with hm | hm
            · exact k2 k (g4 id p c f kids hm k hk hdk)
            · exact k4 id p c f kids hm k hk hdk

theorem specDom_some (defs : Defs) (cat : Obj) (sd : SpecDom) (h : specDom defs cat = some sd) :
    discover defs (defs.length + 1) (newKids defs sd.rootFonts sd.rootKids []).1
      (newKids defs sd.rootFonts sd.rootKids []).2 = some sd.recs := by
  unfold specDom at h
  split at h
  · split at h
    · split at h
      · split at h
        · simp at h
        · rename_i rd _ _ _ _ c kids _ _ _
          generalize (ownFonts defs rd).bind id = sc at h
          simp only [] at h
          cases hdisc : discover defs (defs.length + 1) (newKids defs sc kids []).1
              (newKids defs sc kids []).2 with
          | none => simp [hdisc] at h
          | some recs =>
            simp only [hdisc, Option.some.injEq] at h
            subst h
            exact hdisc
        · simp at h
      · simp at h
    · simp at h
  · simp at h

/-- **what the expected DOM is** (facts about the spec alone, for every definition map and catalog):
    1. each identifier has one record;
    2. complete: every defined kid of the root and of every recorded node has a record;
    3. sound, with nearest-ancestor resources: every record is built from the definition of its
       identifier (`view`) under an inherited scope `sc` -- own resources first, else `sc` -- and
       `sc` is the root's resources if a root kid discovered it, else the effective resources of an
       *earlier* recorded node that lists it as a kid.  Unfolding 3 along the (finite, since
       earlier) chain of discovering nodes gives: the resources of the nearest node on the discovery
       path that declares them. -/
theorem spec_dom_facts (defs : Defs) (cat : Obj) (sd : SpecDom) (h : specDom defs cat = some sd) :
    (sd.recs.map Rec.id).Nodup ∧
    (∀ k ∈ sd.rootKids, (defOf defs k).isSome = true → k ∈ sd.recs.map Rec.id) ∧
    (∀ id parent c f kids, Rec.node id parent c f kids ∈ sd.recs → ∀ k ∈ kids,
      (defOf defs k).isSome = true → k ∈ sd.recs.map Rec.id) ∧
    (∀ pre r post, sd.recs = pre ++ r :: post → ∃ sc, RecFrom defs r sc ∧
      ((r.id ∈ sd.rootKids ∧ sc = sd.rootFonts) ∨
        ∃ id parent c kids, Rec.node id parent c sc kids ∈ pre ∧ r.id ∈ kids)) := by
  have hdisc := specDom_some defs cat sd h
  obtain ⟨o1, seenF, o2, o3, o4⟩ := discover_origin defs _ _ _ _ hdisc
  obtain ⟨c1, c2, c3⟩ := newKids_closed defs sd.rootFonts sd.rootKids []
  obtain ⟨n1, _⟩ := newKids_seen defs sd.rootFonts sd.rootKids []
  have hsub := discover_fr_sub defs _ _ _ _ hdisc
  have hF : ∀ k ∈ seenF, k ∈ sd.recs.map Rec.id := by
    intro k hk
    rcases o3 k hk with hk | hk
    · rw [n1] at hk
      simp only [List.append_nil, List.mem_reverse] at hk
      exact hsub k hk
    · exact hk
  refine ⟨spec_recs_nodup defs cat sd h, ?_, ?_, ?_⟩
  · intro k hk hd
    exact hF k (o2 k (c2 k hk hd))
  · intro id p c f kids hm k hk hd
    exact hF k (o4 id p c f kids hm k hk hd)
  · intro pre r post heq
    obtain ⟨sc, hr, hor⟩ := o1 pre r post heq
    refine ⟨sc, hr, ?_⟩
    rcases hor with hor | hor
    · have := c3 (r.id, sc) hor
      exact Or.inl ⟨this.2, this.1⟩
    · exact Or.inr hor

/-! ### consequences for `dom.pages` -/

theorem RecsRel_ids : ∀ (recs : List Rec) (pairs : List (ObjId × PageKid)), RecsRel recs pairs →
    pairs.map (·.1) = recs.map Rec.id ∧ ∀ r ∈ recs, ∃ p ∈ pairs, Matches r p := by
  intro recs
  induction recs with
  | nil => intro pairs h; cases pairs <;> simp_all [RecsRel]
  | cons r t ih =>
    intro pairs h
    cases pairs with
    | nil => simp [RecsRel] at h
    | cons p ps =>
      simp only [RecsRel] at h
      obtain ⟨g1, g2⟩ := ih ps h.2
      have hid : p.1 = r.id := by
        obtain ⟨id', pk⟩ := p
        cases r <;> cases pk <;> simp_all [Matches, Rec.id]
      refine ⟨by simp [g1, hid], ?_⟩
      intro r' hr'
      rcases List.mem_cons.mp hr' with rfl | hr'
      · exact ⟨p, by simp, h.1⟩
      · obtain ⟨p', hp', hm⟩ := g2 r' hr'
        exact ⟨p', by simp [hp'], hm⟩

theorem insAll_perm : ∀ (pairs pages : List (ObjId × PageKid)),
    (pairs.map (·.1) ++ pages.map (·.1)).Nodup → (insAll pages pairs).Perm (pairs ++ pages) := by
  intro pairs
  induction pairs with
  | nil => intro pages _; exact List.Perm.refl _
  | cons p ps ih =>
    intro pages hn
    simp only [List.map_cons, List.cons_append, List.nodup_cons, List.mem_append, not_or] at hn
    have hp := bmInsert_perm p.1 p.2 pages hn.1.2
    have hn' : (ps.map (·.1) ++ (bmInsert idLt p.1 p.2 pages).map (·.1)).Nodup := by
      have hperm : (ps.map (·.1) ++ (bmInsert idLt p.1 p.2 pages).map (·.1)).Perm
          (p.1 :: (ps.map (·.1) ++ pages.map (·.1))) := by
        have := (hp.map (·.1))
        simp only [List.map_cons] at this
        exact (List.Perm.append_left _ this).trans List.perm_middle
      exact hperm.nodup_iff.mpr (List.nodup_cons.mpr ⟨by simp [hn.1.1, hn.1.2], hn.2⟩)
    have := ih (bmInsert idLt p.1 p.2 pages) hn'
    simp only [insAll, List.foldl_cons] at this ⊢
    exact this.trans ((List.Perm.append_left _ hp).trans List.perm_middle)


/-! ## G. the property theorems -/

/-- **dom_matches_spec** (all definition maps with genuine dictionaries, all catalogs): a successful
    `to_page_dom` returns the spec's root node, and `dom.pages` holds exactly one entry per spec
    record, under the record's identifier, carrying the record's data. -/
theorem dom_matches_spec (defs : Defs) (hwf : DefsWF defs) (cat : Obj) (root : RootNode) (dom : Dom)
    (h : toPageDom defs cat = .ok (root, dom)) :
    ∃ sd, specDom defs cat = some sd ∧
      root.count = sd.rootCount ∧ root.kids = sd.rootKids ∧ scopeOf root.resources = sd.rootFonts ∧
      (dom.pages.map (·.1)).Perm (sd.recs.map Rec.id) ∧ (dom.pages.map (·.1)).Nodup ∧
      ∀ r ∈ sd.recs, ∃ pk, (r.id, pk) ∈ dom.pages ∧ Matches r (r.id, pk) := by
  have hs := dom_spec defs hwf cat
  cases hsd : specDom defs cat with
  | none =>
    simp only [hsd] at hs
    obtain ⟨e, he⟩ := hs
    rw [h] at he; simp at he
  | some sd =>
    simp only [hsd] at hs
    obtain ⟨root', dom', pairs, h1, h2, h3, h4, h5, h6⟩ := hs
    rw [h] at h1
    simp only [DRes.ok.injEq, Prod.mk.injEq] at h1
    obtain ⟨rfl, rfl⟩ := h1
    obtain ⟨g1, g2⟩ := RecsRel_ids _ _ h6
    have hnd := spec_recs_nodup defs cat sd hsd
    have hperm := insAll_perm pairs [] (by simpa [g1] using hnd)
    rw [← h5] at hperm
    simp only [List.append_nil] at hperm
    have hkeys : (dom.pages.map (·.1)).Perm (sd.recs.map Rec.id) := by
      rw [← g1]; exact hperm.map _
    refine ⟨sd, rfl, h2, h4, h3, hkeys, hkeys.nodup_iff.mpr hnd, ?_⟩
    intro r hr
    obtain ⟨p, hp, hm⟩ := g2 r hr
    obtain ⟨id', pk⟩ := p
    have hid : id' = r.id := by cases r <;> cases pk <;> simp_all [Matches, Rec.id]
    subst hid
    exact ⟨pk, hperm.mem_iff.mpr hp, hm⟩

theorem nodup_keys_unique {α : Type} : ∀ (l : List (ObjId × α)), (l.map (·.1)).Nodup →
    ∀ id a b, (id, a) ∈ l → (id, b) ∈ l → a = b := by
  intro l
  induction l with
  | nil => intro _ id a b h; simp at h
  | cons x t ih =>
    intro hn id a b ha hb
    simp only [List.map_cons, List.nodup_cons] at hn
    rcases List.mem_cons.mp ha with ha | ha <;> rcases List.mem_cons.mp hb with hb | hb
    · rw [← ha] at hb; simpa using hb.symm
    · exact absurd (List.mem_map.mpr ⟨(id, b), hb, by rw [← ha]⟩) hn.1
    · exact absurd (List.mem_map.mpr ⟨(id, a), ha, by rw [← hb]⟩) hn.1
    · exact ih hn.2 id a b ha hb

/-- **dom_error_or_complete**: `to_page_dom` reports an error exactly when the spec expects one
    (the catalog, the root, or an object discovered before any other defective one is defective);
    otherwise it succeeds.  With `dom_never_panics` there is no third outcome. -/
theorem dom_error_or_complete (defs : Defs) (hwf : DefsWF defs) (cat : Obj) :
    ((∃ e, toPageDom defs cat = .err e) ↔ specDom defs cat = none) ∧
    ((∃ root dom, toPageDom defs cat = .ok (root, dom)) ↔ (specDom defs cat).isSome = true) := by
  have hs := dom_spec defs hwf cat
  cases hsd : specDom defs cat with
  | none =>
    simp only [hsd] at hs
    obtain ⟨e, he⟩ := hs
    simp [he]
  | some sd =>
    simp only [hsd] at hs
    obtain ⟨root, dom, pairs, h1, _⟩ := hs
    simp [h1]

/-- **dom_records_reachable_once**: on success the keys of `dom.pages` are exactly the identifiers
    the spec discovers, each once; that set contains every defined kid of the root and of every
    recorded node (complete), and every member was listed as a kid by the root or by an earlier
    recorded node (nothing else is recorded). -/
theorem dom_records_reachable_once (defs : Defs) (hwf : DefsWF defs) (cat : Obj) (root : RootNode) (dom : Dom)
    (h : toPageDom defs cat = .ok (root, dom)) :
    (dom.pages.map (·.1)).Nodup ∧
    (∀ k ∈ root.kids, (lookup defs k).isSome = true → k ∈ dom.pages.map (·.1)) ∧
    (∀ id n, (id, PageKid.node n) ∈ dom.pages → ∀ k ∈ n.kids, (lookup defs k).isSome = true →
      k ∈ dom.pages.map (·.1)) ∧
    (∀ k ∈ dom.pages.map (·.1), (lookup defs k).isSome = true ∧
      (k ∈ root.kids ∨ ∃ id n, (id, PageKid.node n) ∈ dom.pages ∧ k ∈ n.kids)) := by
  obtain ⟨sd, hsd, h1, h2, h3, hperm, hnd, hall⟩ := dom_matches_spec defs hwf cat root dom h
  obtain ⟨f1, f2, f3, f4⟩ := spec_dom_facts defs cat sd hsd
  have entry_unique := nodup_keys_unique dom.pages hnd
  refine ⟨hnd, ?_, ?_, ?_⟩
  · intro k hk hd
    rw [lookup_eq_defOf] at hd
    exact hperm.mem_iff.mpr (f2 k (h2 ▸ hk) hd)
  · intro id n hm k hk hd
    rw [lookup_eq_defOf] at hd
    have hid : id ∈ sd.recs.map Rec.id := hperm.mem_iff.mp (List.mem_map.mpr ⟨_, hm, rfl⟩)
    obtain ⟨r, hr, hrid⟩ := List.mem_map.mp hid
    obtain ⟨pk, hpk, hmat⟩ := hall r hr
    rw [hrid] at hpk hmat
    have := entry_unique id _ _ hm hpk
    subst this
    cases r with
    | leaf _ _ _ _ => simp [Matches] at hmat
    | node id' p c f kids =>
      simp only [Matches] at hmat
      obtain ⟨_, _, _, _, hk'⟩ := hmat
      exact hperm.mem_iff.mpr (f3 id' p c f kids hr k (hk' ▸ hk) hd)
  · intro k hk
    have hid : k ∈ sd.recs.map Rec.id := hperm.mem_iff.mp hk
    obtain ⟨r, hr, hrid⟩ := List.mem_map.mp hid
    obtain ⟨pre, post, hsplit⟩ := List.append_of_mem hr
    obtain ⟨sc, ⟨o, ho, _⟩, hor⟩ := f4 pre r post hsplit
    refine ⟨by rw [lookup_eq_defOf, ← hrid, ho]; rfl, ?_⟩
    rcases hor with ⟨hk', _⟩ | ⟨id, p, c, kids, hm, hk'⟩
    · exact Or.inl (by rw [h2, ← hrid]; exact hk')
    · right
      have hm' : Rec.node id p c sc kids ∈ sd.recs := by rw [hsplit]; simp [hm]
      obtain ⟨pk, hpk, hmat⟩ := hall _ hm'
      cases pk with
      | leaf _ => simp [Matches] at hmat
      | node n =>
        simp only [Matches] at hmat
        exact ⟨id, n, by simpa [Rec.id] using hpk, by rw [hmat.2.2.2.2, ← hrid]; exact hk'⟩

/-- **dom_resources_nearest**: on success every page entry carries the font resources the spec
    assigns: its own /Resources if it declares them, else the effective resources of the node that
    discovered it (an earlier record; recursively: the nearest declaring node on the discovery path),
    else the root's, else none.  Likewise every inner node's effective resources. -/
theorem dom_resources_nearest (defs : Defs) (hwf : DefsWF defs) (cat : Obj) (root : RootNode) (dom : Dom)
    (h : toPageDom defs cat = .ok (root, dom)) :
    ∃ sd, specDom defs cat = some sd ∧ scopeOf root.resources = sd.rootFonts ∧
      (∀ id parent fonts cs, Rec.leaf id parent fonts cs ∈ sd.recs →
        ∃ p, (id, PageKid.leaf p) ∈ dom.pages ∧ names p.resources = fonts) ∧
      (∀ id parent c fonts kids, Rec.node id parent c fonts kids ∈ sd.recs →
        ∃ n, (id, PageKid.node n) ∈ dom.pages ∧ scopeOf n.resources = fonts) ∧
      (∀ pre r post, sd.recs = pre ++ r :: post → ∃ sc, RecFrom defs r sc ∧
        ((r.id ∈ sd.rootKids ∧ sc = sd.rootFonts) ∨
          ∃ id parent c kids, Rec.node id parent c sc kids ∈ pre ∧ r.id ∈ kids)) := by
  obtain ⟨sd, hsd, _, _, h3, _, _, hall⟩ := dom_matches_spec defs hwf cat root dom h
  refine ⟨sd, hsd, h3, ?_, ?_, (spec_dom_facts defs cat sd hsd).2.2.2⟩
  · intro id parent fonts cs hm
    obtain ⟨pk, hpk, hmat⟩ := hall _ hm
    cases pk with
    | node _ => simp [Matches] at hmat
    | leaf p => exact ⟨p, by simpa [Rec.id] using hpk, hmat.2.2.1⟩
  · intro id parent c fonts kids hm
    obtain ⟨pk, hpk, hmat⟩ := hall _ hm
    cases pk with
    | leaf _ => simp [Matches] at hmat
    | node n => exact ⟨n, by simpa [Rec.id] using hpk, hmat.2.2.2.1⟩

/-- **dom_contents_in_order**: on success the content streams of every page entry are, in order,
    the streams its /Contents value denotes in the spec (`contentsOf`: a stream, or an array of
    streams, each possibly through reference chains), identified by the definition they were found
    under (`inline` for a direct stream object). -/
theorem dom_contents_in_order (defs : Defs) (hwf : DefsWF defs) (cat : Obj) (root : RootNode) (dom : Dom)
    (h : toPageDom defs cat = .ok (root, dom)) (id : ObjId) (p : Page) (hp : (id, PageKid.leaf p) ∈ dom.pages) :
    ∃ d cs, lookup defs id = some (.dict d) ∧ contentsOf defs d = some cs ∧
      p.contents.map (·.1) = cs.map srcOf := by
  obtain ⟨sd, hsd, _, _, _, hperm, hnd, hall⟩ := dom_matches_spec defs hwf cat root dom h
  have hid : id ∈ sd.recs.map Rec.id := hperm.mem_iff.mp (List.mem_map.mpr ⟨_, hp, rfl⟩)
  obtain ⟨r, hr, hrid⟩ := List.mem_map.mp hid
  obtain ⟨pk, hpk, hmat⟩ := hall r hr
  rw [hrid] at hpk hmat
  have hpk_eq : pk = .leaf p := nodup_keys_unique dom.pages hnd id _ _ hpk hp
  subst hpk_eq
  obtain ⟨pre, post, hsplit⟩ := List.append_of_mem hr
  obtain ⟨sc, ⟨o, ho, hview⟩, _⟩ := (spec_dom_facts defs cat sd hsd).2.2.2 pre r post hsplit
  cases r with
  | node _ _ _ _ _ => simp [Matches] at hmat
  | leaf id' parent fonts cs =>
    simp only [Rec.id] at hrid ho
    subst hrid
    simp only [Matches] at hmat
    simp only [] at hview
    obtain ⟨own, hv, _⟩ := hview
    -- the view of a /Page object exposes `contentsOf`
    cases o
    case dict d =>
      refine ⟨d, cs, by rw [lookup_eq_defOf]; exact ho, ?_, hmat.2.2.2⟩
      simp only [view] at hv
      split at hv
      · split at hv
        · simp at hv
        · split at hv
          · split at hv <;> simp at hv
          · split at hv
            · split at hv
              · rename_i cs' hcs
                simp only [View.page.injEq] at hv
                rw [hcs, hv.2.2]
              · simp at hv
            · simp at hv
      · simp at hv
    all_goals simp [view] at hv


/-! ### the same, as a statement about paths -/

/-- `Inherited defs rootKids rootFonts k sc`: there is a path root → … → `k` along /Kids entries of
    /Pages objects such that `sc` is the resource scope handed down to `k`: the root's resources at
    a root kid; below a node, the node's own resources if it declares them, else what the node
    itself inherited -- i.e. the resources of the nearest declaring node strictly above `k` on
    that path. -/
inductive Inherited (defs : Defs) (rootKids : List ObjId) (rootFonts : Scope) : ObjId → Scope → Prop
  | root {k : ObjId} : k ∈ rootKids → Inherited defs rootKids rootFonts k rootFonts
  | kid {id parent : ObjId} {c : Nat} {kids : List ObjId} {own : Option (List Bytes)} {o : Obj} {k : ObjId}
      {sc : Scope} : Inherited defs rootKids rootFonts id sc → defOf defs id = some o →
      view defs o = .pages parent c kids own → k ∈ kids →
      Inherited defs rootKids rootFonts k (effScope own sc)

/-- every record of the expected DOM lies on a path from the root and carries its own resources,
    else those of the nearest declaring node above it on that path (fact about the spec alone) -/
theorem spec_nearest_on_path (defs : Defs) (cat : Obj) (sd : SpecDom) (h : specDom defs cat = some sd) :
    ∀ r ∈ sd.recs, ∃ sc, Inherited defs sd.rootKids sd.rootFonts r.id sc ∧ RecFrom defs r sc := by
  have f4 := (spec_dom_facts defs cat sd h).2.2.2
  have key : ∀ (n : Nat) (pre : List Rec) (r : Rec) (post : List Rec), pre.length = n →
      sd.recs = pre ++ r :: post →
      ∃ sc, Inherited defs sd.rootKids sd.rootFonts r.id sc ∧ RecFrom defs r sc := by
    intro n
    induction n using Nat.strongRecOn with
    | _ n ih =>
      intro pre r post hlen hsplit
      obtain ⟨sc, hr, hor⟩ := f4 pre r post hsplit
      rcases hor with ⟨hk, hsc⟩ | ⟨id, p, c, kids, hm, hk⟩
      · exact ⟨sc, by rw [hsc]; exact Inherited.root hk, hr⟩
      · obtain ⟨pre', post', hpre⟩ := List.append_of_mem hm
        have hsplit' : sd.recs = pre' ++ Rec.node id p c sc kids :: (post' ++ r :: post) := by
          rw [hsplit, hpre]; simp
        obtain ⟨sc', hin, ⟨o, ho, hv⟩⟩ := ih pre'.length (by rw [← hlen, hpre]; simp) pre' _ _ rfl hsplit'
        simp only [Rec.id] at ho hin
        simp only [] at hv
        obtain ⟨own, hv, hsc⟩ := hv
        exact ⟨sc, by rw [hsc]; exact Inherited.kid hin ho hv hk, hr⟩
  intro r hr
  obtain ⟨pre, post, hsplit⟩ := List.append_of_mem hr
  exact key pre.length pre r post rfl hsplit

/-- **dom_page_resources_on_path**: on success, every page in `dom.pages` is reachable from the root
    along /Kids entries and has the font resources it declares itself, else those of the nearest
    node above it on that path that declares them, else none. -/
theorem dom_page_resources_on_path (defs : Defs) (hwf : DefsWF defs) (cat : Obj) (root : RootNode) (dom : Dom)
    (h : toPageDom defs cat = .ok (root, dom)) (id : ObjId) (p : Page) (hp : (id, PageKid.leaf p) ∈ dom.pages) :
    ∃ sc o parent own cs, Inherited defs root.kids (scopeOf root.resources) id sc ∧
      lookup defs id = some o ∧ view defs o = .page parent own cs ∧
      names p.resources = pageFonts own sc := by
  obtain ⟨sd, hsd, _, h2, h3, hperm, hnd, hall⟩ := dom_matches_spec defs hwf cat root dom h
  have hid : id ∈ sd.recs.map Rec.id := hperm.mem_iff.mp (List.mem_map.mpr ⟨_, hp, rfl⟩)
  obtain ⟨r, hr, hrid⟩ := List.mem_map.mp hid
  obtain ⟨pk, hpk, hmat⟩ := hall r hr
  rw [hrid] at hpk hmat
  have hpk_eq : pk = .leaf p := nodup_keys_unique dom.pages hnd id _ _ hpk hp
  subst hpk_eq
  obtain ⟨sc, hin, ⟨o, ho, hv⟩⟩ := spec_nearest_on_path defs cat sd hsd r hr
  cases r with
  | node _ _ _ _ _ => simp [Matches] at hmat
  | leaf id' parent fonts cs =>
    simp only [Rec.id] at hrid ho hin
    subst hrid
    simp only [Matches] at hmat
    simp only [] at hv
    obtain ⟨own, hv, hf⟩ := hv
    refine ⟨sc, o, parent, own, cs, by rw [h2, h3]; exact hin, by rw [lookup_eq_defOf]; exact ho, hv, ?_⟩
    rw [hmat.2.2.1, hf]

/-! ## H. non-vacuity: a concrete tree with a /Kids value behind a link, a cyclic and a shared kid,
    inherited resources and a /Contents chain of two links; and a looping /Kids -/

theorem defsWF_of_all (defs : Defs) (h : wfDefs defs = true) : DefsWF defs := by
  unfold wfDefs at h
  intro id o hl
  induction defs with
  | nil => simp [lookup] at hl
  | cons e t ih =>
    obtain ⟨k, v⟩ := e
    simp only [List.all_cons, Bool.and_eq_true] at h
    simp only [lookup] at hl
    split at hl
    · simp only [Option.some.injEq] at hl; rw [← hl]; exact h.1
    · exact ih h.2 hl

def mkD (l : List (Bytes × Obj)) : Obj := .dict (l.foldl (fun acc e => dictInsert e.1 e.2 acc) [])

def exFont : Obj := mkD [(nType, .name nFont), (nSubtype, .name nType1), (nBaseFont, .name nCount)]

def exDefs : Defs := [
  ((1, 0), mkD [(nPages, .ref 2 0)]),
  ((2, 0), mkD [(nType, .name nPages), (nCount, .int 1), (nKids, .ref 6 0),
                (nResources, mkD [(nFont, mkD [(nKids, exFont), (nCount, .ref 9 0)])])]),
  ((6, 0), .arr [.ref 3 0, .int 5, .ref 77 0]),
  ((3, 0), mkD [(nType, .name nPages), (nCount, .int 1), (nParent, .ref 2 0),
                (nKids, .arr [.ref 4 0, .ref 3 0, .ref 4 0, .ref 5 0])]),
  ((4, 0), mkD [(nType, .name nPage), (nParent, .ref 3 0), (nContents, .ref 7 0)]),
  ((5, 0), mkD [(nType, .name nPage), (nParent, .ref 3 0), (nResources, .ref 10 0),
                (nContents, .arr [.ref 8 0, .stream [] ⟨0, 0, []⟩, .ref 7 0])]),
  ((7, 0), .ref 8 0),
  ((8, 0), .stream [] ⟨0, 1, [113]⟩),
  ((9, 0), exFont),
  ((10, 0), .ref 11 0),
  ((11, 0), mkD [])]

def exCat : Obj := mkD [(nPages, .ref 2 0)]

example : DefsWF exDefs := defsWF_of_all _ (by decide)

/-- the hypotheses of the section-G theorems are satisfiable: the conversion succeeds, records the
    inner node 3 (listed twice: by the root's link and by itself) and the pages 4 (listed twice) and
    5 once each; page 4 inherits the root's two fonts through node 3, page 5 overrides them with its
    own (empty) resources found behind two links; contents are in document order with provenance -/
example :
    (match toPageDom exDefs exCat with
     | .ok (root, dom) =>
       root.kids == [(3, 0), (77, 0)] &&
       dom.pages.map (·.1) == [(3, 0), (4, 0), (5, 0)] &&
       dom.pages.map (fun e => match e.2 with
         | .node n => (scopeOf n.resources, [])
         | .leaf p => (some (names p.resources), p.contents.map (·.1))) ==
         [(some [nCount, nKids], []),
          (some [nCount, nKids], [.byId (8, 0)]),
          (some [], [.byId (8, 0), .inline, .byId (8, 0)])]
     | _ => false) = true := by decide

example : (specDom exDefs exCat).isSome = true := by decide

/-- a /Kids value that is a reference loop: the spec expects an error, the model reports one -/
def exLoop : Defs := [
  ((2, 0), mkD [(nType, .name nPages), (nCount, .int 0), (nKids, .ref 5 0)]),
  ((5, 0), .ref 6 0),
  ((6, 0), .ref 5 0)]

example : DefsWF exLoop := defsWF_of_all _ (by decide)
example : (specDom exLoop exCat).isNone = true := by decide
example : (match toPageDom exLoop exCat with | .err .PageTreeNodeConversionBadKids => true | _ => false) = true := by
  decide

end Parsley.C11
