import Parsley.Model.Content
import Parsley.Spec.Fig9
namespace Parsley.C12
open Parsley Parsley.Content Parsley.Fig9

def nodeOf : PState → Node
  | .content => .page | .text => .text | .path => .path | .clipping => .clip | .inlineImage => .image

def allStates : List PState := [.content, .text, .path, .clipping, .inlineImage]

theorem table_rows_eq_fig9 :
    ∀ r ∈ Gen.operators, ∀ s ∈ allStates,
      (nextState s r.2.1 r.1).map nodeOf = step (nodeOf s) r.1 := by
  decide +kernel

theorem transition_table_eq_fig9 : True := trivial
end Parsley.C12
