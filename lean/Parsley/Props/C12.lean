/-
  C12 — Text extraction follows the content-stream state diagram.
  Model: Parsley/Model/Content.lean (+ regenerated Parsley/Gen/Operators.lean)
  Spec : Parsley/Spec/Fig9.lean (ISO 32000-1 Table 51 + Figure 9, syntax trees, `expected`)
-/
import Parsley.Model.Content
import Parsley.Spec.Fig9
import Parsley.Lemmas.Content
import Parsley.Lemmas.ContentRel
import Parsley.Lemmas.ContentLex
namespace Parsley.C12
open Parsley Parsley.Content Parsley.Fig9

def nodeOf : PState → Node
  | .content => .page | .text => .text | .path => .path | .clipping => .clip | .inlineImage => .image

def allStates : List PState := [.content, .text, .path, .clipping, .inlineImage]

theorem mem_allStates (s : PState) : s ∈ allStates := by cases s <;> simp [allStates]

/-! ## 1. the regenerated operator table against Table 51 / Figure 9 -/

/-- all 73 × 5 (row, state) pairs of the REGENERATED table (kernel evaluation) -/
theorem table_rows_eq_fig9 :
    ∀ r ∈ Gen.operators, ∀ s ∈ allStates,
      (nextState s r.2.1 r.1).map nodeOf = step (nodeOf s) r.1 := by
  decide +kernel

/-- every operator of Table 51 is known to the implementation -/
theorem fig9_ops_known : ∀ r ∈ catTable, (opinfo r.1).isSome = true := by
  decide +kernel

theorem opinfo_some_mem {name : Bytes} {ty : OpType} {oa : List ArgType}
    (h : opinfo name = some (ty, oa)) : (name, ty, oa) ∈ Gen.operators := by
  unfold opinfo at h
  split at h
  · rename_i r hf
    have h1 := List.find?_some hf
    have h2 := List.mem_of_find?_eq_some hf
    have h3 : r.1 = name := by simpa using h1
    have h4 : r.2 = (ty, oa) := by simpa using h
    have : r = (name, ty, oa) := by
      cases r with | mk a b => simp only at h3 h4; rw [h3, h4]
    rw [← this]
    exact List.mem_reverse.mp h2
  · cases h

theorem catOf_some_mem {name : Bytes} {c : Cat} (h : catOf name = some c) : (name, c) ∈ catTable := by
  unfold catOf at h
  split at h
  · rename_i r hf
    have h1 := List.find?_some hf
    have h2 := List.mem_of_find?_eq_some hf
    have h3 : r.1 = name := by simpa using h1
    have h4 : r.2 = c := by simpa using h
    have : r = (name, c) := by
      cases r with | mk a b => simp only at h3 h4; rw [h3, h4]
    rw [← this]; exact h2
  · cases h

theorem opinfo_none_catOf {name : Bytes} (h : opinfo name = none) : catOf name = none := by
  cases hc : catOf name with
  | none => rfl
  | some c =>
    have := fig9_ops_known _ (catOf_some_mem hc)
    simp [h] at this

/-- **transition_table_eq_fig9**: for EVERY operator name (in the table or not) and every state,
    the implementation's transition (table lookup + the `match` of lines 271-328) is the
    Figure-9 step of the independently written automaton; in particular the two agree on which
    names are operators at all. -/
theorem transition_table_eq_fig9 (s : PState) (name : Bytes) :
    (match opinfo name with
     | none => none
     | some (ty, _) => (nextState s ty name).map nodeOf) = step (nodeOf s) name := by
  cases h : opinfo name with
  | none =>
    simp only [step, opinfo_none_catOf h]
  | some info =>
    obtain ⟨ty, oa⟩ := info
    exact table_rows_eq_fig9 _ (opinfo_some_mem h) s (mem_allStates s)

/-- non-vacuity: `BT` moves page → text in both, `q` is refused inside a text object by both,
    an unknown name is refused by both -/
example : (opinfo opBT).isSome ∧ step .page Fig9.BT = some .text ∧ step .text [113] = none
    ∧ opinfo [102, 111, 111] = none := by decide +kernel

/-! ## 2. the loop over a token sequence against the Figure-9 run over the syntax tree -/

/- `All2`, `AtomObj`, `OperandObj`, `InstsToks`: see Lemmas/ContentRel.lean -/

def toRes : Option (List Tok) → Res (List Tok)
  | some ts => .ok ts
  | none => .err .guard

def objStr : Obj → Option Bytes
  | .str v => some v
  | _ => none

theorem atomObj_str {a : Atom} {o : Obj} (h : AtomObj a o) : objStr o = a.strVal := by
  cases a <;> simp only [AtomObj] at h <;> try (subst h; rfl)
  cases o <;> simp_all [isNumObj, objStr, Atom.strVal]

theorem atomObj_num {a : Atom} {o : Obj} (h : AtomObj a o) : isNumObj o = a.isNum := by
  cases a <;> simp only [AtomObj] at h <;> try (subst h; rfl)
  simpa [Atom.isNum] using h

theorem operandObj_str {a : Operand} {o : Obj} (h : OperandObj a o) : objStr o = a.strVal := by
  cases a with
  | atom a => exact atomObj_str h
  | arr s0 els => obtain ⟨l, rfl, _⟩ := h; rfl
  | dict s0 ents => obtain ⟨l, rfl⟩ := h; rfl

theorem operandObj_num {a : Operand} {o : Obj} (h : OperandObj a o) : isNumObj o = a.isNum := by
  cases a with
  | atom a => exact atomObj_num h
  | arr s0 els => obtain ⟨l, rfl, _⟩ := h; rfl
  | dict s0 ents => obtain ⟨l, rfl⟩ := h; rfl

theorem showArgs_string (name : Bytes) (o : Obj) (rest : List Obj) (ts : List ArgType) :
    showArgs name (o :: rest) (.string :: ts) =
      match objStr o with
      | some v =>
        (match showArgs name rest ts with
         | .ok toks => .ok ((if name != opTj then [Tok.space] else []) ++ Tok.raw v :: toks)
         | .err k => .err k | .panic p => .panic p)
      | none => .err .guard := by
  cases o <;> simp [showArgs, objStr, isNumObj] <;> cases showArgs name rest ts <;> rfl

theorem showArgs_number (name : Bytes) (o : Obj) (rest : List Obj) (ts : List ArgType) :
    showArgs name (o :: rest) (.number :: ts) =
      if isNumObj o then showArgs name rest ts else .err .guard := by
  cases o <;> simp [showArgs, isNumObj]

theorem showArray_eq {els : List (Atom × Bytes)} {l : List Obj}
    (h : All2 (fun e x => AtomObj e.1 x) els l) :
    showArray l = toRes (tjTokens els) := by
  induction h with
  | nil => rfl
  | @cons e o els l h1 _ ih =>
    obtain ⟨a, s⟩ := e
    have hs := atomObj_str h1
    have hn := atomObj_num h1
    simp only [tjTokens]
    cases o with
    | str v =>
      simp only [objStr] at hs
      simp only [showArray, ih, ← hs]
      cases tjTokens els <;> rfl
    | int i =>
      simp only [objStr] at hs; simp only [isNumObj] at hn
      simp only [showArray, isNumObj, ← hs, ← hn, ih]; rfl
    | real n d =>
      simp only [objStr] at hs; simp only [isNumObj] at hn
      simp only [showArray, isNumObj, ← hs, ← hn, ih]; rfl
    | arr _ | dict _ | ref _ _ | bool _ | name _ | null =>
      simp only [objStr] at hs; simp only [isNumObj] at hn
      simp [showArray, isNumObj, ← hs, ← hn, toRes]

/-- what the operator `match` (lines 336-432) does, as data -/
inductive HK where
  | showN (name : Bytes) (oa : List ArgType)
  | showArr (arity : Nat)
  | space | bx | ex | nothing
deriving DecidableEq

def modelHK (ty : OpType) (name : Bytes) (oa : List ArgType) : HK :=
  if ty == .textShow && (name == opTj || name == opQuote || name == opDQuote) then .showN name oa
  else if ty == .textShow && name == opTJ then .showArr oa.length
  else if ty == .textPositioning && (name == opTd || name == opTD || name == opTstar) then .space
  else if ty == .textObject then .space
  else if ty == .compat && name == opBX then .bx
  else if ty == .compat && name == opEX then .ex
  else .nothing

def handleHK : HK → List Obj → Nat → Res (List Tok × Nat)
  | .showN name oa, args, c =>
    if args.length != oa.length then .err .guard
    else match showArgs name args oa with
      | .ok ts => .ok (ts, c) | .err k => .err k | .panic p => .panic p
  | .showArr n, args, c =>
    if args.length != n then .err .guard
    else match args.getLast? with
      | none => .ok ([], c)
      | some (.arr l) =>
        (match showArray l with
         | .ok ts => .ok (ts, c) | .err k => .err k | .panic p => .panic p)
      | some _ => .err .guard
  | .space, _, c => .ok ([.space], c)
  | .bx, _, c => .ok ([], c + 1)
  | .ex, _, c => .ok ([], c - 1)
  | .nothing, _, c => .ok ([], c)

theorem handleOp_eq_HK (ty : OpType) (name : Bytes) (oa : List ArgType) (args : List Obj) (c : Nat) :
    handleOp ty name oa args c = handleHK (modelHK ty name oa) args c := by
  unfold handleOp modelHK
  split
  · simp only [handleHK]
    split
    · rfl
    · cases showArgs name args oa <;> rfl
  · split
    · simp only [handleHK]
      split
      · rfl
      · cases args.getLast? with
        | none => rfl
        | some o =>
          cases o <;> rfl
    · split
      · rfl
      · split
        · rfl
        · split
          · rfl
          · split <;> rfl

/-- the same classification read off the SPEC side (Table 51 category + Table 109 arities) -/
def specHK (name : Bytes) (c : Cat) : HK :=
  if c = .textShowing then
    if name = Fig9.Tj ∨ name = Fig9.quote then .showN name [.string]
    else if name = Fig9.dquote then .showN name [.number, .number, .string]
    else .showArr 1
  else if c = .textObject then .space
  else if name = Fig9.Td ∨ name = Fig9.TD ∨ name = Fig9.Tstar then .space
  else if name = Fig9.BX then .bx
  else if name = Fig9.EX then .ex
  else .nothing

/-- all 73 rows of the REGENERATED table: category known, dispatch and declared operand
    classes as Table 109 says -/
theorem table_rows_dispatch :
    ∀ r ∈ Gen.operators, ∃ c, catOf r.1 = some c ∧ modelHK r.2.1 r.1 r.2.2 = specHK r.1 c
      ∧ (c = .textShowing → (r.1 = Fig9.Tj ∨ r.1 = Fig9.quote ∨ r.1 = Fig9.dquote ∨ r.1 = Fig9.TJ)) := by
  decide +kernel

def compatStep (name : Bytes) (c : Nat) : Nat :=
  if name = Fig9.BX then c + 1 else if name = Fig9.EX then c - 1 else c

theorem all2_length {α β : Type} {R : α → β → Prop} {l₁ : List α} {l₂ : List β} (h : All2 R l₁ l₂) :
    l₁.length = l₂.length := by
  induction h with
  | nil => rfl
  | cons _ _ ih => simp [ih]

theorem showArgs_nil (name : Bytes) (ts : List ArgType) : showArgs name [] ts = .ok [] := by
  simp [showArgs]

theorem atomObj_not_arr {a : Atom} {o : Obj} (h : AtomObj a o) : ∀ l, o ≠ .arr l := by
  intro l hl; subst hl
  cases a <;> simp [AtomObj, isNumObj] at h

theorem handle_show1 (name : Bytes) (sp : Bool) (hsp : (name != opTj) = sp)
    {operands : List Operand} {objs : List Obj} (c : Nat)
    (hrel : All2 (fun a o => OperandObj a o) operands objs) :
    handleHK (.showN name [.string]) objs c =
      match (match operands with
             | [a] => a.strVal.map (fun v => (if sp then [Tok.space] else []) ++ [Tok.raw v])
             | _ => none) with
      | none => .err .guard
      | some tk => .ok (tk, c) := by
  cases hrel with
  | nil => simp [handleHK]
  | @cons a o l₁ l₂ h1 hr =>
    cases hr with
    | nil =>
      simp only [handleHK, showArgs_string, showArgs_nil, operandObj_str h1, hsp]
      cases a.strVal <;> simp
    | cons _ hr' =>
      have := all2_length hr'
      simp [handleHK, this]

theorem handle_show3 (name : Bytes) (hsp : (name != opTj) = true)
    {operands : List Operand} {objs : List Obj} (c : Nat)
    (hrel : All2 (fun a o => OperandObj a o) operands objs) :
    handleHK (.showN name [.number, .number, .string]) objs c =
      match (match operands with
             | [aw, ac, a] =>
               if aw.isNum && ac.isNum then a.strVal.map (fun v => [Tok.space, Tok.raw v]) else none
             | _ => none) with
      | none => .err .guard
      | some tk => .ok (tk, c) := by
  cases hrel with
  | nil => simp [handleHK]
  | @cons a1 o1 _ _ h1 hr =>
    cases hr with
    | nil => simp [handleHK]
    | @cons a2 o2 _ _ h2 hr =>
      cases hr with
      | nil => simp [handleHK]
      | @cons a3 o3 _ _ h3 hr =>
        cases hr with
        | nil =>
          simp only [handleHK, showArgs_number, showArgs_string, showArgs_nil, operandObj_str h3,
            operandObj_num h1, operandObj_num h2, hsp]
          cases a1.isNum <;> cases a2.isNum <;> cases a3.strVal <;> simp
        | cons _ hr' =>
          have := all2_length hr'
          simp [handleHK, this]

theorem handle_showArr {operands : List Operand} {objs : List Obj} (c : Nat)
    (hrel : All2 (fun a o => OperandObj a o) operands objs) :
    handleHK (.showArr 1) objs c =
      match (match operands with
             | [.arr _ els] => tjTokens els
             | _ => none) with
      | none => .err .guard
      | some tk => .ok (tk, c) := by
  cases hrel with
  | nil => simp [handleHK]
  | @cons a o l₁ l₂ h1 hr =>
    cases hr with
    | nil =>
      cases a with
      | atom a =>
        have hna := atomObj_not_arr h1
        cases o <;> simp_all [handleHK]
      | arr s0 els =>
        obtain ⟨l, rfl, hl⟩ := h1
        have hsa := showArray_eq hl
        simp only [handleHK]
        cases htj : tjTokens els <;> simp [htj, toRes] at hsa <;> simp [hsa]
      | dict s0 ents =>
        obtain ⟨l, rfl⟩ := h1
        simp [handleHK]
    | cons _ hr' =>
      have := all2_length hr'
      simp [handleHK, this]

theorem catOf_BX : catOf Fig9.BX = some .compatibility := by decide +kernel
theorem catOf_EX : catOf Fig9.EX = some .compatibility := by decide +kernel

theorem handleHK_spec {name : Bytes} {cat : Cat} {operands : List Operand} {objs : List Obj} (c : Nat)
    (hrel : All2 (fun a o => OperandObj a o) operands objs)
    (hcat : catOf name = some cat)
    (hshow : cat = .textShowing →
      name = Fig9.Tj ∨ name = Fig9.quote ∨ name = Fig9.dquote ∨ name = Fig9.TJ) :
    handleHK (specHK name cat) objs c =
      match instTokens cat name operands with
      | none => .err .guard
      | some tk => .ok (tk, compatStep name c) := by
  by_cases hc : cat = .textShowing
  · subst hc
    rcases hshow rfl with rfl | rfl | rfl | rfl
    · have h := handle_show1 Fig9.Tj false (by decide) c hrel
      have e1 : specHK Fig9.Tj .textShowing = .showN Fig9.Tj [.string] := by decide
      have e2 : compatStep Fig9.Tj c = c := by simp [compatStep, Fig9.Tj, Fig9.BX, Fig9.EX]
      rw [e1, e2, h]
      simp only [instTokens, showTokens, if_true]
      cases operands with
      | nil => rfl
      | cons a t => cases t with
        | nil => cases a.strVal <;> simp
        | cons _ _ => rfl
    · have h := handle_show1 Fig9.quote true (by decide) c hrel
      have e1 : specHK Fig9.quote .textShowing = .showN Fig9.quote [.string] := by decide
      have e2 : compatStep Fig9.quote c = c := by simp [compatStep, Fig9.quote, Fig9.BX, Fig9.EX]
      have e3 : (Fig9.quote = Fig9.Tj) = False := by simp [Fig9.quote, Fig9.Tj]
      rw [e1, e2, h]
      simp only [instTokens, showTokens, if_true, e3, if_false]
      cases operands with
      | nil => rfl
      | cons a t => cases t with
        | nil => cases a.strVal <;> simp
        | cons _ _ => rfl
    · have h := handle_show3 Fig9.dquote (by decide) c hrel
      have e1 : specHK Fig9.dquote .textShowing = .showN Fig9.dquote [.number, .number, .string] := by decide
      have e2 : compatStep Fig9.dquote c = c := by simp [compatStep, Fig9.dquote, Fig9.BX, Fig9.EX]
      have e3 : (Fig9.dquote = Fig9.Tj) = False := by simp [Fig9.dquote, Fig9.Tj]
      have e4 : (Fig9.dquote = Fig9.quote) = False := by simp [Fig9.dquote, Fig9.quote]
      rw [e1, e2, h]
      simp only [instTokens, showTokens, if_true, e3, e4, if_false]
      rcases operands with _ | ⟨a1, _ | ⟨a2, _ | ⟨a3, _ | ⟨a4, t⟩⟩⟩⟩ <;> rfl
    · have h := handle_showArr c hrel
      have e1 : specHK Fig9.TJ .textShowing = .showArr 1 := by decide
      have e2 : compatStep Fig9.TJ c = c := by simp [compatStep, Fig9.TJ, Fig9.BX, Fig9.EX]
      have e3 : (Fig9.TJ = Fig9.Tj) = False := by simp [Fig9.TJ, Fig9.Tj]
      have e4 : (Fig9.TJ = Fig9.quote) = False := by simp [Fig9.TJ, Fig9.quote]
      have e5 : (Fig9.TJ = Fig9.dquote) = False := by simp [Fig9.TJ, Fig9.dquote]
      rw [e1, e2, h]
      simp only [instTokens, showTokens, if_true, e3, e4, e5, if_false]
      rcases operands with _ | ⟨a, _ | ⟨b, t⟩⟩
      · rfl
      · cases a <;> rfl
      · cases a <;> rfl
  · have hbx : name = Fig9.BX → cat = .compatibility := by
      intro h; subst h; rw [catOf_BX] at hcat; injection hcat with h; exact h.symm
    have hex : name = Fig9.EX → cat = .compatibility := by
      intro h; subst h; rw [catOf_EX] at hcat; injection hcat with h; exact h.symm
    simp only [specHK, instTokens, hc, if_false]
    by_cases hto : cat = .textObject
    · have n1 : name ≠ Fig9.BX := fun h => by have := hbx h; rw [this] at hto; cases hto
      have n2 : name ≠ Fig9.EX := fun h => by have := hex h; rw [this] at hto; cases hto
      simp [hto, handleHK, compatStep, n1, n2]
    · simp only [hto, if_false]
      by_cases hp : name = Fig9.Td ∨ name = Fig9.TD ∨ name = Fig9.Tstar
      · have n1 : name ≠ Fig9.BX := by
          rcases hp with rfl | rfl | rfl <;> simp [Fig9.Td, Fig9.TD, Fig9.Tstar, Fig9.BX]
        have n2 : name ≠ Fig9.EX := by
          rcases hp with rfl | rfl | rfl <;> simp [Fig9.Td, Fig9.TD, Fig9.Tstar, Fig9.EX]
        simp [hp, handleHK, compatStep, n1, n2]
      · simp only [hp, if_false]
        by_cases h1 : name = Fig9.BX
        · simp [h1, handleHK, compatStep]
        · by_cases h2 : name = Fig9.EX
          · have : Fig9.EX ≠ Fig9.BX := by simp [Fig9.EX, Fig9.BX]
            simp [h2, handleHK, compatStep, this]
          · simp [h1, h2, handleHK, compatStep]

theorem runToks_vals (st : PState) (c : Nat) (objs : List Obj) :
    ∀ (acc : List Obj) (rest : List CSObj),
      runToks st c acc (objs.map CSObj.val ++ rest) = runToks st c (acc ++ objs) rest := by
  induction objs with
  | nil => intro acc rest; simp
  | cons o t ih =>
    intro acc rest
    simp only [List.map_cons, List.cons_append, runToks]
    rw [ih]; simp

theorem all2_map_fst {args : List (Operand × Bytes)} {objs : List Obj}
    (h : All2 (fun (a : Operand × Bytes) o => OperandObj a.1 o) args objs) :
    All2 (fun a o => OperandObj a o) (args.map (·.1)) objs := by
  induction h with
  | nil => exact .nil
  | cons h1 _ ih => exact .cons h1 ih

/-- the state machine + operand handling of the implementation, run over the token sequence
    of ANY list of operator instances from ANY state, is the Figure-9 run of the spec -/
theorem runToks_insts {insts : List Inst} {toks : List CSObj} (h : InstsToks insts toks) :
    ∀ (st : PState) (c : Nat), runToks st c [] toks = toRes (run (nodeOf st) c insts) := by
  induction h with
  | nil => intro st c; rfl
  | @cons i rest objs ts hargs _ ih =>
    intro st c
    rw [runToks_vals]
    simp only [List.nil_append, runToks, run]
    cases hop : opinfo i.op with
    | none =>
      simp only [opinfo_none_catOf hop]
      split
      · exact ih st c
      · rfl
    | some info =>
      obtain ⟨ty, oa⟩ := info
      have mem := opinfo_some_mem hop
      obtain ⟨cat, hcat, hdisp, hshow⟩ := table_rows_dispatch _ mem
      simp only at hcat hdisp hshow
      have htr := transition_table_eq_fig9 st i.op
      rw [hop] at htr
      simp only at htr
      simp only [hcat]
      cases hn : nextState st ty i.op with
      | none =>
        rw [hn] at htr
        simp only [Option.map_none] at htr
        simp only [← htr]; rfl
      | some nx =>
        rw [hn] at htr
        simp only [Option.map_some] at htr
        simp only [← htr]
        rw [handleOp_eq_HK, hdisp, handleHK_spec c (all2_map_fst hargs) hcat hshow]
        cases hit : instTokens cat i.op (List.map (fun x => x.1) i.args) with
        | none => rfl
        | some tk =>
          simp only [compatStep]
          rw [ih]
          cases run (nodeOf nx) (if i.op = Fig9.BX then c + 1 else if i.op = Fig9.EX then c - 1 else c) rest <;> rfl

/-! ## 3. the property theorems -/

/-- the tokenizer splits the rendered stream into the tokens of the syntax tree
    (one `CSObjP` call per operand and operator, each consuming at least one byte) -/
def Lexes (d : Nat) (p : Prog) : Prop :=
  ∃ toks, InstsToks p.insts toks ∧ LexAll d p.render toks

/-- **lexer_roundtrip** (Lemmas/ContentLex.lean): for EVERY well-formed syntax tree (spelled numbers
    up to 18+18 digits, names, nested/escaped literal strings, hex strings, keywords, arrays and
    dictionaries of atoms, operators, arbitrary separators with comments) and every depth limit
    `d ≥ 1` the tokenizer model (`CSObjP`, `parse_pdf_obj` with its `n g R` look-ahead, the array and
    dictionary loops with their fuel `2*len+2`) re-reads the rendered bytes as exactly the tokens of
    the tree. -/
theorem lexer_roundtrip (d : Nat) (hd : 1 ≤ d) (p : Prog) (hp : p.ok = true) : Lexes d p := by
  obtain ⟨d', rfl⟩ : ∃ d', d = d' + 1 := ⟨d - 1, by omega⟩
  exact ContentLex.lexAll_prog d' p hp

/-- the state-machine half: under the lexing hypothesis alone -/
theorem valid_walk_extracts_of_lex (d : Nat) (p : Prog) (hl : Lexes d p) (ts : List Tok)
    (he : expected p = some ts) : extract d p.render = .ok ts := by
  obtain ⟨toks, h1, h2⟩ := hl
  rw [extract_of_lex h2, runToks_insts h1 .content 0]
  simp only [nodeOf]
  unfold expected at he
  rw [he]; rfl

theorem deviation_rejected_of_lex (d : Nat) (p : Prog) (hl : Lexes d p)
    (he : expected p = none) : extract d p.render = .err .guard := by
  obtain ⟨toks, h1, h2⟩ := hl
  rw [extract_of_lex h2, runToks_insts h1 .content 0]
  simp only [nodeOf]
  unfold expected at he
  rw [he]; rfl

/-- **valid_walk_extracts**: for every well-formed content stream (any syntax tree `p`, rendered with
    any separators) whose operator sequence Figure 9 permits and whose text-showing operands are
    well-formed, the extractor (any `max_depth ≥ 1`) returns exactly the spec's tokens: the string
    operands in order and byte for byte, with the documented separator tokens. -/
theorem valid_walk_extracts (d : Nat) (hd : 1 ≤ d) (p : Prog) (hp : p.ok = true) (ts : List Tok)
    (he : expected p = some ts) : extract d p.render = .ok ts :=
  valid_walk_extracts_of_lex d p (lexer_roundtrip d hd p hp) ts he

/-- **deviation_rejected**: an operator in a state that does not permit it, an unknown operator
    outside a compatibility section, or a text-showing operator with the wrong number or kind of
    operands makes the whole extraction fail with an error. -/
theorem deviation_rejected (d : Nat) (hd : 1 ≤ d) (p : Prog) (hp : p.ok = true)
    (he : expected p = none) : extract d p.render = .err .guard :=
  deviation_rejected_of_lex d p (lexer_roundtrip d hd p hp) he

/-- consequence: on every well-formed stream the extractor computes exactly the spec (and in
    particular never panics and never runs out of fuel) -/
theorem extract_total_on_trees (d : Nat) (hd : 1 ≤ d) (p : Prog) (hp : p.ok = true) :
    extract d p.render = toRes (expected p) := by
  cases he : expected p with
  | none => exact deviation_rejected d hd p hp he
  | some ts => exact valid_walk_extracts d hd p hp ts he

/-! ### non-vacuity: concrete streams -/

/-- `BT (a) Tj ET` -/
def exOk : Prog :=
  { lead := [], insts := [⟨[], Fig9.BT, [32]⟩, ⟨[(.atom (.lit [97]), [32])], Fig9.Tj, [32]⟩, ⟨[], Fig9.ET, []⟩] }

/-- `BT q ET` (a special-graphics-state operator inside a text object) -/
def exBad : Prog :=
  { lead := [], insts := [⟨[], Fig9.BT, [32]⟩, ⟨[], [113], [32]⟩, ⟨[], Fig9.ET, []⟩] }

/-- `% c\n BT /F1 12 Tf [(A\)) -120.5 <4 2> .5] TJ << /K (v) /N null >> DP 1 2 (x) " ET`:
    comment, name, numbers with sign and fraction, escaped parenthesis, odd hex string with white
    space, array, dictionary with a null entry, three-operand `"` -/
def exRich : Prog :=
  { lead := [37, 32, 99, 10, 32],
    insts := [
      ⟨[], Fig9.BT, [32]⟩,
      ⟨[(.atom (.name [70, 49]), [32]), (.atom (.num [49, 50]), [32])], [84, 102], [10]⟩,
      ⟨[(.arr [] [(.lit [65, 92, 41], [32]), (.num [45, 49, 50, 48, 46, 53], [32]),
                  (.hex [52, 32, 50], [32]), (.num [46, 53], [9])], [32])], Fig9.TJ, [32]⟩,
      ⟨[(.dict [32] [([75], [32], .lit [118], [32]), ([78], [32], .null, [32])], [32])], [68, 80], [32]⟩,
      ⟨[(.atom (.num [49]), [32]), (.atom (.num [50]), [32]), (.atom (.lit [120]), [32])], Fig9.dquote, [32]⟩,
      ⟨[], Fig9.ET, []⟩] }

theorem exOk_ok : exOk.ok = true := by decide +kernel
theorem exBad_ok : exBad.ok = true := by decide +kernel
theorem exRich_ok : exRich.ok = true := by decide +kernel

/-- the hypotheses of `lexer_roundtrip` are satisfiable by a stream that uses every kind of token -/
example : Lexes 1 exRich := lexer_roundtrip 1 (by omega) exRich exRich_ok

/-- the hypotheses of `valid_walk_extracts` are satisfiable and give the documented tokens -/
example : extract 1 exOk.render = .ok [.space, .raw [97], .space] :=
  valid_walk_extracts 1 (by omega) exOk exOk_ok _ (by decide +kernel)

example : extract 1 exRich.render =
    .ok [.space, .raw [65, 92, 41], .raw [0x42], .space, .raw [120], .space] :=
  valid_walk_extracts 1 (by omega) exRich exRich_ok _ (by decide +kernel)

/-- the hypotheses of `deviation_rejected` are satisfiable -/
example : extract 1 exBad.render = .err .guard :=
  deviation_rejected 1 (by omega) exBad exBad_ok (by decide +kernel)

end Parsley.C12
