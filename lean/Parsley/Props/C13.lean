/-
  C13 - Cross-reference tables and streams decode to the entries written.

  Property theorems over the model `Parsley/Model/Xref.lean` and the spec `Parsley/Spec/Xref.lean`
  (helper lemmas: `Parsley/Lemmas/Xref.lean`).  All are for ALL inputs, no size bounds.

  classic table   entry_spec, entry_malformed_rejected      XrefEntP accepts iff the 20-byte form
                  table_roundtrip                          any partition x 3 terminators -> exactly the entries
                  table_malformed_rejected                 (= ..._first_/..._later_subsection_rejected) after fix C13-01
                  old_loop_truncates_witness / fixed_loop_rejects_witness      defect #32 on the shipped loop
                  table_never_panics, wsEolLoop_fuel_sufficient, sectLoop_fuel_sufficient
  xref stream     xrefstream_rows_roundtrip                all widths {0..4}^3, /Index or [0 Size]
                  xrefstream_spec                          decoder = declarative slicing, on every input
                  dictinfo_rejects / dictinfo_accepts / dictinfo_never_panics   get_dict_info <=> well-formed
                  rows_terminate, rows_hostile_count_rejected, parseStream_never_panics
  both            numbering_consecutive                    obj = start + k on every accepted input
  Non-vacuity examples are at the end of the file.
-/
import Parsley.Lemmas.Xref
namespace Parsley.C13
open Parsley Parsley.Xref Parsley.XrefSpec

/-! ## cross-reference streams -/

/-- C13 (stream half): for every width triple in {0..4}³, every list of `/Index` subsections (or the
    implicit single one from 0 to `/Size`) and every list of rows fitting the widths, the row decoder
    returns exactly those entries numbered consecutively from each subsection's start, and stops right
    after the last row. -/
theorem xrefstream_rows_roundtrip (m : DictInfo) (subs : List (Nat × List SEnt))
    (s : Bytes) (c : Nat) (rest : Bytes)
    (h0 : m.w0 ≤ 4) (h1 : m.w1 ≤ 4) (h2 : m.w2 ≤ 4)
    (hidx : m.index = some (indexOf subs) ∨ (m.index = none ∧ ∃ es, subs = [(0, es)] ∧ m.size = es.length))
    (hs : s.drop c = (subs.flatMap fun p => encRows m.w0 m.w1 m.w2 p.2) ++ rest)
    (hf : ∀ p ∈ subs, ∀ e ∈ p.2, e.fits m.w0 m.w1 m.w2)
    (hlim : ∀ p ∈ subs, p.1 + p.2.length ≤ usizeLim) :
    ∃ l, parseStream m s c = (.ok l, c + totalRows subs * (m.w0 + m.w1 + m.w2))
      ∧ l.map (·.val) = streamEnts subs := by
  have hi : (match m.index with | some l => l | none => [(0, m.size)]) = indexOf subs := by
    rcases hidx with h | ⟨h, es, rfl, hsz⟩
    · rw [h]
    · rw [h]; simp [indexOf, hsz]
  show ∃ l, indexLoop m.w0 m.w1 m.w2 (match m.index with | some l => l | none => [(0, m.size)]) s c = _ ∧ _
  rw [hi]
  exact index_roundtrip m.w0 m.w1 m.w2 h0 h1 h2 subs s c rest hs hf hlim

/-- C13 numbering (stream): whatever the input, the entries a subsection yields are numbered
    consecutively from its start, and there are exactly `count` of them. -/
theorem rows_numbering (w0 w1 w2 : Nat) : ∀ (n obj : Nat) (s : Bytes) (c : Nat) (l : List (Located Ent)) (c' : Nat),
    rowsLoop w0 w1 w2 n obj s c = (.ok l, c') →
    l.length = n ∧ ∀ k (h : k < l.length), (l[k]).val.obj = obj + k := by
  intro n
  induction n with
  | zero => intro obj s c l c' h; simp [rowsLoop] at h; obtain ⟨rfl, _⟩ := h; simp
  | succ n ih =>
    intro obj s c l c' h
    simp only [rowsLoop] at h
    split at h
    · simp at h
    · cases hr : rowP w0 w1 w2 obj s c with
      | mk r c1 =>
        cases r with
        | ok e =>
          simp only [hr] at h
          cases hl : rowsLoop w0 w1 w2 n (obj + 1) s c1 with
          | mk r2 c2 =>
            cases r2 with
            | ok es =>
              simp only [hl] at h
              simp only [Prod.mk.injEq, Res.ok.injEq] at h
              obtain ⟨rfl, _⟩ := h
              have ⟨hlen, hnum⟩ := ih (obj + 1) s c1 es c2 hl
              have ho := (rowP_ok w0 w1 w2 obj s c e c1 hr).1
              refine ⟨by simp [hlen], fun k hk => ?_⟩
              cases k with
              | zero => simpa using ho
              | succ k =>
                simp only [List.getElem_cons_succ]
                rw [hnum k (by simpa using hk)]; omega
            | err k => simp [hl] at h
            | panic p => simp [hl] at h
        | err k => simp [hr] at h
        | panic p => simp [hr] at h

/-- C13 `rows_terminate`: with a non-zero second width every decoded row consumes at least one
    byte and stays inside the buffer; so a successful run over `n` rows needs `n ≤ remaining`
    bytes – a hostile `/Size` or `/Index` count cannot make the loop run past the data: it fails
    at the first missing row. -/
theorem rows_terminate (w0 w1 w2 : Nat) (hw1 : 0 < w1) : ∀ (n obj : Nat) (s : Bytes) (c : Nat)
    (l : List (Located Ent)) (c' : Nat),
    rowsLoop w0 w1 w2 n obj s c = (.ok l, c') → c + n ≤ c' ∧ (0 < n → c' ≤ s.length) := by
  intro n
  induction n with
  | zero => intro obj s c l c' h; simp [rowsLoop] at h; omega
  | succ n ih =>
    intro obj s c l c' h
    simp only [rowsLoop] at h
    split at h
    · simp at h
    · cases hr : rowP w0 w1 w2 obj s c with
      | mk r c1 =>
        cases r with
        | ok e =>
          simp only [hr] at h
          cases hl : rowsLoop w0 w1 w2 n (obj + 1) s c1 with
          | mk r2 c2 =>
            cases r2 with
            | ok es =>
              simp only [hl] at h
              simp only [Prod.mk.injEq, Res.ok.injEq] at h
              obtain ⟨_, rfl⟩ := h
              have ⟨_, hc1, hin⟩ := rowP_ok w0 w1 w2 obj s c e c1 hr
              have ⟨h1, h2⟩ := ih (obj + 1) s c1 es c2 hl
              refine ⟨by omega, fun _ => ?_⟩
              by_cases hn : 0 < n
              · exact h2 hn
              · have : n = 0 := by omega
                subst this
                simp [rowsLoop] at hl
                have := hin hw1; omega
            | err k => simp [hl] at h
            | panic p => simp [hl] at h
        | err k => simp [hr] at h
        | panic p => simp [hr] at h

theorem rows_hostile_count_rejected (w0 w1 w2 : Nat) (hw1 : 0 < w1) (n obj : Nat) (s : Bytes) (c : Nat)
    (hc : c ≤ s.length) (hn : s.length - c < n) (l : List (Located Ent)) (c' : Nat) :
    rowsLoop w0 w1 w2 n obj s c ≠ (.ok l, c') := by
  intro h
  have ⟨h1, h2⟩ := rows_terminate w0 w1 w2 hw1 n obj s c l c' h
  have := h2 (by omega)
  omega

/-! ## the stream dictionary -/

/-- what the decoded dictionary information means: the subsections and the widths -/
def infoMeaning (m : DictInfo) : List (Nat × Nat) × Nat × Nat × Nat :=
  (match m.index with | some l => l | none => [(0, m.size)], m.w0, m.w1, m.w2)

theorem dictinfo_char (d : Dict) :
    (getDictInfo d = .err .guard ∧ (dictMeaning d = none ∨ streamFilters d = none)) ∨
    (∃ m, getDictInfo d = .ok m ∧ dictMeaning d = some (infoMeaning m) ∧ streamFilters d = some m.filters) := by
  rw [getDictInfo_eq]
  unfold dictMeaning
  cases nameVal (lookup d sType) with
  | none => left; exact ⟨rfl, Or.inl rfl⟩
  | some t =>
    by_cases ht : t = sXRef
    · simp only [ht, if_true]
      cases natVal (lookup d sSize) with
      | none => left; exact ⟨rfl, Or.inl rfl⟩
      | some size =>
        have hI := modelIndex_eq size (arrVal (lookup d sIndex))
        cases hmi : modelIndex (arrVal (lookup d sIndex)) with
        | none =>
          rw [hmi] at hI
          left; refine ⟨rfl, Or.inl ?_⟩
          simp only [Option.map_none] at hI
          cases arrVal (lookup d sW) with
          | none => rfl
          | some w => simp only [← hI]; cases widthsMeaning w <;> rfl
        | some index =>
          rw [hmi] at hI
          simp only [Option.map_some] at hI
          simp only [modelTail]
          cases arrVal (lookup d sW) with
          | none => left; exact ⟨rfl, Or.inl rfl⟩
          | some w =>
            simp only [modelWidths_eq w]
            cases widthsMeaning w with
            | none => left; exact ⟨rfl, Or.inl rfl⟩
            | some ws =>
              obtain ⟨w0, w1, w2⟩ := ws
              simp only [← hI]
              cases hf : streamFilters d with
              | none => left; exact ⟨rfl, Or.inr rfl⟩
              | some fs => right; exact ⟨_, rfl, rfl, rfl⟩
    · left
      simp only [ht, if_false]
      refine ⟨trivial, Or.inl ?_⟩
      cases natVal (lookup d sSize) <;> cases arrVal (lookup d sW) <;> simp [ht]

/-- C13 `dictinfo_rejects`: a dictionary that is malformed in any of the listed ways (no or wrong
    `/Type`, no valid `/Size`, odd-length or non-integer or negative `/Index`, no `/W`, `/W` not of
    length 3, a width that is not an integer in 0..4, a zero second width - i.e. `dictMeaning = none`)
    or whose filter description is inconsistent is rejected with a GuardError … -/
theorem dictinfo_rejects (d : Dict) (h : dictMeaning d = none ∨ streamFilters d = none) :
    getDictInfo d = .err .guard := by
  rcases dictinfo_char d with ⟨h1, _⟩ | ⟨m, _, h2, h3⟩
  · exact h1
  · rcases h with h | h
    · rw [h] at h2; cases h2
    · rw [h] at h3; cases h3

/-- … and conversely every other dictionary is accepted with exactly the subsections and widths
    it denotes (so rejection ⇔ malformed). -/
theorem dictinfo_accepts (d : Dict) (x : List (Nat × Nat) × Nat × Nat × Nat) (fs : List Filter)
    (h1 : dictMeaning d = some x) (h2 : streamFilters d = some fs) :
    ∃ m, getDictInfo d = .ok m ∧ infoMeaning m = x ∧ m.filters = fs := by
  rcases dictinfo_char d with ⟨_, h | h⟩ | ⟨m, hm, h3, h4⟩
  · rw [h] at h1; cases h1
  · rw [h] at h2; cases h2
  · refine ⟨m, hm, ?_, ?_⟩
    · rw [h3] at h1; exact (Option.some.inj h1)
    · rw [h4] at h2; exact (Option.some.inj h2)

theorem dictinfo_never_panics (d : Dict) (p : String) : getDictInfo d ≠ .panic p := by
  rcases dictinfo_char d with ⟨h1, _⟩ | ⟨m, h1, _⟩ <;> rw [h1] <;> simp

/-! ## the classic table -/

/-- C13 `entry_malformed_rejected`, as an equivalence.  `XrefEntP` accepts exactly when the 20 bytes
    under the cursor are in the fixed form (10 digits, SP, 5 digits with value ≤ 65535, SP, `f`|`n`,
    one of the three terminators); then the entry, its span `[i, i+20)` and the cursor `i+20` are as
    specified.  Anything else - too short, a non-digit, a wrong separator, generation above 65535,
    another type letter, another terminator - is rejected; it never panics. -/
theorem entry_spec (idx : Nat) (s : Bytes) (i : Nat) :
    match entryAt s i with
    | some x => xrefEntP idx s i = (.ok ⟨mkEnt idx x, i, i + 20⟩, i + 20)
    | none => ∃ k c, xrefEntP idx s i = (.err k, c) := by
  by_cases h : i + 20 ≤ s.length
  · have ⟨h1, h2⟩ := ent_long idx s i h
    cases hx : entryAt s i with
    | some x => exact h1 x hx
    | none => obtain ⟨c, hc⟩ := h2 hx; exact ⟨_, c, hc⟩
  · rw [entryAt_short s i h]
    cases hr : xrefEntP idx s i with
    | mk r c =>
      cases r with
      | ok e => exact absurd (ent_ok_len idx s i e c hr) h
      | err k => exact ⟨k, c, rfl⟩
      | panic p => exact absurd hr (ent_no_panic idx s i p c)

theorem entry_malformed_rejected (idx : Nat) (s : Bytes) (i : Nat) (h : entryAt s i = none) :
    ∃ k c, xrefEntP idx s i = (.err k, c) := by
  have := entry_spec idx s i
  rw [h] at this; exact this

theorem entry_ok_inv (idx : Nat) (s : Bytes) (i : Nat) (e : Located Ent) (c : Nat)
    (h : xrefEntP idx s i = (.ok e, c)) :
    ∃ x, entryAt s i = some x ∧ e = ⟨mkEnt idx x, i, i + 20⟩ ∧ c = i + 20 := by
  have := entry_spec idx s i
  cases hx : entryAt s i with
  | some x =>
    rw [hx] at this; simp only at this
    rw [this] at h
    simp only [Prod.mk.injEq, Res.ok.injEq] at h
    exact ⟨x, rfl, h.1.symm, h.2.symm⟩
  | none =>
    rw [hx] at this
    obtain ⟨k, c', hk⟩ := this
    rw [hk] at h; simp at h

/-- numbering and count of a subsection's entries, whatever the input -/
theorem ents_numbering : ∀ (n obj : Nat) (s : Bytes) (c : Nat) (l : List (Located Ent)) (c' : Nat),
    entsLoop n obj s c = (.ok l, c') →
    l.length = n ∧ c' = c + 20 * n ∧ ∀ k (h : k < l.length), (l[k]).val.obj = obj + k := by
  intro n
  induction n with
  | zero => intro obj s c l c' h; simp [entsLoop] at h; obtain ⟨rfl, rfl⟩ := h; simp
  | succ n ih =>
    intro obj s c l c' h
    simp only [entsLoop] at h
    split at h
    · simp at h
    · cases hr : xrefEntP obj s c with
      | mk r c1 =>
        cases r with
        | ok e =>
          simp only [hr] at h
          cases hl : entsLoop n (obj + 1) s c1 with
          | mk r2 c2 =>
            cases r2 with
            | ok es =>
              simp only [hl] at h
              simp only [Prod.mk.injEq, Res.ok.injEq] at h
              obtain ⟨rfl, rfl⟩ := h
              have ⟨hlen, hcur, hnum⟩ := ih (obj + 1) s c1 es c2 hl
              obtain ⟨x, _, he, hc1⟩ := entry_ok_inv obj s c e c1 hr
              refine ⟨by simp [hlen], by omega, fun k hk => ?_⟩
              cases k with
              | zero => simp [he, mkEnt]
              | succ k =>
                simp only [List.getElem_cons_succ]
                rw [hnum k (by simpa using hk)]; omega
            | err k => simp [hl] at h
            | panic p => simp [hl] at h
        | err k => simp [hr] at h
        | panic p => simp [hr] at h


theorem entryAt_enc (e : TEnt) (hwf : e.wf) (s : Bytes) (c : Nat) (r : Bytes)
    (hs : s.drop c = encEntry e ++ r) : entryAt s c = some (e.info, e.gen, e.inuse) := by
  unfold entryAt
  rw [hs, List.take_left' (encEntry_length e)]
  exact entryForm_enc e hwf

theorem ents_roundtrip : ∀ (es : List TEnt) (obj : Nat) (s : Bytes) (c : Nat) (rest : Bytes),
    s.drop c = es.flatMap encEntry ++ rest → (∀ e ∈ es, e.wf) → obj + es.length ≤ usizeLim →
    ∃ l, entsLoop es.length obj s c = (.ok l, c + 20 * es.length) ∧ l.map (·.val) = number obj es := by
  intro es
  induction es with
  | nil => intro obj s c rest _ _ _; exact ⟨[], by simp [entsLoop], rfl⟩
  | cons e t ih =>
    intro obj s c rest hs hwf hlim
    simp only [List.flatMap_cons, List.append_assoc] at hs
    have hat := entryAt_enc e (hwf e (by simp)) s c _ hs
    have hent := entry_spec obj s c
    rw [hat] at hent
    simp only at hent
    have hs' := drop_step hs
    rw [encEntry_length] at hs'
    simp only [List.length_cons] at hlim
    obtain ⟨l, hl, hm⟩ := ih (obj + 1) s (c + 20) rest hs' (fun x hx => hwf x (by simp [hx])) (by omega)
    refine ⟨(⟨mkEnt obj (e.info, e.gen, e.inuse), c, c + 20⟩ : Located Ent) :: l, ?_, ?_⟩
    · have hlt : ¬ obj ≥ usizeLim := by omega
      simp only [List.length_cons, entsLoop, hlt, if_false, hent, hl]
      congr 1; omega
    · simp [number, hm, mkEnt]


theorem digit_not_ws (d : UInt8) (h : Xref.isDigit d = true) :
    Xref.isWsNoEol d = false ∧ Xref.isWsEol d = false ∧ d ≠ 37 ∧ d ≠ 43 ∧ d ≠ 45 := by
  simp only [Xref.isDigit, Bool.and_eq_true, decide_eq_true_eq, UInt8.le_iff_toNat_le] at h
  have h1 : (48 : UInt8).toNat = 48 := rfl
  have h2 : (57 : UInt8).toNat = 57 := rfl
  rw [h1, h2] at h
  have hne : ∀ k : UInt8, k.toNat < 48 → ¬ d = k := by
    intro k hk hdk; subst hdk; omega
  refine ⟨?_, ?_, hne 37 (by decide), hne 43 (by decide), hne 45 (by decide)⟩
  · simp [Xref.isWsNoEol, hne 32 (by decide), hne 0 (by decide), hne 9 (by decide), hne 13 (by decide), hne 12 (by decide)]
  · simp [Xref.isWsEol, hne 32 (by decide), hne 0 (by decide), hne 9 (by decide), hne 13 (by decide), hne 12 (by decide), hne 10 (by decide)]

theorem ws_not_digit (b : UInt8) (h : Xref.isWsEol b = true) : Xref.isDigit b = false := by
  cases hd : Xref.isDigit b with
  | false => rfl
  | true => have := (digit_not_ws b hd).2.1; rw [this] at h; cases h

theorem encEntries_length (es : List TEnt) : (es.flatMap encEntry).length = 20 * es.length := by
  induction es with
  | nil => rfl
  | cons e t ih => simp only [List.flatMap_cons, List.length_append, encEntry_length, ih, List.length_cons]; omega

theorem encEntry_head (e : TEnt) : ∃ d t, encEntry e = d :: t ∧ Xref.isDigit d = true := by
  obtain ⟨d, t, hd, hdig⟩ := padDec_head 10 e.info (by omega)
  refine ⟨d, t ++ ([32] ++ padDec 5 e.gen ++ [32] ++ [if e.inuse then 110 else 102] ++ e.eol.bytes), ?_, hdig⟩
  simp [encEntry, hd]

theorem encSub_length (t : TSub) : (encSub t).length =
    t.lead.length + t.wStart + 1 + t.wCount + t.hdrEol.length + 20 * t.ents.length := by
  simp only [encSub, List.length_append, padDec_length, encEntries_length, List.length_cons, List.length_nil]

theorem subsect_roundtrip (t : TSub) (hwf : t.wf) (hne : t.ents ≠ []) (s : Bytes) (c : Nat) (rest : Bytes)
    (hs : s.drop c = encSub t ++ rest) :
    ∃ l, xrefSubSectP s c = (.ok ⟨⟨t.start, t.ents.length, l⟩, c, c + (encSub t).length⟩, c + (encSub t).length)
      ∧ l.map (·.val) = number t.start t.ents := by
  obtain ⟨hs1, hs2, hws, hc1, hc2, hwc, hlead, hene, heall, hents⟩ := hwf
  simp only [encSub, List.append_assoc] at hs
  -- blanks
  obtain ⟨d0, t0, hd0, hdig0⟩ := padDec_head t.wStart t.start hws
  have h0 := wsNoEol_blanks s c t.lead _ hs hlead (by
    intro b hb; rw [hd0] at hb; simp at hb; subst hb; exact (digit_not_ws _ hdig0).1)
  have hsA := drop_step hs
  -- start
  have hi64 : i64Max = 2 ^ 63 - 1 := rfl
  have h1 := integerP_padDec t.wStart t.start s _ _ hsA hws hs1 (by omega) (by
    intro b hb; simp at hb; subst hb; decide)
  have hsB := drop_step hsA
  rw [padDec_length] at hsB
  -- space
  have hsp : s[c + t.lead.length + t.wStart]? = some 32 := by
    have := head_of_drop hsB; simpa using this
  have hsC := drop_step (x := [32]) hsB
  simp only [List.length_cons, List.length_nil] at hsC
  -- count
  obtain ⟨w0, wt, hw0, hwsp⟩ : ∃ w0 wt, t.hdrEol = w0 :: wt ∧ Xref.isWsEol w0 = true := by
    cases hh : t.hdrEol with
    | nil => exact absurd hh hene
    | cons a b =>
      rw [hh] at heall
      simp only [List.all_cons, Bool.and_eq_true] at heall
      exact ⟨a, b, rfl, by rw [← isWs_eq]; exact heall.1⟩
  have h2 := integerP_padDec t.wCount t.ents.length s _ _ hsC hwc hc1 (by omega) (by
    intro b hb; rw [hw0] at hb; simp at hb; subst hb; exact ws_not_digit _ hwsp)
  have hsD := drop_step hsC
  rw [padDec_length] at hsD
  -- header EOL
  obtain ⟨e0, et, he0⟩ : ∃ e0 et, t.ents = e0 :: et := by
    cases hh : t.ents with
    | nil => exact absurd hh hne
    | cons a b => exact ⟨a, b, rfl⟩
  obtain ⟨d1, t1, hd1, hdig1⟩ := encEntry_head e0
  have h3 := wsEol_ws s _ t.hdrEol _ hsD (by rw [← isWs_eq]; exact heall) hene (by
    intro b hb; rw [he0] at hb; simp [hd1] at hb; subst hb
    exact ⟨(digit_not_ws _ hdig1).2.1, (digit_not_ws _ hdig1).2.2.1⟩)
  have hsE := drop_step hsD
  -- entries
  obtain ⟨l, hl, hm⟩ := ents_roundtrip t.ents t.start s _ rest hsE hents (by
    have : usizeLim = 2 ^ 64 := rfl
    omega)
  refine ⟨l, ?_, hm⟩
  unfold xrefSubSectP
  have hnn : ¬ ((t.start : Int) < 0) := by omega
  have hnn2 : ¬ ((t.ents.length : Int) < 0) := by omega
  simp only [h0, andThen_ok, h1, hnn, if_false, exact_byte, hsp, if_true, h2, hnn2, h3, Int.toNat_natCast, hl]
  rw [encSub_length]
  have : c + t.lead.length + t.wStart + 1 + t.wCount + t.hdrEol.length + 20 * t.ents.length
      = c + (t.lead.length + t.wStart + 1 + t.wCount + t.hdrEol.length + 20 * t.ents.length) := by omega
  rw [this]


theorem getElem?_add_drop (s : Bytes) (c k : Nat) : s[c + k]? = (s.drop c)[k]? := by
  simp

/-- the look-ahead of the fixed `XrefSectP` loop at the end of a section: after optional blanks
    no number starts, so the loop stops (cursor after the blanks, or on the CR of a CR LF) -/
theorem lookahead_end (s : Bytes) (c : Nat) (hc : c ≤ s.length) (h : endsSection (s.drop c) = true) :
    ∃ c1, wsNoEol true s c = (.ok (), c1) ∧ startsHeader s[c1]? = false ∧ c ≤ c1 ∧ c1 ≤ s.length := by
  have hfun : (fun (c : UInt8) => c == 32 || c == 0 || c == 9 || c == 13 || c == 12) = Xref.isWsNoEol := by
    funext b; rfl
  unfold endsSection at h
  rw [hfun] at h
  have hsplit := List.takeWhile_append_dropWhile (p := Xref.isWsNoEol) (l := s.drop c)
  have hlen : ((s.drop c).takeWhile Xref.isWsNoEol).length ≤ s.length - c := by
    have := congrArg List.length hsplit
    simp only [List.length_append, List.length_drop] at this
    omega
  have hj : s[c + ((s.drop c).takeWhile Xref.isWsNoEol).length]? = ((s.drop c).dropWhile Xref.isWsNoEol).head? := by
    exact head_of_drop (drop_step hsplit.symm)
  unfold wsNoEol parseAllowed
  simp only [Bool.not_true, Bool.and_false, Bool.false_eq_true, if_false]
  generalize hws : (s.drop c).takeWhile Xref.isWsNoEol = ws at *
  by_cases hrew : (ws.getLast? == some 13 && s[c + ws.length]? == some 10) = true
  · simp only [hrew, if_true]
    simp only [Bool.and_eq_true, beq_iff_eq] at hrew
    have hne : ws ≠ [] := by intro h0; rw [h0] at hrew; simp at hrew
    have hpos : 0 < ws.length := List.length_pos_iff.mpr hne
    have hj0 : ¬ (c + ws.length == 0) = true := by
      have : c + ws.length ≠ 0 := by omega
      simpa using this
    simp only [hj0, if_false]
    refine ⟨_, rfl, ?_, by omega, by omega⟩
    have : s[c + ws.length - 1]? = some 13 := by
      have e : c + ws.length - 1 = c + (ws.length - 1) := by omega
      rw [e, getElem?_add_drop, ← hsplit, List.getElem?_append_left (by omega)]
      rw [← List.getLast?_eq_getElem?]; exact hrew.1
    rw [this]; decide
  · simp only [hrew, if_false]
    refine ⟨_, rfl, ?_, by omega, by omega⟩
    rw [hj]
    cases hh : ((s.drop c).dropWhile Xref.isWsNoEol).head? with
    | none => rfl
    | some b =>
      rw [hh] at h
      simp only [Bool.not_eq_true'] at h
      simp only [startsHeader]
      rw [isDigit_eq_isDig]
      simpa using h

def subOk (t : TSub) : Prop := t.wf ∧ t.ents ≠ []

theorem encSub_pos (t : TSub) : 1 ≤ (encSub t).length := by rw [encSub_length]; omega

theorem encSubs_length_ge (subs : List TSub) : subs.length ≤ (subs.flatMap encSub).length := by
  induction subs with
  | nil => simp
  | cons t ts ih =>
    simp only [List.flatMap_cons, List.length_append, List.length_cons]
    have := encSub_pos t; omega

/-- the section loop over written subsections (each with at least one entry) followed by
    something that ends the section -/
theorem sect_roundtrip : ∀ (subs : List TSub) (fuel : Nat) (s : Bytes) (c : Nat) (rest : Bytes) (first : Bool),
    subs.length + 1 ≤ fuel → (first = true → subs ≠ []) → (∀ t ∈ subs, subOk t) →
    s.drop c = subs.flatMap encSub ++ rest → c ≤ s.length → endsSection rest = true →
    ∃ l c', sectLoop fuel s c first = (.ok l, c') ∧ sectEnts l = tableEnts subs
      ∧ l.map (fun ss => (ss.val.start, ss.val.count)) = subs.map (fun t => (t.start, t.ents.length))
      ∧ c + (subs.flatMap encSub).length ≤ c' ∧ c' ≤ s.length := by
  intro subs
  induction subs with
  | nil =>
    intro fuel s c rest first hf hfirst _ hs hc hend
    cases first with
    | true => exact absurd rfl (hfirst rfl)
    | false =>
      obtain ⟨f, rfl⟩ : ∃ f, fuel = f + 1 := ⟨fuel - 1, by simp at hf; omega⟩
      simp only [List.flatMap_nil, List.nil_append] at hs
      obtain ⟨c1, hw, hnh, h1, h2⟩ := lookahead_end s c hc (by rw [hs]; exact hend)
      refine ⟨[], c1, ?_, rfl, rfl, by simpa using h1, h2⟩
      simp [sectLoop, hw, hnh]
  | cons t ts ih =>
    intro fuel s c rest first hf hfirst hok hs hc hend
    obtain ⟨f, rfl⟩ : ∃ f, fuel = f + 1 := ⟨fuel - 1, by simp at hf; omega⟩
    simp only [List.flatMap_cons, List.append_assoc] at hs
    obtain ⟨hwf, hne⟩ := hok t (by simp)
    -- whether another subsection follows: yes
    have hmore : (if first = true then ((.ok true, c) : Step Bool)
        else andThen (wsNoEol true s c) fun _ c1 =>
          if startsHeader s[c1]? = true then (.ok true, c) else (.ok false, c1)) = (.ok true, c) := by
      cases first with
      | true => rfl
      | false =>
        obtain ⟨_, _, hws, _, _, _, hlead, _, _, _⟩ := hwf
        obtain ⟨d0, t0, hd0, hdig0⟩ := padDec_head t.wStart t.start hws
        have hs0 : s.drop c = t.lead ++ (padDec t.wStart t.start ++ ([32] ++ padDec t.wCount t.ents.length
            ++ t.hdrEol ++ t.ents.flatMap encEntry ++ (ts.flatMap encSub ++ rest))) := by
          rw [hs]; simp [encSub]
        have h0 := wsNoEol_blanks s c t.lead _ hs0 hlead (by
          intro b hb; rw [hd0] at hb; simp at hb; subst hb; exact (digit_not_ws _ hdig0).1)
        have hpk : s[c + t.lead.length]? = some d0 := by
          have := head_of_drop (drop_step hs0); rw [hd0] at this; simpa using this
        simp [h0, hpk, startsHeader, hdig0]
    obtain ⟨l1, hsub, hm1⟩ := subsect_roundtrip t hwf hne s c _ hs
    have hs' := drop_step hs
    have hlen : (s.drop c).length = (encSub t).length + (ts.flatMap encSub ++ rest).length := by
      rw [hs]; simp
    simp only [List.length_drop] at hlen
    obtain ⟨l, c', hl, he, hsc, hc1, hc2⟩ := ih f s (c + (encSub t).length) rest false
      (by simp at hf ⊢; omega) (by intro h; cases h) (fun x hx => hok x (by simp [hx])) hs' (by omega) hend
    refine ⟨(⟨⟨t.start, t.ents.length, l1⟩, c, c + (encSub t).length⟩ : Located SubSect) :: l, c', ?_, ?_, ?_, ?_, hc2⟩
    · simp only [sectLoop, hmore, hsub, hl]
    · simp only [sectEnts, List.flatMap_cons, tableEnts] at he ⊢
      rw [he, hm1]
    · simp [hsc]
    · simp only [List.flatMap_cons, List.length_append]; omega

theorem wsEol_none (s : Bytes) (c : Nat) (r : Bytes) (hs : s.drop c = r)
    (hr : ∀ b, r.head? = some b → Xref.isWsEol b = false ∧ b ≠ 37) :
    wsEol true s c = (.ok (), c) := by
  have hpa := parseAllowed_prefix Xref.isWsEol s c [] r (by simpa using hs) rfl (fun b hb => (hr b hb).1)
  have hnext : s[c]? = r.head? := head_of_drop hs
  have h37 : (s[c]? == some 37) = false := by
    rw [hnext]
    cases hh : r.head? with
    | none => rfl
    | some b => have := (hr b hh).2; simp [this]
  unfold wsEol
  have : s.length - c + 1 = (s.length - c) + 1 := rfl
  rw [this]
  simp [wsEolLoop, hpa, h37]

theorem isBlank_wsEol (b : UInt8) (h : XrefSpec.isBlank b = true) : Xref.isWsEol b = true := by
  simp only [XrefSpec.isBlank, Bool.or_eq_true, beq_iff_eq] at h
  simp only [Xref.isWsEol, Bool.or_eq_true, beq_iff_eq]
  rcases h with ((h | h) | h) | h <;> simp [h]

/-- the subsection without its leading blanks -/
def unlead (t : TSub) : TSub := { t with lead := [] }

theorem encSub_unlead (t : TSub) : encSub t = t.lead ++ encSub (unlead t) := by
  simp [encSub, unlead]

theorem unlead_ok (t : TSub) (h : subOk t) : subOk (unlead t) := by
  obtain ⟨⟨a, b, c, d, e, f, _, g⟩, hne⟩ := h
  exact ⟨⟨a, b, c, d, e, f, rfl, g⟩, hne⟩

/-- `XrefSectP` on `xref` LF blanks and then a digit: everything up to the section loop succeeds,
    the loop starts right at that digit -/
theorem xrefSectP_start (lead body : Bytes) (hlead : lead.all XrefSpec.isBlank = true)
    (hbody : ∃ d tl, body = d :: tl ∧ Xref.isDigit d = true) :
    xrefSectP (kwXref ++ ([10] ++ lead ++ body)) 0 =
      andThen (sectLoop ((kwXref ++ ([10] ++ lead ++ body)).length - (4 + (1 + lead.length)) + 2)
        (kwXref ++ ([10] ++ lead ++ body)) (4 + (1 + lead.length)) true) (fun l c3 => (.ok ⟨l, 0, c3⟩, c3))
    ∧ (kwXref ++ ([10] ++ lead ++ body)).drop (4 + (1 + lead.length)) = body := by
  obtain ⟨dd, tl, hdd, hddig⟩ := hbody
  generalize hSdef : kwXref ++ ([10] ++ lead ++ body) = S
  have hS := hSdef.symm
  have h1 : wsEol true S 0 = (.ok (), 0) := by
    apply wsEol_none S 0 S rfl
    intro b hb; rw [hS] at hb; simp [kwXref] at hb; subst hb; decide
  have h2 : exact [120, 114, 101, 102] S 0 = (.ok (), 4) := by
    unfold exact
    have : List.isPrefixOf [120, 114, 101, 102] (S.drop 0) = true := by
      rw [List.isPrefixOf_iff_prefix, hS]; exact List.prefix_append _ _
    rw [if_pos this]; rfl
  have hd4 : S.drop 4 = ([10] ++ lead) ++ body := by
    rw [hS]; simp [kwXref]
  have h3 : wsEol false S 4 = (.ok (), 4 + (1 + lead.length)) := by
    have := wsEol_ws S 4 ([10] ++ lead) _ hd4 (by
        simp only [List.all_append, Bool.and_eq_true]
        exact ⟨by decide, all_imp lead isBlank_wsEol hlead⟩) (by simp) (by
        intro b hb; rw [hdd] at hb; simp at hb; subst hb
        exact ⟨(digit_not_ws _ hddig).2.1, (digit_not_ws _ hddig).2.2.1⟩)
    rw [this]; simp; omega
  have hd5 := drop_step hd4
  simp only [List.length_append, List.length_cons, List.length_nil, Nat.zero_add] at hd5
  refine ⟨?_, hd5⟩
  unfold xrefSectP
  simp only [h1, andThen_ok, h2, h3]

theorem encSub_head (t : TSub) (hws : 0 < t.wStart) (r : Bytes) :
    ∃ d tl, encSub (unlead t) ++ r = d :: tl ∧ Xref.isDigit d = true := by
  obtain ⟨d0, t0, hd0, hdig0⟩ := padDec_head t.wStart t.start hws
  refine ⟨d0, t0 ++ ([32] ++ padDec t.wCount t.ents.length ++ t.hdrEol ++ t.ents.flatMap encEntry) ++ r, ?_, hdig0⟩
  simp [encSub, unlead, hd0]

/-- `XrefSectP` on a written table whose first subsection is well formed -/
theorem xrefSectP_prefix (t : TSub) (ts : List TSub) (rest : Bytes) (htok : subOk t) :
    xrefSectP (encTable (t :: ts) ++ rest) 0 =
      andThen (sectLoop ((encTable (t :: ts) ++ rest).length - (4 + (1 + t.lead.length)) + 2)
        (encTable (t :: ts) ++ rest) (4 + (1 + t.lead.length)) true) (fun l c3 => (.ok ⟨l, 0, c3⟩, c3))
    ∧ (encTable (t :: ts) ++ rest).drop (4 + (1 + t.lead.length)) = (unlead t :: ts).flatMap encSub ++ rest
    ∧ (encTable (t :: ts)).length = 4 + (1 + t.lead.length) + ((unlead t :: ts).flatMap encSub).length := by
  obtain ⟨⟨_, _, hws, _, _, _, hlead, _, _, _⟩, _⟩ := htok
  have hS : encTable (t :: ts) ++ rest
      = kwXref ++ (([10] ++ t.lead) ++ ((unlead t :: ts).flatMap encSub ++ rest)) := by
    simp [encTable, List.flatMap_cons, encSub_unlead t]
  have hlenT : (encTable (t :: ts)).length = 4 + (1 + t.lead.length) + ((unlead t :: ts).flatMap encSub).length := by
    simp [encTable, List.flatMap_cons, encSub_unlead t, kwXref]; omega
  obtain ⟨a, b⟩ := xrefSectP_start t.lead ((unlead t :: ts).flatMap encSub ++ rest) hlead (by
    obtain ⟨d, tl, h, hd⟩ := encSub_head t hws (ts.flatMap encSub ++ rest)
    exact ⟨d, tl, by simpa [List.flatMap_cons] using h, hd⟩)
  rw [hS]
  exact ⟨a, b, hlenT⟩

/-- C13 `table_roundtrip`: for every non-empty list of subsections (any partition; each subsection
    with at least one entry, any start below 2^63, header numbers written with any number of leading
    zeros, any blanks before and any white space after the header) of well-formed entries (offset
    below 10^10, generation at most 65535, either type, any of the three terminators), followed by
    anything that does not start a number after optional blanks, `XrefSectP` at cursor 0 accepts,
    yields exactly those entries numbered consecutively from each subsection's start and the
    subsections' (start, count), and leaves the cursor at or after the end of the table. -/
theorem table_roundtrip (subs : List TSub) (rest : Bytes) (hne : subs ≠ [])
    (hok : ∀ t ∈ subs, subOk t) (hend : endsSection rest = true) :
    ∃ l c, xrefSectP (encTable subs ++ rest) 0 = (.ok ⟨l, 0, c⟩, c)
      ∧ sectEnts l = tableEnts subs
      ∧ l.map (fun ss => (ss.val.start, ss.val.count)) = subs.map (fun t => (t.start, t.ents.length))
      ∧ (encTable subs).length ≤ c ∧ c ≤ (encTable subs ++ rest).length := by
  obtain ⟨t, ts, rfl⟩ : ∃ t ts, subs = t :: ts := by
    cases subs with
    | nil => exact absurd rfl hne
    | cons t ts => exact ⟨t, ts, rfl⟩
  have htok := hok t (by simp)
  have hu := unlead_ok t htok
  obtain ⟨hP, hd5, hlenT⟩ := xrefSectP_prefix t ts rest htok
  generalize hSdef : encTable (t :: ts) ++ rest = S at *
  have hlenS : S.length - (4 + (1 + t.lead.length)) = ((unlead t :: ts).flatMap encSub ++ rest).length := by
    rw [← hd5]; simp
  simp only [List.length_append] at hlenS
  have hge := encSubs_length_ge (unlead t :: ts)
  simp only [List.length_cons] at hge
  obtain ⟨l, c', hl, he, hsc, hc1, hc2⟩ := sect_roundtrip (unlead t :: ts)
    (S.length - (4 + (1 + t.lead.length)) + 2) S (4 + (1 + t.lead.length)) rest true
    (by simp only [List.length_cons]; omega) (by intro _; simp)
    (by
      intro x hx
      simp only [List.mem_cons] at hx
      rcases hx with rfl | hx
      · exact hu
      · exact hok x (by simp [hx]))
    hd5 (by omega) hend
  refine ⟨l, c', ?_, ?_, ?_, by omega, hc2⟩
  · rw [hP, hl]; rfl
  · rw [he]; simp [tableEnts, List.flatMap_cons, unlead]
  · rw [hsc]; simp [unlead]


/-- good entries followed by something that is not an entry, with a count that reaches it -/
theorem ents_prefix_then_bad : ∀ (es : List TEnt) (n obj : Nat) (s : Bytes) (c : Nat) (bad : Bytes),
    s.drop c = es.flatMap encEntry ++ bad → (∀ e ∈ es, e.wf) → es.length < n → obj + n ≤ usizeLim →
    entryAt s (c + 20 * es.length) = none → ∃ k c', entsLoop n obj s c = (.err k, c') := by
  intro es
  induction es with
  | nil =>
    intro n obj s c bad _ _ hn hlim hbad
    obtain ⟨m, rfl⟩ : ∃ m, n = m + 1 := ⟨n - 1, by simp at hn; omega⟩
    obtain ⟨k, c', hk⟩ := entry_malformed_rejected obj s c (by simpa using hbad)
    have hlt : ¬ obj ≥ usizeLim := by omega
    exact ⟨k, c', by simp only [entsLoop, hlt, if_false, hk]⟩
  | cons e t ih =>
    intro n obj s c bad hs hwf hn hlim hbad
    obtain ⟨m, rfl⟩ : ∃ m, n = m + 1 := ⟨n - 1, by simp at hn; omega⟩
    simp only [List.flatMap_cons, List.append_assoc] at hs
    have hat := entryAt_enc e (hwf e (by simp)) s c _ hs
    have hent := entry_spec obj s c
    rw [hat] at hent
    simp only at hent
    have hs' := drop_step hs
    rw [encEntry_length] at hs'
    simp only [List.length_cons] at hn hbad
    obtain ⟨k, c', hk⟩ := ih m (obj + 1) s (c + 20) bad hs' (fun x hx => hwf x (by simp [hx])) (by omega)
      (by omega) (by rw [← hbad]; congr 1; omega)
    have hlt : ¬ obj ≥ usizeLim := by omega
    exact ⟨k, c', by simp only [entsLoop, hlt, if_false, hent, hk]⟩

/-- a subsection header as written, announcing `cnt` entries -/
def encHdr (t : TSub) (cnt : Nat) : Bytes :=
  t.lead ++ padDec t.wStart t.start ++ [32] ++ padDec t.wCount cnt ++ t.hdrEol

def hdrOk (t : TSub) (cnt : Nat) : Prop :=
  t.start < 10 ^ t.wStart ∧ t.start < 2 ^ 63 ∧ 0 < t.wStart ∧ cnt < 10 ^ t.wCount ∧ cnt < 2 ^ 63 ∧ 0 < t.wCount
  ∧ t.lead.all XrefSpec.isBlank = true ∧ t.hdrEol ≠ [] ∧ t.hdrEol.all XrefSpec.isWs = true

/-- `XrefSubSectP` over a written header: what remains is the entry loop -/
theorem subsect_header (t : TSub) (cnt : Nat) (hok : hdrOk t cnt) (s : Bytes) (c : Nat) (r : Bytes)
    (hs : s.drop c = encHdr t cnt ++ r)
    (hr : ∀ b, r.head? = some b → Xref.isWsEol b = false ∧ b ≠ 37) :
    xrefSubSectP s c = andThen (entsLoop cnt t.start s (c + (encHdr t cnt).length))
        (fun es c5 => (.ok ⟨⟨t.start, cnt, es⟩, c, c5⟩, c5))
    ∧ s.drop (c + (encHdr t cnt).length) = r := by
  obtain ⟨hs1, hs2, hws, hc1, hc2, hwc, hlead, hene, heall⟩ := hok
  have hlenH : (encHdr t cnt).length = t.lead.length + t.wStart + 1 + t.wCount + t.hdrEol.length := by
    simp only [encHdr, List.length_append, padDec_length, List.length_cons, List.length_nil]
  simp only [encHdr, List.append_assoc] at hs
  obtain ⟨d0, t0, hd0, hdig0⟩ := padDec_head t.wStart t.start hws
  have h0 := wsNoEol_blanks s c t.lead _ hs hlead (by
    intro b hb; rw [hd0] at hb; simp at hb; subst hb; exact (digit_not_ws _ hdig0).1)
  have hsA := drop_step hs
  have hi64 : i64Max = 2 ^ 63 - 1 := rfl
  have h1 := integerP_padDec t.wStart t.start s _ _ hsA hws hs1 (by omega) (by
    intro b hb; simp at hb; subst hb; decide)
  have hsB := drop_step hsA
  rw [padDec_length] at hsB
  have hsp : s[c + t.lead.length + t.wStart]? = some 32 := by
    have := head_of_drop hsB; simpa using this
  have hsC := drop_step (x := [32]) hsB
  simp only [List.length_cons, List.length_nil] at hsC
  obtain ⟨w0, wt, hw0, hwsp⟩ : ∃ w0 wt, t.hdrEol = w0 :: wt ∧ Xref.isWsEol w0 = true := by
    cases hh : t.hdrEol with
    | nil => exact absurd hh hene
    | cons a b =>
      rw [hh] at heall
      simp only [List.all_cons, Bool.and_eq_true] at heall
      exact ⟨a, b, rfl, by rw [← isWs_eq]; exact heall.1⟩
  have h2 := integerP_padDec t.wCount cnt s _ _ hsC hwc hc1 (by omega) (by
    intro b hb; rw [hw0] at hb; simp at hb; subst hb; exact ws_not_digit _ hwsp)
  have hsD := drop_step hsC
  rw [padDec_length] at hsD
  have h3 := wsEol_ws s _ t.hdrEol _ hsD (by rw [← isWs_eq]; exact heall) hene hr
  have hsE := drop_step hsD
  have hcur : c + t.lead.length + t.wStart + 1 + t.wCount + t.hdrEol.length = c + (encHdr t cnt).length := by
    rw [hlenH]; omega
  rw [hcur] at hsE h3
  refine ⟨?_, hsE⟩
  unfold xrefSubSectP
  have hnn : ¬ ((t.start : Int) < 0) := by omega
  have hnn2 : ¬ ((cnt : Int) < 0) := by omega
  simp only [h0, andThen_ok, h1, hnn, if_false, exact_byte, hsp, if_true, h2, hnn2, h3, Int.toNat_natCast]

/-- a subsection whose header announces more entries than well-formed ones follow is rejected -/
theorem subsect_malformed_rejected (t : TSub) (cnt : Nat) (hok : hdrOk t cnt) (es : List TEnt) (bad : Bytes)
    (hwf : ∀ e ∈ es, e.wf) (hcnt : es.length < cnt)
    (s : Bytes) (c : Nat) (hs : s.drop c = encHdr t cnt ++ (es.flatMap encEntry ++ bad))
    (hr : ∀ b, (es.flatMap encEntry ++ bad).head? = some b → Xref.isWsEol b = false ∧ b ≠ 37)
    (hbad : entryAt s (c + (encHdr t cnt).length + 20 * es.length) = none) :
    ∃ k c', xrefSubSectP s c = (.err k, c') := by
  obtain ⟨h1, h2⟩ := subsect_header t cnt hok s c _ hs hr
  obtain ⟨k, c', hk⟩ := ents_prefix_then_bad es cnt t.start s _ bad h2 hwf hcnt (by
    have : usizeLim = 2 ^ 64 := rfl
    obtain ⟨_, a, _, _, b, _⟩ := hok
    omega) hbad
  exact ⟨k, c', by rw [h1, hk]; rfl⟩

/-- the fixed section loop: well-formed subsections, then a further subsection header starts
    (blanks and a digit) whose subsection is rejected - the section is rejected (fix C13-01) -/
theorem sect_error : ∀ (subs : List TSub) (fuel : Nat) (s : Bytes) (c : Nat) (tail : Bytes) (first : Bool),
    subs.length + 1 ≤ fuel → (∀ t ∈ subs, subOk t) →
    s.drop c = subs.flatMap encSub ++ tail →
    (∃ lead d r, tail = lead ++ d :: r ∧ lead.all XrefSpec.isBlank = true ∧ Xref.isDigit d = true) →
    (∃ k c', xrefSubSectP s (c + (subs.flatMap encSub).length) = (.err k, c')) →
    ∃ k c', sectLoop fuel s c first = (.err k, c') := by
  intro subs
  induction subs with
  | nil =>
    intro fuel s c tail first hf _ hs hhdr herr
    obtain ⟨f, rfl⟩ : ∃ f, fuel = f + 1 := ⟨fuel - 1, by simp at hf; omega⟩
    obtain ⟨k, c', hk⟩ := herr
    simp only [List.flatMap_nil, List.length_nil, Nat.add_zero, List.nil_append] at hk hs
    have hmore : (if first = true then ((.ok true, c) : Step Bool)
        else andThen (wsNoEol true s c) fun _ c1 =>
          if startsHeader s[c1]? = true then (.ok true, c) else (.ok false, c1)) = (.ok true, c) := by
      cases first with
      | true => rfl
      | false =>
        obtain ⟨lead, d, r, ht, hl, hd⟩ := hhdr
        rw [ht] at hs
        have h0 := wsNoEol_blanks s c lead _ hs hl (by
          intro b hb; simp at hb; subst hb; exact (digit_not_ws _ hd).1)
        have hpk : s[c + lead.length]? = some d := by
          have := head_of_drop (drop_step hs); simpa using this
        simp [h0, hpk, startsHeader, hd]
    exact ⟨k, c', by simp only [sectLoop, hmore, hk]⟩
  | cons t ts ih =>
    intro fuel s c tail first hf hok hs hhdr herr
    obtain ⟨f, rfl⟩ : ∃ f, fuel = f + 1 := ⟨fuel - 1, by simp at hf; omega⟩
    simp only [List.flatMap_cons, List.append_assoc] at hs
    obtain ⟨hwf, hne⟩ := hok t (by simp)
    have hmore : (if first = true then ((.ok true, c) : Step Bool)
        else andThen (wsNoEol true s c) fun _ c1 =>
          if startsHeader s[c1]? = true then (.ok true, c) else (.ok false, c1)) = (.ok true, c) := by
      cases first with
      | true => rfl
      | false =>
        obtain ⟨_, _, hws, _, _, _, hlead, _, _, _⟩ := hwf
        obtain ⟨d0, t0, hd0, hdig0⟩ := padDec_head t.wStart t.start hws
        have hs0 : s.drop c = t.lead ++ (padDec t.wStart t.start ++ ([32] ++ padDec t.wCount t.ents.length
            ++ t.hdrEol ++ t.ents.flatMap encEntry ++ (ts.flatMap encSub ++ tail))) := by
          rw [hs]; simp [encSub]
        have h0 := wsNoEol_blanks s c t.lead _ hs0 hlead (by
          intro b hb; rw [hd0] at hb; simp at hb; subst hb; exact (digit_not_ws _ hdig0).1)
        have hpk : s[c + t.lead.length]? = some d0 := by
          have := head_of_drop (drop_step hs0); rw [hd0] at this; simpa using this
        simp [h0, hpk, startsHeader, hdig0]
    obtain ⟨l1, hsub, _⟩ := subsect_roundtrip t hwf hne s c _ hs
    have hs' := drop_step hs
    obtain ⟨k, c', hk⟩ := ih f s (c + (encSub t).length) tail false (by simp at hf ⊢; omega)
      (fun x hx => hok x (by simp [hx])) hs' hhdr (by
        obtain ⟨k, c', h⟩ := herr
        refine ⟨k, c', ?_⟩
        rw [← h]; congr 1
        simp only [List.flatMap_cons, List.length_append]; omega)
    exact ⟨k, c', by simp only [sectLoop, hmore, hsub, hk]⟩

/-- C13 `table_malformed_later_subsection_rejected` (defect #32, fixed by C13-01): a table whose
    subsections `subs` are well formed and are followed by a further subsection - header `t`
    announcing `cnt` entries, `es` well-formed entries, then bytes `bad` whose first 20 are not in
    the entry form (or fewer than 20 remain) while `cnt` reaches them - is rejected by `XrefSectP`.
    A malformed entry is malformed wherever it sits. -/
theorem table_malformed_later_subsection_rejected (subs : List TSub) (hne : subs ≠ [])
    (hok : ∀ t ∈ subs, subOk t) (t : TSub) (cnt : Nat) (hh : hdrOk t cnt) (es : List TEnt) (bad : Bytes)
    (hwf : ∀ e ∈ es, e.wf) (hcnt : es.length < cnt)
    (hr : ∀ b, (es.flatMap encEntry ++ bad).head? = some b → Xref.isWsEol b = false ∧ b ≠ 37)
    (hbad : entryAt bad 0 = none) :
    ∃ k c, xrefSectP (encTable subs ++ (encHdr t cnt ++ (es.flatMap encEntry ++ bad))) 0 = (.err k, c) := by
  obtain ⟨t1, ts, rfl⟩ : ∃ t1 ts, subs = t1 :: ts := by
    cases subs with
    | nil => exact absurd rfl hne
    | cons a b => exact ⟨a, b, rfl⟩
  have htok := hok t1 (by simp)
  obtain ⟨hP, hd5, hlenT⟩ := xrefSectP_prefix t1 ts (encHdr t cnt ++ (es.flatMap encEntry ++ bad)) htok
  generalize hSdef : encTable (t1 :: ts) ++ (encHdr t cnt ++ (es.flatMap encEntry ++ bad)) = S at *
  have hge := encSubs_length_ge (unlead t1 :: ts)
  have hlenS : S.length - (4 + (1 + t1.lead.length)) =
      ((unlead t1 :: ts).flatMap encSub ++ (encHdr t cnt ++ (es.flatMap encEntry ++ bad))).length := by
    rw [← hd5]; simp
  simp only [List.length_append, List.length_cons] at hlenS hge
  have hdropH := drop_step hd5
  obtain ⟨hws, hlead⟩ : 0 < t.wStart ∧ t.lead.all XrefSpec.isBlank = true := ⟨hh.2.2.1, hh.2.2.2.2.2.2.1⟩
  obtain ⟨d0, t0, hd0, hdig0⟩ := padDec_head t.wStart t.start hws
  -- the offending subsection is rejected
  have hsub := subsect_malformed_rejected t cnt hh es bad hwf hcnt S _ hdropH hr (by
    have h1 := drop_step hdropH
    have h2 := drop_step h1
    rw [encEntries_length] at h2
    unfold entryAt at hbad ⊢
    rw [h2]; simpa using hbad)
  obtain ⟨k, c', hk⟩ := sect_error (unlead t1 :: ts) (S.length - (4 + (1 + t1.lead.length)) + 2) S
    (4 + (1 + t1.lead.length)) _ true
    (by simp only [List.length_cons]; omega)
    (by
      intro x hx
      simp only [List.mem_cons] at hx
      rcases hx with rfl | hx
      · exact unlead_ok _ htok
      · exact hok x (by simp [hx]))
    hd5
    ⟨t.lead, d0, t0 ++ ([32] ++ padDec t.wCount cnt ++ t.hdrEol) ++ (es.flatMap encEntry ++ bad),
      by simp [encHdr, hd0], hlead, hdig0⟩
    hsub
  exact ⟨k, c', by rw [hP, hk]; rfl⟩

/-! ## numbering -/


/-- C13 `numbering_consecutive`, for ALL inputs (not only encoder output): whenever `XrefSubSectP`
    accepts, it holds exactly `count` entries and entry `k` carries object number `start + k`;
    whenever the row loop of an xref stream accepts a subsection `(start, count)`, likewise. -/
theorem numbering_consecutive :
    (∀ (s : Bytes) (c : Nat) (ss : Located SubSect) (c' : Nat), xrefSubSectP s c = (.ok ss, c') →
      ss.val.ents.length = ss.val.count ∧
      ∀ k (h : k < ss.val.ents.length), (ss.val.ents[k]).val.obj = ss.val.start + k) ∧
    (∀ (w0 w1 w2 cnt start : Nat) (s : Bytes) (c : Nat) (l : List (Located Ent)) (c' : Nat),
      rowsLoop w0 w1 w2 cnt start s c = (.ok l, c') →
      l.length = cnt ∧ ∀ k (h : k < l.length), (l[k]).val.obj = start + k) := by
  refine ⟨?_, fun w0 w1 w2 cnt start s c l c' h => rows_numbering w0 w1 w2 cnt start s c l c' h⟩
  intro s c ss c' h
  unfold xrefSubSectP at h
  obtain ⟨_, c0, _, h⟩ := andThen_eq_ok h
  obtain ⟨xs, c1, _, h⟩ := andThen_eq_ok h
  split at h
  · simp at h
  obtain ⟨_, c2, _, h⟩ := andThen_eq_ok h
  obtain ⟨xc, c3, _, h⟩ := andThen_eq_ok h
  split at h
  · simp at h
  obtain ⟨_, c4, _, h⟩ := andThen_eq_ok h
  obtain ⟨es, c5, hes, h⟩ := andThen_eq_ok h
  simp only [Prod.mk.injEq, Res.ok.injEq] at h
  obtain ⟨rfl, _⟩ := h
  have ⟨h1, _, h3⟩ := ents_numbering _ _ s c4 es c5 hes
  exact ⟨h1, h3⟩



/-! ## fuel is sufficient and nothing panics (table side) -/

theorem parseAllowed_cursor (p : UInt8 → Bool) (s : Bytes) (i : Nat) :
    i ≤ (parseAllowed p s i).2 ∧ (i ≤ s.length → (parseAllowed p s i).2 ≤ s.length) := by
  simp only [parseAllowed]
  have h : ((s.drop i).takeWhile p).length ≤ (s.drop i).length := (List.takeWhile_prefix p).length_le
  simp only [List.length_drop] at h
  exact ⟨by omega, fun _ => by omega⟩

theorem getElem?_some_lt {s : Bytes} {i : Nat} {b : UInt8} (h : s[i]? = some b) : i < s.length := by
  rcases Nat.lt_or_ge i s.length with h1 | h1
  · exact h1
  · simp [List.getElem?_eq_none h1] at h

/-- `Comment.parse` at a `%` succeeds and consumes at least that byte -/
theorem comment_at (s : Bytes) (i : Nat) (h : s[i]? = some 37) :
    ∃ k, comment s i = (.ok (), k) ∧ i + 1 ≤ k ∧ k ≤ s.length := by
  have hi := getElem?_some_lt h
  have ⟨h1, h2⟩ := parseAllowed_cursor notLf s (i + 1)
  unfold comment
  simp only [h, bne_self_eq_false, Bool.false_eq_true, if_false]
  by_cases hl : (s[(parseAllowed notLf s (i + 1)).2]? == some 10) = true
  · simp only [hl, if_true]
    have := getElem?_some_lt (by simpa using hl)
    exact ⟨_, rfl, by omega, by omega⟩
  · simp only [hl, if_false]
    exact ⟨_, rfl, by omega, h2 (by omega)⟩

/-- `wsEol_fuel_sufficient`: with more fuel than remaining bytes the `WhitespaceEOL` loop
    finishes (every further round passes a comment of at least one byte); it cannot fail -/
theorem wsEolLoop_fuel_sufficient : ∀ (f : Nat) (s : Bytes) (i : Nat) (b : Bool), s.length - i < f →
    ∃ b' k, wsEolLoop f s i b = (.ok b', k) ∧ i ≤ k ∧ (i ≤ s.length → k ≤ s.length) := by
  intro f
  induction f with
  | zero => intro s i b h; omega
  | succ f ih =>
    intro s i b h
    have ⟨h1, h2⟩ := parseAllowed_cursor isWsEol s i
    simp only [wsEolLoop]
    by_cases h37 : (s[(parseAllowed isWsEol s i).2]? == some 37) = true
    · simp only [h37, if_true]
      have hj := getElem?_some_lt (by simpa using h37)
      obtain ⟨k, hk, hk1, hk2⟩ := comment_at s _ (by simpa using h37)
      simp only [hk]
      obtain ⟨b', k', hl, hl1, hl2⟩ := ih s k false (by omega)
      exact ⟨b', k', hl, by omega, fun _ => hl2 hk2⟩
    · simp only [h37, if_false]
      exact ⟨_, _, rfl, h1, h2⟩

theorem wsEol_total (e : Bool) (s : Bytes) (i : Nat) :
    (∃ k, wsEol e s i = (.ok (), k) ∧ i ≤ k ∧ (i ≤ s.length → k ≤ s.length)) ∨
    (∃ k, wsEol e s i = (.err .guard, k)) := by
  obtain ⟨b', k, hl, h1, h2⟩ := wsEolLoop_fuel_sufficient (s.length - i + 1) s i true (by omega)
  unfold wsEol
  simp only [hl]
  split
  · exact Or.inr ⟨k, rfl⟩
  · exact Or.inl ⟨k, rfl, h1, h2⟩

theorem wsNoEol_total (e : Bool) (s : Bytes) (i : Nat) :
    (∃ k, wsNoEol e s i = (.ok (), k) ∧ i ≤ k ∧ (i ≤ s.length → k ≤ s.length)) ∨
    (∃ k, wsNoEol e s i = (.err .guard, k)) := by
  have ⟨h1, h2⟩ := parseAllowed_cursor isWsNoEol s i
  unfold wsNoEol
  generalize hpa : parseAllowed isWsNoEol s i = pa at *
  obtain ⟨ws, j⟩ := pa
  have hj : j = i + ws.length := by
    have := congrArg Prod.snd hpa; have h2 := congrArg Prod.fst hpa
    simp only [parseAllowed] at this h2
    rw [← this, ← h2]
  simp only at h1 h2 ⊢
  split
  · exact Or.inr ⟨j, rfl⟩
  · split
    · rename_i hc
      simp only [Bool.and_eq_true, beq_iff_eq] at hc
      have hne : ws ≠ [] := by intro h0; rw [h0] at hc; simp at hc
      have hpos : 0 < ws.length := List.length_pos_iff.mpr hne
      have hj0 : (j == 0) = false := by
        have : j ≠ 0 := by omega
        simpa using this
      simp only [hj0, Bool.false_eq_true, if_false]
      exact Or.inl ⟨j - 1, rfl, by omega, fun h => by have := h2 h; omega⟩
    · exact Or.inl ⟨j, rfl, h1, h2⟩

theorem accDigits_bound : ∀ (ds : Bytes) (n m : Nat), accDigits ds n = some m → n ≤ i64Max → m ≤ i64Max
  | [], n, m, h, hn => by simp [accDigits] at h; omega
  | c :: t, n, m, h, _ => by
    simp only [accDigits] at h
    split at h
    · simp at h
    · split at h
      · simp at h
      · exact accDigits_bound t _ m h (by omega)

/-- `IntegerP` never panics; an accepted value is an `i64` and the cursor does not move back -/
theorem integerP_total (s : Bytes) (i : Nat) :
    (∃ v j, integerP s i = (.ok ⟨v, i, j⟩, j) ∧ -(i64Max : Int) ≤ v ∧ v ≤ (i64Max : Int) ∧ i ≤ j
      ∧ (i ≤ s.length → j ≤ s.length)) ∨
    integerP s i = (.err .guard, i) := by
  unfold integerP
  generalize hsg : (if (s[i]? == some 45) = true then (true, i + 1)
    else if (s[i]? == some 43) = true then (false, i + 1) else (false, i)) = sgn
  have hs2 : i ≤ sgn.2 ∧ (i ≤ s.length → sgn.2 ≤ s.length) := by
    rw [← hsg]
    split
    · rename_i h
      have := getElem?_some_lt (by simpa using h)
      exact ⟨by simp, fun _ => by simp; omega⟩
    · split
      · rename_i h
        have := getElem?_some_lt (by simpa using h)
        exact ⟨by simp, fun _ => by simp; omega⟩
      · exact ⟨by simp, fun h => by simpa using h⟩
  have ⟨h1, h2⟩ := parseAllowed_cursor isDigit s sgn.2
  dsimp only
  cases hpa : parseAllowed isDigit s sgn.2 with
  | mk ds j =>
  rw [hpa] at h1 h2
  simp only at h1 h2 ⊢
  split
  · exact Or.inr rfl
  · cases hacc : accDigits ds 0 with
    | none => exact Or.inr rfl
    | some n =>
      have hb := accDigits_bound ds 0 n hacc (by simp [i64Max])
      refine Or.inl ⟨_, j, rfl, ?_, ?_, by omega, fun h => h2 (hs2.2 h)⟩
      · split <;> omega
      · split <;> omega

theorem entsLoop_total : ∀ (n obj : Nat) (s : Bytes) (c : Nat), obj + n ≤ usizeLim →
    (∃ l, entsLoop n obj s c = (.ok l, c + 20 * n)) ∨ (∃ k c', entsLoop n obj s c = (.err k, c')) := by
  intro n
  induction n with
  | zero => intro obj s c _; exact Or.inl ⟨[], by simp [entsLoop]⟩
  | succ n ih =>
    intro obj s c hlim
    have hlt : ¬ obj ≥ usizeLim := by omega
    simp only [entsLoop, hlt, if_false]
    have hspec := entry_spec obj s c
    cases hx : entryAt s c with
    | none =>
      rw [hx] at hspec
      obtain ⟨k, c', hk⟩ := hspec
      exact Or.inr ⟨k, c', by rw [hk]⟩
    | some x =>
      rw [hx] at hspec
      simp only at hspec
      rcases ih (obj + 1) s (c + 20) (by omega) with ⟨l, hl⟩ | ⟨k, c', hk⟩
      · refine Or.inl ⟨(⟨mkEnt obj x, c, c + 20⟩ : Located Ent) :: l, ?_⟩
        simp only [hspec, hl, Prod.mk.injEq, true_and]; omega
      · exact Or.inr ⟨k, c', by simp only [hspec, hk]⟩

theorem exact_byte_total (b : UInt8) (s : Bytes) (c : Nat) :
    (exact [b] s c = (.ok (), c + 1) ∧ c < s.length) ∨ exact [b] s c = (.err .guard, c) := by
  rw [exact_byte]
  by_cases h : s[c]? = some b
  · exact Or.inl ⟨by simp [h], getElem?_some_lt h⟩
  · exact Or.inr (by simp [h])

/-- `XrefSubSectP` never panics; when it accepts it has consumed at least one byte that was there -/
theorem xrefSubSectP_total (s : Bytes) (c : Nat) :
    (∃ ss c', xrefSubSectP s c = (.ok ss, c') ∧ c + 1 ≤ c' ∧ c < s.length) ∨
    (∃ k c', xrefSubSectP s c = (.err k, c')) := by
  unfold xrefSubSectP
  rcases wsNoEol_total true s c with ⟨c0, h0, h0a, _⟩ | ⟨k, hk⟩
  rotate_left
  · exact Or.inr ⟨_, k, by rw [hk]; rfl⟩
  rw [h0]; simp only [andThen_ok]
  rcases integerP_total s c0 with ⟨xs, c1, h1, hx1, hx2, h1a, _⟩ | hk
  rotate_left
  · exact Or.inr ⟨_, c0, by rw [hk]; rfl⟩
  rw [h1]; simp only [andThen_ok]
  split
  · exact Or.inr ⟨_, _, rfl⟩
  rename_i hxs
  rcases exact_byte_total 32 s c1 with ⟨h2, h2a⟩ | hk
  rotate_left
  · exact Or.inr ⟨_, c1, by rw [hk]; rfl⟩
  rw [h2]; simp only [andThen_ok]
  rcases integerP_total s (c1 + 1) with ⟨xc, c3, h3, hc1, hc2, h3a, _⟩ | hk
  rotate_left
  · exact Or.inr ⟨_, c1 + 1, by rw [hk]; rfl⟩
  rw [h3]; simp only [andThen_ok]
  split
  · exact Or.inr ⟨_, _, rfl⟩
  rename_i hxc
  rcases wsEol_total false s c3 with ⟨c4, h4, h4a, _⟩ | ⟨k, hk⟩
  rotate_left
  · exact Or.inr ⟨_, k, by rw [hk]; rfl⟩
  rw [h4]; simp only [andThen_ok]
  have hlim : xs.toNat + xc.toNat ≤ usizeLim := by
    have : usizeLim = 2 ^ 64 := rfl
    have : i64Max = 2 ^ 63 - 1 := rfl
    omega
  rcases entsLoop_total xc.toNat xs.toNat s c4 hlim with ⟨l, hl⟩ | ⟨k, c', hk⟩
  · rw [hl]
    exact Or.inl ⟨_, _, rfl, by omega, by omega⟩
  · exact Or.inr ⟨k, c', by rw [hk]; rfl⟩

/-- `sectLoop_fuel_sufficient`: with more fuel than remaining bytes the section loop never runs out
    (every accepted subsection consumes at least one byte) and nothing in it panics -/
theorem sectLoop_fuel_sufficient : ∀ (f : Nat) (s : Bytes) (c : Nat) (first : Bool), s.length - c < f →
    ∀ p c', sectLoop f s c first ≠ (.panic p, c') := by
  intro f
  induction f with
  | zero => intro s c first h; omega
  | succ f ih =>
    intro s c first h p c'
    simp only [sectLoop]
    have hmore : ∀ (m : Step Bool), m = (if first = true then ((.ok true, c) : Step Bool)
        else andThen (wsNoEol true s c) fun _ c1 =>
          if startsHeader s[c1]? = true then (.ok true, c) else (.ok false, c1)) →
        (m = (.ok true, c)) ∨ (∃ c1, m = (.ok false, c1)) ∨ (∃ k c1, m = (.err k, c1)) := by
      intro m hm
      cases first with
      | true => left; simpa using hm
      | false =>
        simp only [Bool.false_eq_true, if_false] at hm
        rcases wsNoEol_total true s c with ⟨c0, h0, _, _⟩ | ⟨k, hk⟩
        · rw [h0] at hm; simp only [andThen_ok] at hm
          split at hm
          · left; exact hm
          · right; left; exact ⟨c0, hm⟩
        · rw [hk] at hm; right; right; exact ⟨_, k, hm⟩
    rcases hmore _ rfl with hm | ⟨c1, hm⟩ | ⟨k, c1, hm⟩
    · rw [hm]
      simp only
      rcases xrefSubSectP_total s c with ⟨ss, c2, hss, hc2, hcs⟩ | ⟨k, c2, hk⟩
      · rw [hss]; simp only
        have := ih s c2 false (by omega)
        cases hl : sectLoop f s c2 false with
        | mk r c3 =>
          cases r with
          | ok l => simp
          | err k => simp
          | panic q => exact absurd hl (this q c3)
      · rw [hk]; simp
    · rw [hm]; simp
    · rw [hm]; simp

/-- C13 (robustness of the table parser): `XrefSectP` never panics, on any input at any cursor -
    the fuel of the two modelled loops suffices, `decr_cursor_unsafe`, `flg[0]` and the debug-build
    `xstart + idx` are unreachable. -/
theorem table_never_panics (s : Bytes) (i : Nat) (p : String) (c : Nat) :
    xrefSectP s i ≠ (.panic p, c) := by
  unfold xrefSectP
  rcases wsEol_total true s i with ⟨c0, h0, _, _⟩ | ⟨k, hk⟩
  rotate_left
  · rw [hk]; simp [andThen]
  rw [h0]; simp only [andThen_ok]
  intro h
  rcases andThen_eq_panic h with h | ⟨_, c1, _, h⟩
  · exact exact_ne_panic _ _ _ _ _ h
  rcases wsEol_total false s c1 with ⟨c2, h2, _, _⟩ | ⟨k, hk⟩
  rotate_left
  · rw [hk] at h; simp [andThen] at h
  rw [h2] at h; simp only [andThen_ok] at h
  rcases andThen_eq_panic h with h | ⟨_, _, _, h⟩
  · exact sectLoop_fuel_sufficient _ s c2 true (by omega) p c h
  · simp at h



/-! ## nothing panics (stream side) -/

theorem rowP_no_panic (w0 w1 w2 obj : Nat) (s : Bytes) (c : Nat) (p : String) (c' : Nat) :
    rowP w0 w1 w2 obj s c ≠ (.panic p, c') := by
  intro h
  unfold rowP at h
  rcases andThen_eq_panic h with h | ⟨t, c0, ht, h⟩
  · split at h
    · simp at h
    · rcases andThen_eq_panic h with h | ⟨f, cc, _, h⟩
      · exact parseUsizeW_no_panic _ _ _ _ _ _ h
      · split at h <;> simp at h
  have ht2 : t ≤ 2 := by
    split at ht
    · simp at ht; omega
    · obtain ⟨f, cc, _, hg⟩ := andThen_eq_ok ht
      split at hg
      · simp at hg
      · simp at hg; omega
  rcases andThen_eq_panic h with h | ⟨f2, c1, _, h⟩
  · exact parseUsizeW_no_panic _ _ _ _ _ _ h
  rcases andThen_eq_panic h with h | ⟨f3, c2, _, h⟩
  · split at h
    · exact parseUsizeW_no_panic _ _ _ _ _ _ h
    · simp at h
  have : t = 0 ∨ t = 1 ∨ t = 2 := by omega
  rcases this with rfl | rfl | rfl <;> simp at h

theorem rowsLoop_no_panic (w0 w1 w2 : Nat) : ∀ (n obj : Nat) (s : Bytes) (c : Nat), obj + n ≤ usizeLim →
    ∀ p c', rowsLoop w0 w1 w2 n obj s c ≠ (.panic p, c') := by
  intro n
  induction n with
  | zero => intro obj s c _ p c'; simp [rowsLoop]
  | succ n ih =>
    intro obj s c hlim p c'
    have hlt : ¬ obj ≥ usizeLim := by omega
    simp only [rowsLoop, hlt, if_false]
    cases hr : rowP w0 w1 w2 obj s c with
    | mk r c1 =>
      cases r with
      | ok e =>
        simp only
        cases hl : rowsLoop w0 w1 w2 n (obj + 1) s c1 with
        | mk r2 c2 =>
          cases r2 with
          | ok es => simp
          | err k => simp
          | panic q => exact absurd hl (ih (obj + 1) s c1 (by omega) q c2)
      | err k => simp
      | panic q => exact absurd hr (rowP_no_panic _ _ _ _ _ _ q c1)

theorem indexLoop_no_panic (w0 w1 w2 : Nat) : ∀ (idx : List (Nat × Nat)) (s : Bytes) (c : Nat),
    (∀ q ∈ idx, q.1 + q.2 ≤ usizeLim) → ∀ p c', indexLoop w0 w1 w2 idx s c ≠ (.panic p, c') := by
  intro idx
  induction idx with
  | nil => intro s c _ p c'; simp [indexLoop]
  | cons q t ih =>
    intro s c hlim p c'
    obtain ⟨st, cnt⟩ := q
    simp only [indexLoop]
    cases hr : rowsLoop w0 w1 w2 cnt st s c with
    | mk r c1 =>
      cases r with
      | ok es =>
        simp only
        cases hl : indexLoop w0 w1 w2 t s c1 with
        | mk r2 c2 =>
          cases r2 with
          | ok es' => simp
          | err k => simp
          | panic q => exact absurd hl (ih s c1 (fun x hx => hlim x (by simp [hx])) q c2)
      | err k => simp
      | panic q => exact absurd hr (rowsLoop_no_panic w0 w1 w2 cnt st s c (hlim (st, cnt) (by simp)) q c1)

/-- C13 (robustness of the stream decoder): with subsection bounds that fit `usize` (they come from
    `i64` dictionary integers: start, count < 2^63) `parse_stream` never panics - the `unhandled
    entry type` arm and the debug-build `start_obj + c` are unreachable -/
theorem parseStream_never_panics (m : DictInfo) (s : Bytes) (i : Nat)
    (hsize : m.size ≤ usizeLim)
    (hidx : ∀ l, m.index = some l → ∀ q ∈ l, q.1 + q.2 ≤ usizeLim) (p : String) (c : Nat) :
    parseStream m s i ≠ (.panic p, c) := by
  unfold parseStream
  apply indexLoop_no_panic
  cases hm : m.index with
  | none => intro q hq; simp at hq; subst hq; simpa using hsize
  | some l => exact hidx l hm



/-! ## the stream decoder equals the slicing spec on every input -/

theorem beVal_lt (l : Bytes) : XrefSpec.beVal l < 256 ^ l.length := by
  induction l with
  | nil => simp [XrefSpec.beVal]
  | cons b t ih =>
    have hb := b.toNat_lt
    simp only [XrefSpec.beVal, List.length_cons, Nat.pow_succ]
    have : b.toNat * 256 ^ t.length ≤ 255 * 256 ^ t.length := Nat.mul_le_mul_right _ (by omega)
    omega

theorem take_succ_drop {s : Bytes} {c : Nat} {b : UInt8} (h : s[c]? = some b) (w : Nat) :
    (s.drop c).take (w + 1) = b :: (s.drop (c + 1)).take w := by
  have hc := getElem?_some_lt h
  rw [List.drop_eq_getElem_cons hc, List.take_succ_cons]
  have : s[c] = b := by
    have := List.getElem?_eq_getElem hc
    rw [this] at h; exact Option.some.inj h
  rw [this]

/-- `parse_usize_with_width` reads the big-endian value of the `w` bytes under the cursor -/
theorem parseUsizeW_window (w : Nat) : ∀ (s : Bytes) (c acc : Nat), c + w ≤ s.length →
    acc * 256 ^ w + XrefSpec.beVal ((s.drop c).take w) < usizeLim →
    parseUsizeW w s c acc = (.ok (acc * 256 ^ w + XrefSpec.beVal ((s.drop c).take w)), c + w) := by
  induction w with
  | zero => intro s c acc _ _; simp [parseUsizeW, XrefSpec.beVal]
  | succ w ih =>
    intro s c acc hlen hlim
    have hc : c < s.length := by omega
    have hb : s[c]? = some s[c] := List.getElem?_eq_getElem hc
    have htl : ((s.drop (c + 1)).take w).length = w := by simp; omega
    rw [take_succ_drop hb] at hlim ⊢
    simp only [XrefSpec.beVal, htl] at hlim ⊢
    have hpow : 256 ^ (w + 1) = 256 * 256 ^ w := by rw [Nat.pow_succ, Nat.mul_comm]
    have hP : 0 < 256 ^ w := Nat.pow_pos (by omega)
    have harith : (acc * 256 + s[c].toNat) * 256 ^ w = acc * (256 * 256 ^ w) + s[c].toNat * 256 ^ w := by
      rw [Nat.add_mul, Nat.mul_assoc]
    have hlt : acc * 256 + s[c].toNat < usizeLim := by
      have : acc * 256 + s[c].toNat ≤ (acc * 256 + s[c].toNat) * 256 ^ w := Nat.le_mul_of_pos_right _ hP
      rw [hpow] at hlim
      omega
    simp only [parseUsizeW, hb, Nat.mod_eq_of_lt hlt]
    rw [ih s (c + 1) _ (by omega) (by rw [harith, ← hpow]; omega)]
    rw [harith, ← hpow]
    simp only [Prod.mk.injEq, Res.ok.injEq]
    omega

theorem parseUsizeW_short (w : Nat) : ∀ (s : Bytes) (c acc : Nat), c ≤ s.length → s.length < c + w →
    ∃ c', parseUsizeW w s c acc = (.err .eob, c') := by
  induction w with
  | zero => intro s c acc h0 h; omega
  | succ w ih =>
    intro s c acc h0 h
    simp only [parseUsizeW]
    cases hb : s[c]? with
    | none => exact ⟨c, rfl⟩
    | some b =>
      have := getElem?_some_lt hb
      exact ih s (c + 1) _ (by omega) (by omega)

theorem field_window (w : Nat) (hw : w ≤ 4) (s : Bytes) (c : Nat) (h : c + w ≤ s.length) :
    parseUsizeW w s c 0 = (.ok (XrefSpec.beVal ((s.drop c).take w)), c + w) := by
  have hl : ((s.drop c).take w).length = w := by simp; omega
  have hb := beVal_lt ((s.drop c).take w)
  rw [hl] at hb
  have := parseUsizeW_window w s c 0 h (by
    have := pow256_le w hw
    have : usizeLim = 18446744073709551616 := by decide
    omega)
  simpa using this

theorem window_sub (s : Bytes) (c n a b : Nat) (h : a + b ≤ n) :
    (((s.drop c).take n).drop a).take b = (s.drop (c + a)).take b := by
  rw [List.drop_take, List.take_take, List.drop_drop]
  have : min b (n - a) = b := by omega
  rw [this]

/-- one row: the sequential reads agree with reading the row by position -/
theorem rowP_spec (w0 w1 w2 obj : Nat) (h0 : w0 ≤ 4) (h1 : w1 ≤ 4) (h2 : w2 ≤ 4) (s : Bytes) (c : Nat)
    (hlen : c + (w0 + w1 + w2) ≤ s.length) :
    match rowMeaning w0 w1 w2 obj ((s.drop c).take (w0 + w1 + w2)) with
    | some e => rowP w0 w1 w2 obj s c = (.ok ⟨e, c, c + (w0 + w1 + w2)⟩, c + (w0 + w1 + w2))
    | none => ∃ c', rowP w0 w1 w2 obj s c = (.err .guard, c') := by
  have e0 : ((s.drop c).take (w0 + w1 + w2)).take w0 = (s.drop c).take w0 := by
    have := window_sub s c (w0 + w1 + w2) 0 w0 (by omega)
    simpa using this
  have e1 : (((s.drop c).take (w0 + w1 + w2)).drop w0).take w1 = (s.drop (c + w0)).take w1 :=
    window_sub s c (w0 + w1 + w2) w0 w1 (by omega)
  have e2 : (((s.drop c).take (w0 + w1 + w2)).drop (w0 + w1)).take w2 = (s.drop (c + w0 + w1)).take w2 := by
    have := window_sub s c (w0 + w1 + w2) (w0 + w1) w2 (by omega)
    rw [this, Nat.add_assoc]
  have hf0 := field_window w0 h0 s c (by omega)
  have hf1 := field_window w1 h1 s (c + w0) (by omega)
  have hf2 := field_window w2 h2 s (c + w0 + w1) (by omega)
  have hc : c + w0 + w1 + w2 = c + (w0 + w1 + w2) := by omega
  unfold rowMeaning rowP
  rw [e0, e1, e2]
  generalize XrefSpec.beVal ((s.drop c).take w0) = t0 at *
  generalize XrefSpec.beVal ((s.drop (c + w0)).take w1) = f2 at *
  generalize XrefSpec.beVal ((s.drop (c + w0 + w1)).take w2) = f3 at *
  have hf3 : (if w2 > 0 then parseUsizeW w2 s (c + w0 + w1) 0 else ((.ok 0, c + w0 + w1) : Step Nat))
      = (.ok f3, c + w0 + w1 + w2) := by
    by_cases hw2 : w2 = 0
    · subst hw2; simp [parseUsizeW] at hf2 ⊢; omega
    · have : w2 > 0 := by omega
      simp only [this, if_true, hf2]
  by_cases hw0 : w0 = 0
  · subst hw0
    simp only [Nat.add_zero, Nat.zero_add] at *
    simp [hf1, hf3, hc]
  · have hne : (w0 == 0) = false := by simp [hw0]
    simp only [hw0, if_false, hne, Bool.false_eq_true, hf0, andThen_ok]
    by_cases ht0 : t0 = 0
    · subst ht0; simp [hf1, hf3, hc]
    · by_cases ht1 : t0 = 1
      · subst ht1; simp [hf1, hf3, hc]
      · by_cases ht2 : t0 = 2
        · subst ht2; simp [hf1, hf3, hc]
        · have : t0 > 2 := by omega
          simp [ht0, ht1, ht2, this]

theorem rowP_short (w0 w1 w2 obj : Nat) (hw1 : 0 < w1) (s : Bytes) (c : Nat)
    (hlen : s.length < c + (w0 + w1 + w2)) : ∃ k c', rowP w0 w1 w2 obj s c = (.err k, c') := by
  cases hr : rowP w0 w1 w2 obj s c with
  | mk r c' =>
    cases r with
    | ok e =>
      have ⟨_, h2, h3⟩ := rowP_ok w0 w1 w2 obj s c e c' hr
      have := h3 hw1; omega
    | err k => exact ⟨k, c', rfl⟩
    | panic p => exact absurd hr (rowP_no_panic _ _ _ _ _ _ p c')

/-- the row loop equals slicing `cnt` rows off the remaining content -/
theorem rowsLoop_spec (w0 w1 w2 : Nat) (h0 : w0 ≤ 4) (h1 : w1 ≤ 4) (h2 : w2 ≤ 4) (hw1 : 0 < w1) :
    ∀ (n obj : Nat) (s : Bytes) (c : Nat), obj + n ≤ usizeLim →
    match sliceRows w0 w1 w2 n obj (s.drop c) with
    | some (es, r) => ∃ l, rowsLoop w0 w1 w2 n obj s c = (.ok l, c + n * (w0 + w1 + w2))
        ∧ l.map (·.val) = es ∧ r = s.drop (c + n * (w0 + w1 + w2))
    | none => ∃ k c', rowsLoop w0 w1 w2 n obj s c = (.err k, c') := by
  intro n
  induction n with
  | zero => intro obj s c _; simp [sliceRows, rowsLoop]
  | succ n ih =>
    intro obj s c hlim
    have hlt : ¬ obj ≥ usizeLim := by omega
    simp only [sliceRows, rowsLoop, hlt, if_false, List.length_drop]
    by_cases hlen : s.length - c < w0 + w1 + w2
    · simp only [hlen, if_true]
      obtain ⟨k, c', hk⟩ := rowP_short w0 w1 w2 obj hw1 s c (by omega)
      exact ⟨k, c', by rw [hk]⟩
    · simp only [hlen, if_false]
      have hrow := rowP_spec w0 w1 w2 obj h0 h1 h2 s c (by omega)
      cases hm : rowMeaning w0 w1 w2 obj ((s.drop c).take (w0 + w1 + w2)) with
      | none =>
        rw [hm] at hrow
        obtain ⟨c', hk⟩ := hrow
        exact ⟨_, c', by rw [hk]⟩
      | some e =>
        rw [hm] at hrow
        simp only at hrow ⊢
        rw [hrow]
        have hih := ih (obj + 1) s (c + (w0 + w1 + w2)) (by omega)
        rw [List.drop_drop]
        cases hs : sliceRows w0 w1 w2 n (obj + 1) (s.drop (c + (w0 + w1 + w2))) with
        | none =>
          rw [hs] at hih
          obtain ⟨k, c', hk⟩ := hih
          exact ⟨k, c', by simp only [hk]⟩
        | some pr =>
          obtain ⟨es, r⟩ := pr
          rw [hs] at hih
          obtain ⟨l, hl, hm2, hr⟩ := hih
          refine ⟨(⟨e, c, c + (w0 + w1 + w2)⟩ : Located Ent) :: l, ?_, by simp [hm2], ?_⟩
          · simp only [hl, Prod.mk.injEq, true_and]
            rw [Nat.succ_mul]; omega
          · rw [hr]; congr 1; rw [Nat.succ_mul]; omega

theorem indexLoop_spec (w0 w1 w2 : Nat) (h0 : w0 ≤ 4) (h1 : w1 ≤ 4) (h2 : w2 ≤ 4) (hw1 : 0 < w1) :
    ∀ (idx : List (Nat × Nat)) (s : Bytes) (c : Nat), (∀ q ∈ idx, q.1 + q.2 ≤ usizeLim) → c ≤ s.length →
    match sliceIndex w0 w1 w2 idx (s.drop c) with
    | some (es, r) => ∃ l c', indexLoop w0 w1 w2 idx s c = (.ok l, c') ∧ l.map (·.val) = es ∧ r = s.drop c'
        ∧ c ≤ c' ∧ c' ≤ s.length
    | none => ∃ k c', indexLoop w0 w1 w2 idx s c = (.err k, c') := by
  intro idx
  induction idx with
  | nil => intro s c _ hc; exact ⟨[], c, rfl, rfl, rfl, Nat.le_refl _, hc⟩
  | cons q t ih =>
    intro s c hlim hc
    obtain ⟨st, cnt⟩ := q
    simp only [sliceIndex, indexLoop]
    have hrows := rowsLoop_spec w0 w1 w2 h0 h1 h2 hw1 cnt st s c (hlim (st, cnt) (by simp))
    cases hs : sliceRows w0 w1 w2 cnt st (s.drop c) with
    | none =>
      rw [hs] at hrows
      obtain ⟨k, c', hk⟩ := hrows
      exact ⟨k, c', by simp only [hk]⟩
    | some pr =>
      obtain ⟨es, r⟩ := pr
      rw [hs] at hrows
      obtain ⟨l, hl, hm, hr⟩ := hrows
      simp only [hl]
      have hcur : c + cnt * (w0 + w1 + w2) ≤ s.length := by
        have ⟨_, hin⟩ := rows_terminate w0 w1 w2 hw1 cnt st s c l _ hl
        by_cases hcnt : 0 < cnt
        · exact hin hcnt
        · have : cnt = 0 := by omega
          subst this; simpa using hc
      have hih := ih s (c + cnt * (w0 + w1 + w2)) (fun x hx => hlim x (by simp [hx])) hcur
      rw [← hr] at hih
      cases hs2 : sliceIndex w0 w1 w2 t r with
      | none =>
        rw [hs2] at hih
        obtain ⟨k, c', hk⟩ := hih
        exact ⟨k, c', by simp only [hk]⟩
      | some pr2 =>
        obtain ⟨es', r'⟩ := pr2
        rw [hs2] at hih
        obtain ⟨l', c', hl', hm', hr', hc', hc2⟩ := hih
        exact ⟨l ++ l', c', by simp only [hl'], by simp [hm, hm'], hr', by omega, hc2⟩


theorem dictMeaning_widths (d : Dict) (idx : List (Nat × Nat)) (w0 w1 w2 : Nat)
    (h : dictMeaning d = some (idx, w0, w1, w2)) : w0 ≤ 4 ∧ w1 ≤ 4 ∧ w2 ≤ 4 ∧ 0 < w1 := by
  unfold dictMeaning at h
  split at h
  · split at h
    · split at h
      · rename_i hwm _
        simp only [Option.some.injEq, Prod.mk.injEq] at h
        obtain ⟨_, rfl, rfl, rfl⟩ := h
        unfold widthsMeaning at hwm
        split at hwm
        · split at hwm
          · rename_i hc
            simp only [Option.some.injEq, Prod.mk.injEq] at hwm
            obtain ⟨rfl, rfl, rfl⟩ := hwm
            omega
          · cases hwm
        · cases hwm
      · cases h
    · cases h
  · cases h

/-- C13 (stream half, every input): for a dictionary without filters, not encrypted, whose
    subsection bounds fit `usize` (they are `i64` integers), `XrefStreamP` accepts exactly when the
    declarative reading accepts - well-formed dictionary, content long enough for all announced
    rows, every type field at most 2 - and then returns exactly the entries obtained by slicing the
    content into rows and fields, numbered from each subsection's start, with the cursor right
    after the last row.  Truncated rows, a type above 2 and every dictionary malformation are
    rejected. -/
theorem xrefstream_spec (d : Dict) (xf : Filter → Bytes → Res Bytes) (s : Bytes) (i : Nat)
    (hi : i ≤ s.length) (hfil : streamFilters d = some [])
    (hrange : ∀ idx w0 w1 w2, dictMeaning d = some (idx, w0, w1, w2) → ∀ q ∈ idx, q.1 + q.2 ≤ usizeLim) :
    match streamMeaning d (s.drop i) with
    | some (es, used) => ∃ l, xrefStreamP false d xf s i = (.ok l, i + used) ∧ l.map (·.val) = es
    | none => ∃ k c, xrefStreamP false d xf s i = (.err k, c) := by
  unfold streamMeaning xrefStreamP
  rcases dictinfo_char d with ⟨herr, hnone | hnone⟩ | ⟨m, hm, hdm, hfs⟩
  · rw [herr, hnone]; exact ⟨_, _, rfl⟩
  · rw [hfil] at hnone; cases hnone
  · obtain ⟨idx, hI, hps⟩ : ∃ idx, infoMeaning m = (idx, m.w0, m.w1, m.w2)
        ∧ parseStream m s i = indexLoop m.w0 m.w1 m.w2 idx s i := by
      cases hmi : m.index with
      | none => exact ⟨[(0, m.size)], by simp [infoMeaning, hmi], by simp [parseStream, hmi]⟩
      | some l => exact ⟨l, by simp [infoMeaning, hmi], by simp [parseStream, hmi]⟩
    rw [hI] at hdm
    rw [hm, hdm]
    rw [hfil] at hfs
    have hfs' : m.filters = [] := (Option.some.inj hfs).symm
    obtain ⟨h0, h1, h2, hw1⟩ := dictMeaning_widths d _ _ _ _ hdm
    have hlim := hrange _ _ _ _ hdm
    simp only [Bool.false_eq_true, if_false, hfs', applyFilters, hps]
    have hspec := indexLoop_spec m.w0 m.w1 m.w2 h0 h1 h2 hw1 idx s i hlim hi
    cases hsl : sliceIndex m.w0 m.w1 m.w2 idx (s.drop i) with
    | none =>
      rw [hsl] at hspec
      exact hspec
    | some pr =>
      obtain ⟨es, r⟩ := pr
      rw [hsl] at hspec
      obtain ⟨l, c', hl, hmap, hr, hc1, hc2⟩ := hspec
      refine ⟨l, ?_, hmap⟩
      rw [hl, hr]
      simp only [List.length_drop, Prod.mk.injEq, true_and]
      omega



theorem encHdr_unlead (t : TSub) (cnt : Nat) : encHdr t cnt = t.lead ++ encHdr (unlead t) cnt := by
  simp [encHdr, unlead]

theorem hdrOk_unlead (t : TSub) (cnt : Nat) (h : hdrOk t cnt) : hdrOk (unlead t) cnt := by
  obtain ⟨a, b, c, d, e, f, _, g⟩ := h
  exact ⟨a, b, c, d, e, f, rfl, g⟩

/-- the same in the FIRST subsection (the shipped code already rejected this) -/
theorem table_malformed_first_subsection_rejected (t : TSub) (cnt : Nat) (hh : hdrOk t cnt)
    (es : List TEnt) (bad : Bytes) (hwf : ∀ e ∈ es, e.wf) (hcnt : es.length < cnt)
    (hr : ∀ b, (es.flatMap encEntry ++ bad).head? = some b → Xref.isWsEol b = false ∧ b ≠ 37)
    (hbad : entryAt bad 0 = none) :
    ∃ k c, xrefSectP (encTable [] ++ (encHdr t cnt ++ (es.flatMap encEntry ++ bad))) 0 = (.err k, c) := by
  obtain ⟨hws, hlead⟩ : 0 < t.wStart ∧ t.lead.all XrefSpec.isBlank = true := ⟨hh.2.2.1, hh.2.2.2.2.2.2.1⟩
  obtain ⟨d0, t0, hd0, hdig0⟩ := padDec_head t.wStart t.start hws
  have hbody : encHdr (unlead t) cnt ++ (es.flatMap encEntry ++ bad)
      = d0 :: (t0 ++ ([32] ++ padDec t.wCount cnt ++ t.hdrEol) ++ (es.flatMap encEntry ++ bad)) := by
    simp [encHdr, unlead, hd0]
  have hS : encTable [] ++ (encHdr t cnt ++ (es.flatMap encEntry ++ bad))
      = kwXref ++ ([10] ++ t.lead ++ (encHdr (unlead t) cnt ++ (es.flatMap encEntry ++ bad))) := by
    simp [encTable, encHdr_unlead t cnt]
  obtain ⟨hP, hd5⟩ := xrefSectP_start t.lead (encHdr (unlead t) cnt ++ (es.flatMap encEntry ++ bad)) hlead
    ⟨d0, _, hbody, hdig0⟩
  rw [hS]
  generalize kwXref ++ ([10] ++ t.lead ++ (encHdr (unlead t) cnt ++ (es.flatMap encEntry ++ bad))) = S at *
  have hsub := subsect_malformed_rejected (unlead t) cnt (hdrOk_unlead t cnt hh) es bad hwf hcnt S _ hd5 hr (by
    have h1 := drop_step hd5
    have h2 := drop_step h1
    rw [encEntries_length] at h2
    unfold entryAt at hbad ⊢
    rw [h2]; simpa using hbad)
  obtain ⟨k, c', hk⟩ := sect_error [] (S.length - (4 + (1 + t.lead.length)) + 2) S
    (4 + (1 + t.lead.length)) _ true (by simp) (by simp) (by simpa using hd5)
    ⟨[], d0, _, hbody, rfl, hdig0⟩ (by simpa using hsub)
  exact ⟨k, c', by rw [hP, hk]; rfl⟩

/-- C13: a malformed entry is rejected wherever it sits - after any number (zero or more) of
    well-formed subsections -/
theorem table_malformed_rejected (subs : List TSub) (hok : ∀ t ∈ subs, subOk t)
    (t : TSub) (cnt : Nat) (hh : hdrOk t cnt) (es : List TEnt) (bad : Bytes)
    (hwf : ∀ e ∈ es, e.wf) (hcnt : es.length < cnt)
    (hr : ∀ b, (es.flatMap encEntry ++ bad).head? = some b → Xref.isWsEol b = false ∧ b ≠ 37)
    (hbad : entryAt bad 0 = none) :
    ∃ k c, xrefSectP (encTable subs ++ (encHdr t cnt ++ (es.flatMap encEntry ++ bad))) 0 = (.err k, c) := by
  cases subs with
  | nil => exact table_malformed_first_subsection_rejected t cnt hh es bad hwf hcnt hr hbad
  | cons a b =>
    exact table_malformed_later_subsection_rejected (a :: b) (by simp) hok t cnt hh es bad hwf hcnt hr hbad

/-! ## defect #32: witness on the code as shipped, and the fixed code on the same input -/


/-- `xref LF 0 1 LF 0000000000 65535 f SP LF 5 1 LF 000000003 00000 n SP LF trailer`:
    the entry of the second subsection has a 9-digit offset -/
def witnessBytes : Bytes :=
  [120,114,101,102,10, 48,32,49,10,
   48,48,48,48,48,48,48,48,48,48,32,54,53,53,51,53,32,102,32,10,
   53,32,49,10,
   48,48,48,48,48,48,48,48,51,32,48,48,48,48,48,32,110,32,10,
   116,114,97,105,108,101,114]

/-- observable part of a section parse: the entries and the cursor when accepted -/
def accepted (r : Res (Located (List (Located SubSect))) × Nat) : Option (List Ent × Nat) :=
  match r with
  | (.ok v, c) => some (sectEnts v.val, c)
  | _ => none

/-- Defect #32 as shipped: the loop before fix C13-01 accepts the table and silently drops the
    second subsection (one entry, cursor left inside the malformed entry) … -/
theorem old_loop_truncates_witness :
    accepted (xrefSectPOld witnessBytes 0) = some ([⟨0, 65535, .free 0⟩], 43) := by
  decide +kernel

/-- … the fixed loop rejects it. -/
theorem fixed_loop_rejects_witness : xrefSectP witnessBytes 0 = (.err .guard, 43) := by
  decide +kernel

instance (t : TSub) (cnt : Nat) : Decidable (hdrOk t cnt) := by unfold hdrOk; infer_instance
instance (w0 w1 w2 : Nat) (e : SEnt) : Decidable (e.fits w0 w1 w2) := by unfold SEnt.fits; infer_instance

/-! ## non-vacuity: the hypotheses of the theorems above are satisfiable by non-trivial instances -/

def exE0 : TEnt := { info := 0, gen := 65535, inuse := false, eol := .spLf }
def exE1 : TEnt := { info := 1234567890, gen := 7, inuse := true, eol := .crLf }
def exE2 : TEnt := { info := 17, gen := 0, inuse := true, eol := .spCr }
def exSubs : List TSub :=
  [{ start := 0, wStart := 1, wCount := 1, lead := [], hdrEol := [10], ents := [exE0] },
   { start := 5, wStart := 3, wCount := 2, lead := [32, 9], hdrEol := [32, 13, 10], ents := [exE1, exE2] }]
def exRest : Bytes := [32, 116, 114, 97, 105, 108, 101, 114]   -- " trailer"

/-- `table_roundtrip` applies to a two-subsection table with all three terminators, leading zeros
    and blanks, followed by " trailer" … -/
example : exSubs ≠ [] ∧ (∀ t ∈ exSubs, subOk t) ∧ endsSection exRest = true := by
  refine ⟨by decide, ?_, by decide⟩
  intro t ht
  simp only [exSubs, List.mem_cons, List.not_mem_nil, or_false] at ht
  rcases ht with rfl | rfl <;> exact ⟨by decide, by decide⟩

/-- … and what it yields there is what the executable model computes (a test of the statement on
    one instance, not a proof): objects 0, 5, 6. -/
example : accepted (xrefSectP (encTable exSubs ++ exRest) 0) =
    some ([⟨0, 65535, .free 0⟩, ⟨5, 7, .inUse 1234567890⟩, ⟨6, 0, .inUse 17⟩], 81) := by
  decide +kernel

/-- `table_malformed_later_subsection_rejected` applies: a second subsection announcing 2 entries,
    one good entry, then an entry with generation 65536 -/
example : hdrOk { start := 5, wStart := 1, wCount := 1, lead := [], hdrEol := [10], ents := [] } 2
    ∧ entryAt (encEntry { exE1 with gen := 65536 }) 0 = none
    ∧ (∀ b, ([exE2].flatMap encEntry ++ encEntry { exE1 with gen := 65536 }).head? = some b →
        Xref.isWsEol b = false ∧ b ≠ 37) := by
  refine ⟨by decide, by decide +kernel, ?_⟩
  intro b hb
  have : ([exE2].flatMap encEntry ++ encEntry { exE1 with gen := 65536 }).head? = some 48 := by decide +kernel
  rw [this] at hb; cases hb; decide

/-- `entry_malformed_rejected`: `0000000000 65535 f LF LF` is not in the 20-byte form -/
example : entryAt ([48,48,48,48,48,48,48,48,48,48,32,54,53,53,51,53,32,102,10,10] : Bytes) 0 = none := by
  decide

/-- `xrefstream_rows_roundtrip` applies: widths [1 2 1], `/Index [5 2 9 1]` -/
example : ∃ m : DictInfo, ∃ subs : List (Nat × List SEnt),
    m.w0 ≤ 4 ∧ m.w1 ≤ 4 ∧ m.w2 ≤ 4 ∧ m.index = some (indexOf subs)
    ∧ (∀ p ∈ subs, ∀ e ∈ p.2, e.fits m.w0 m.w1 m.w2) ∧ (∀ p ∈ subs, p.1 + p.2.length ≤ usizeLim)
    ∧ totalRows subs = 3 :=
  ⟨⟨10, none, some [(5, 2), (9, 1)], 1, 2, 1, []⟩,
   [(5, [⟨1, 65535, 255⟩, ⟨0, 0, 7⟩]), (9, [⟨2, 12, 3⟩])], by decide, by decide, by decide, rfl,
   by decide, by decide, rfl⟩

/-- … and with no type field (`/W [0 2 0]`) every row is type 1 with generation 0 (test on one instance) -/
example : (parseStream ⟨2, none, none, 0, 2, 0, []⟩ [0x12, 0x34, 0xff, 0xff] 0)
    = (.ok [⟨⟨0, 0, .inUse 0x1234⟩, 0, 2⟩, ⟨⟨1, 0, .inUse 0xffff⟩, 2, 4⟩], 4) := by decide

def exDictBadW : Dict :=
  [(sType, .atom (.name sXRef)), (sSize, .atom (.int 3)), (sW, .arr [.int 1, .int 0, .int 1])]
def exDictOddIndex : Dict :=
  [(sType, .atom (.name sXRef)), (sSize, .atom (.int 3)), (sW, .arr [.int 1, .int 2, .int 1]),
   (sIndex, .arr [.int 0, .int 1, .int 7])]
def exDictGood : Dict :=
  [(sType, .atom (.name sXRef)), (sSize, .atom (.int 9)), (sW, .arr [.int 1, .int 2, .int 0]),
   (sIndex, .arr [.int 3, .int 2, .int 7, .int 1])]

/-- `dictinfo_rejects` applies (zero second width; odd `/Index`), `dictinfo_accepts` applies -/
example : dictMeaning exDictBadW = none ∧ dictMeaning exDictOddIndex = none
    ∧ dictMeaning exDictGood = some ([(3, 2), (7, 1)], 1, 2, 0) ∧ streamFilters exDictGood = some [] := by
  decide

/-- `rows_hostile_count_rejected` applies: `/Size 2^63-1` over 4 bytes of data -/
example : (4 : Nat) - 0 < 2 ^ 63 - 1 ∧
    rowsLoop 1 2 1 (2 ^ 63 - 1) 0 [1, 0, 16, 0] 0 = (.err .eob, 4) := by
  refine ⟨by decide, ?_⟩
  have h : (2 : Nat) ^ 63 - 1 = (2 ^ 63 - 3) + 1 + 1 := by decide
  rw [h]
  simp [rowsLoop, rowP, parseUsizeW, andThen, usizeLim]

end Parsley.C13
