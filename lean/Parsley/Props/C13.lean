/-
  C13 - Cross-reference tables and streams decode to the entries written.
  Property theorems; helper lemmas are in `Parsley/Lemmas/Xref.lean`.
-/
import Parsley.Lemmas.Xref
namespace Parsley.C13
open Parsley Parsley.Xref Parsley.XrefSpec

/-! ## cross-reference streams -/

/-- C13 (stream half): for every width triple in {0..4}³, every list of `/Index` subsections (or the
    implicit single one from 0 to `/Size`) and every list of rows fitting the widths, the row decoder
    returns exactly those entries numbered consecutively from each subsection's start, and stops right
    after the last row. -/
theorem xrefstream_rows_roundtrip (m : DictInfo) (subs : List (Nat × List SEnt))
    (s : Bytes) (c : Nat) (rest : Bytes)
    (h0 : m.w0 ≤ 4) (h1 : m.w1 ≤ 4) (h2 : m.w2 ≤ 4)
    (hidx : m.index = some (indexOf subs) ∨ (m.index = none ∧ ∃ es, subs = [(0, es)] ∧ m.size = es.length))
    (hs : s.drop c = (subs.flatMap fun p => encRows m.w0 m.w1 m.w2 p.2) ++ rest)
    (hf : ∀ p ∈ subs, ∀ e ∈ p.2, e.fits m.w0 m.w1 m.w2)
    (hlim : ∀ p ∈ subs, p.1 + p.2.length ≤ usizeLim) :
    ∃ l, parseStream m s c = (.ok l, c + totalRows subs * (m.w0 + m.w1 + m.w2))
      ∧ l.map (·.val) = streamEnts subs := by
  have hi : (match m.index with | some l => l | none => [(0, m.size)]) = indexOf subs := by
    rcases hidx with h | ⟨h, es, rfl, hsz⟩
    · rw [h]
    · rw [h]; simp [indexOf, hsz]
  show ∃ l, indexLoop m.w0 m.w1 m.w2 (match m.index with | some l => l | none => [(0, m.size)]) s c = _ ∧ _
  rw [hi]
  exact index_roundtrip m.w0 m.w1 m.w2 h0 h1 h2 subs s c rest hs hf hlim

/-- C13 numbering (stream): whatever the input, the entries a subsection yields are numbered
    consecutively from its start, and there are exactly `count` of them. -/
theorem rows_numbering (w0 w1 w2 : Nat) : ∀ (n obj : Nat) (s : Bytes) (c : Nat) (l : List (Located Ent)) (c' : Nat),
    rowsLoop w0 w1 w2 n obj s c = (.ok l, c') →
    l.length = n ∧ ∀ k (h : k < l.length), (l[k]).val.obj = obj + k := by
  intro n
  induction n with
  | zero => intro obj s c l c' h; simp [rowsLoop] at h; obtain ⟨rfl, _⟩ := h; simp
  | succ n ih =>
    intro obj s c l c' h
    simp only [rowsLoop] at h
    split at h
    · simp at h
    · cases hr : rowP w0 w1 w2 obj s c with
      | mk r c1 =>
        cases r with
        | ok e =>
          simp only [hr] at h
          cases hl : rowsLoop w0 w1 w2 n (obj + 1) s c1 with
          | mk r2 c2 =>
            cases r2 with
            | ok es =>
              simp only [hl] at h
              simp only [Prod.mk.injEq, Res.ok.injEq] at h
              obtain ⟨rfl, _⟩ := h
              have ⟨hlen, hnum⟩ := ih (obj + 1) s c1 es c2 hl
              have ho := (rowP_ok w0 w1 w2 obj s c e c1 hr).1
              refine ⟨by simp [hlen], fun k hk => ?_⟩
              cases k with
              | zero => simpa using ho
              | succ k =>
                simp only [List.getElem_cons_succ]
                rw [hnum k (by simpa using hk)]; omega
            | err k => simp [hl] at h
            | panic p => simp [hl] at h
        | err k => simp [hr] at h
        | panic p => simp [hr] at h

/-- C13 `rows_terminate`: with a non-zero second width every decoded row consumes at least one
    byte and stays inside the buffer; so a successful run over `n` rows needs `n ≤ remaining`
    bytes – a hostile `/Size` or `/Index` count cannot make the loop run past the data: it fails
    at the first missing row. -/
theorem rows_terminate (w0 w1 w2 : Nat) (hw1 : 0 < w1) : ∀ (n obj : Nat) (s : Bytes) (c : Nat)
    (l : List (Located Ent)) (c' : Nat),
    rowsLoop w0 w1 w2 n obj s c = (.ok l, c') → c + n ≤ c' ∧ (0 < n → c' ≤ s.length) := by
  intro n
  induction n with
  | zero => intro obj s c l c' h; simp [rowsLoop] at h; omega
  | succ n ih =>
    intro obj s c l c' h
    simp only [rowsLoop] at h
    split at h
    · simp at h
    · cases hr : rowP w0 w1 w2 obj s c with
      | mk r c1 =>
        cases r with
        | ok e =>
          simp only [hr] at h
          cases hl : rowsLoop w0 w1 w2 n (obj + 1) s c1 with
          | mk r2 c2 =>
            cases r2 with
            | ok es =>
              simp only [hl] at h
              simp only [Prod.mk.injEq, Res.ok.injEq] at h
              obtain ⟨_, rfl⟩ := h
              have ⟨_, hc1, hin⟩ := rowP_ok w0 w1 w2 obj s c e c1 hr
              have ⟨h1, h2⟩ := ih (obj + 1) s c1 es c2 hl
              refine ⟨by omega, fun _ => ?_⟩
              by_cases hn : 0 < n
              · exact h2 hn
              · have : n = 0 := by omega
                subst this
                simp [rowsLoop] at hl
                have := hin hw1; omega
            | err k => simp [hl] at h
            | panic p => simp [hl] at h
        | err k => simp [hr] at h
        | panic p => simp [hr] at h

theorem rows_hostile_count_rejected (w0 w1 w2 : Nat) (hw1 : 0 < w1) (n obj : Nat) (s : Bytes) (c : Nat)
    (hc : c ≤ s.length) (hn : s.length - c < n) (l : List (Located Ent)) (c' : Nat) :
    rowsLoop w0 w1 w2 n obj s c ≠ (.ok l, c') := by
  intro h
  have ⟨h1, h2⟩ := rows_terminate w0 w1 w2 hw1 n obj s c l c' h
  have := h2 (by omega)
  omega

/-! ## the stream dictionary -/

/-- what the decoded dictionary information means: the subsections and the widths -/
def infoMeaning (m : DictInfo) : List (Nat × Nat) × Nat × Nat × Nat :=
  (match m.index with | some l => l | none => [(0, m.size)], m.w0, m.w1, m.w2)

theorem dictinfo_char (d : Dict) :
    (getDictInfo d = .err .guard ∧ (dictMeaning d = none ∨ streamFilters d = none)) ∨
    (∃ m, getDictInfo d = .ok m ∧ dictMeaning d = some (infoMeaning m) ∧ streamFilters d = some m.filters) := by
  rw [getDictInfo_eq]
  unfold dictMeaning
  cases nameVal (lookup d sType) with
  | none => left; exact ⟨rfl, Or.inl rfl⟩
  | some t =>
    by_cases ht : t = sXRef
    · simp only [ht, if_true]
      cases natVal (lookup d sSize) with
      | none => left; exact ⟨rfl, Or.inl rfl⟩
      | some size =>
        have hI := modelIndex_eq size (arrVal (lookup d sIndex))
        cases hmi : modelIndex (arrVal (lookup d sIndex)) with
        | none =>
          rw [hmi] at hI
          left; refine ⟨rfl, Or.inl ?_⟩
          simp only [Option.map_none] at hI
          cases arrVal (lookup d sW) with
          | none => rfl
          | some w => simp only [← hI]; cases widthsMeaning w <;> rfl
        | some index =>
          rw [hmi] at hI
          simp only [Option.map_some] at hI
          simp only [modelTail]
          cases arrVal (lookup d sW) with
          | none => left; exact ⟨rfl, Or.inl rfl⟩
          | some w =>
            simp only [modelWidths_eq w]
            cases widthsMeaning w with
            | none => left; exact ⟨rfl, Or.inl rfl⟩
            | some ws =>
              obtain ⟨w0, w1, w2⟩ := ws
              simp only [← hI]
              cases hf : streamFilters d with
              | none => left; exact ⟨rfl, Or.inr rfl⟩
              | some fs => right; exact ⟨_, rfl, rfl, rfl⟩
    · left
      simp only [ht, if_false]
      refine ⟨trivial, Or.inl ?_⟩
      cases natVal (lookup d sSize) <;> cases arrVal (lookup d sW) <;> simp [ht]

/-- C13 `dictinfo_rejects`: a dictionary that is malformed in any of the listed ways (no or wrong
    `/Type`, no valid `/Size`, odd-length or non-integer or negative `/Index`, no `/W`, `/W` not of
    length 3, a width that is not an integer in 0..4, a zero second width - i.e. `dictMeaning = none`)
    or whose filter description is inconsistent is rejected with a GuardError … -/
theorem dictinfo_rejects (d : Dict) (h : dictMeaning d = none ∨ streamFilters d = none) :
    getDictInfo d = .err .guard := by
  rcases dictinfo_char d with ⟨h1, _⟩ | ⟨m, _, h2, h3⟩
  · exact h1
  · rcases h with h | h
    · rw [h] at h2; cases h2
    · rw [h] at h3; cases h3

/-- … and conversely every other dictionary is accepted with exactly the subsections and widths
    it denotes (so rejection ⇔ malformed). -/
theorem dictinfo_accepts (d : Dict) (x : List (Nat × Nat) × Nat × Nat × Nat) (fs : List Filter)
    (h1 : dictMeaning d = some x) (h2 : streamFilters d = some fs) :
    ∃ m, getDictInfo d = .ok m ∧ infoMeaning m = x ∧ m.filters = fs := by
  rcases dictinfo_char d with ⟨_, h | h⟩ | ⟨m, hm, h3, h4⟩
  · rw [h] at h1; cases h1
  · rw [h] at h2; cases h2
  · refine ⟨m, hm, ?_, ?_⟩
    · rw [h3] at h1; exact (Option.some.inj h1)
    · rw [h4] at h2; exact (Option.some.inj h2)

theorem dictinfo_never_panics (d : Dict) (p : String) : getDictInfo d ≠ .panic p := by
  rcases dictinfo_char d with ⟨h1, _⟩ | ⟨m, h1, _⟩ <;> rw [h1] <;> simp

end Parsley.C13
