/-
  C13 - Cross-reference tables and streams decode to the entries written.
  Property theorems; helper lemmas are in `Parsley/Lemmas/Xref.lean`.
-/
import Parsley.Lemmas.Xref
namespace Parsley.C13
open Parsley Parsley.Xref Parsley.XrefSpec

/-! ## cross-reference streams -/

/-- C13 (stream half): for every width triple in {0..4}³, every list of `/Index` subsections (or the
    implicit single one from 0 to `/Size`) and every list of rows fitting the widths, the row decoder
    returns exactly those entries numbered consecutively from each subsection's start, and stops right
    after the last row. -/
theorem xrefstream_rows_roundtrip (m : DictInfo) (subs : List (Nat × List SEnt))
    (s : Bytes) (c : Nat) (rest : Bytes)
    (h0 : m.w0 ≤ 4) (h1 : m.w1 ≤ 4) (h2 : m.w2 ≤ 4)
    (hidx : m.index = some (indexOf subs) ∨ (m.index = none ∧ ∃ es, subs = [(0, es)] ∧ m.size = es.length))
    (hs : s.drop c = (subs.flatMap fun p => encRows m.w0 m.w1 m.w2 p.2) ++ rest)
    (hf : ∀ p ∈ subs, ∀ e ∈ p.2, e.fits m.w0 m.w1 m.w2)
    (hlim : ∀ p ∈ subs, p.1 + p.2.length ≤ usizeLim) :
    ∃ l, parseStream m s c = (.ok l, c + totalRows subs * (m.w0 + m.w1 + m.w2))
      ∧ l.map (·.val) = streamEnts subs := by
  have hi : (match m.index with | some l => l | none => [(0, m.size)]) = indexOf subs := by
    rcases hidx with h | ⟨h, es, rfl, hsz⟩
    · rw [h]
    · rw [h]; simp [indexOf, hsz]
  show ∃ l, indexLoop m.w0 m.w1 m.w2 (match m.index with | some l => l | none => [(0, m.size)]) s c = _ ∧ _
  rw [hi]
  exact index_roundtrip m.w0 m.w1 m.w2 h0 h1 h2 subs s c rest hs hf hlim

/-- C13 numbering (stream): whatever the input, the entries a subsection yields are numbered
    consecutively from its start, and there are exactly `count` of them. -/
theorem rows_numbering (w0 w1 w2 : Nat) : ∀ (n obj : Nat) (s : Bytes) (c : Nat) (l : List (Located Ent)) (c' : Nat),
    rowsLoop w0 w1 w2 n obj s c = (.ok l, c') →
    l.length = n ∧ ∀ k (h : k < l.length), (l[k]).val.obj = obj + k := by
  intro n
  induction n with
  | zero => intro obj s c l c' h; simp [rowsLoop] at h; obtain ⟨rfl, _⟩ := h; simp
  | succ n ih =>
    intro obj s c l c' h
    simp only [rowsLoop] at h
    split at h
    · simp at h
    · cases hr : rowP w0 w1 w2 obj s c with
      | mk r c1 =>
        cases r with
        | ok e =>
          simp only [hr] at h
          cases hl : rowsLoop w0 w1 w2 n (obj + 1) s c1 with
          | mk r2 c2 =>
            cases r2 with
            | ok es =>
              simp only [hl] at h
              simp only [Prod.mk.injEq, Res.ok.injEq] at h
              obtain ⟨rfl, _⟩ := h
              have ⟨hlen, hnum⟩ := ih (obj + 1) s c1 es c2 hl
              have ho := (rowP_ok w0 w1 w2 obj s c e c1 hr).1
              refine ⟨by simp [hlen], fun k hk => ?_⟩
              cases k with
              | zero => simpa using ho
              | succ k =>
                simp only [List.getElem_cons_succ]
                rw [hnum k (by simpa using hk)]; omega
            | err k => simp [hl] at h
            | panic p => simp [hl] at h
        | err k => simp [hr] at h
        | panic p => simp [hr] at h

/-- C13 `rows_terminate`: with a non-zero second width every decoded row consumes at least one
    byte and stays inside the buffer; so a successful run over `n` rows needs `n ≤ remaining`
    bytes – a hostile `/Size` or `/Index` count cannot make the loop run past the data: it fails
    at the first missing row. -/
theorem rows_terminate (w0 w1 w2 : Nat) (hw1 : 0 < w1) : ∀ (n obj : Nat) (s : Bytes) (c : Nat)
    (l : List (Located Ent)) (c' : Nat),
    rowsLoop w0 w1 w2 n obj s c = (.ok l, c') → c + n ≤ c' ∧ (0 < n → c' ≤ s.length) := by
  intro n
  induction n with
  | zero => intro obj s c l c' h; simp [rowsLoop] at h; omega
  | succ n ih =>
    intro obj s c l c' h
    simp only [rowsLoop] at h
    split at h
    · simp at h
    · cases hr : rowP w0 w1 w2 obj s c with
      | mk r c1 =>
        cases r with
        | ok e =>
          simp only [hr] at h
          cases hl : rowsLoop w0 w1 w2 n (obj + 1) s c1 with
          | mk r2 c2 =>
            cases r2 with
            | ok es =>
              simp only [hl] at h
              simp only [Prod.mk.injEq, Res.ok.injEq] at h
              obtain ⟨_, rfl⟩ := h
              have ⟨_, hc1, hin⟩ := rowP_ok w0 w1 w2 obj s c e c1 hr
              have ⟨h1, h2⟩ := ih (obj + 1) s c1 es c2 hl
              refine ⟨by omega, fun _ => ?_⟩
              by_cases hn : 0 < n
              · exact h2 hn
              · have : n = 0 := by omega
                subst this
                simp [rowsLoop] at hl
                have := hin hw1; omega
            | err k => simp [hl] at h
            | panic p => simp [hl] at h
        | err k => simp [hr] at h
        | panic p => simp [hr] at h

theorem rows_hostile_count_rejected (w0 w1 w2 : Nat) (hw1 : 0 < w1) (n obj : Nat) (s : Bytes) (c : Nat)
    (hc : c ≤ s.length) (hn : s.length - c < n) (l : List (Located Ent)) (c' : Nat) :
    rowsLoop w0 w1 w2 n obj s c ≠ (.ok l, c') := by
  intro h
  have ⟨h1, h2⟩ := rows_terminate w0 w1 w2 hw1 n obj s c l c' h
  have := h2 (by omega)
  omega

/-! ## the stream dictionary -/

/-- what the decoded dictionary information means: the subsections and the widths -/
def infoMeaning (m : DictInfo) : List (Nat × Nat) × Nat × Nat × Nat :=
  (match m.index with | some l => l | none => [(0, m.size)], m.w0, m.w1, m.w2)

theorem dictinfo_char (d : Dict) :
    (getDictInfo d = .err .guard ∧ (dictMeaning d = none ∨ streamFilters d = none)) ∨
    (∃ m, getDictInfo d = .ok m ∧ dictMeaning d = some (infoMeaning m) ∧ streamFilters d = some m.filters) := by
  rw [getDictInfo_eq]
  unfold dictMeaning
  cases nameVal (lookup d sType) with
  | none => left; exact ⟨rfl, Or.inl rfl⟩
  | some t =>
    by_cases ht : t = sXRef
    · simp only [ht, if_true]
      cases natVal (lookup d sSize) with
      | none => left; exact ⟨rfl, Or.inl rfl⟩
      | some size =>
        have hI := modelIndex_eq size (arrVal (lookup d sIndex))
        cases hmi : modelIndex (arrVal (lookup d sIndex)) with
        | none =>
          rw [hmi] at hI
          left; refine ⟨rfl, Or.inl ?_⟩
          simp only [Option.map_none] at hI
          cases arrVal (lookup d sW) with
          | none => rfl
          | some w => simp only [← hI]; cases widthsMeaning w <;> rfl
        | some index =>
          rw [hmi] at hI
          simp only [Option.map_some] at hI
          simp only [modelTail]
          cases arrVal (lookup d sW) with
          | none => left; exact ⟨rfl, Or.inl rfl⟩
          | some w =>
            simp only [modelWidths_eq w]
            cases widthsMeaning w with
            | none => left; exact ⟨rfl, Or.inl rfl⟩
            | some ws =>
              obtain ⟨w0, w1, w2⟩ := ws
              simp only [← hI]
              cases hf : streamFilters d with
              | none => left; exact ⟨rfl, Or.inr rfl⟩
              | some fs => right; exact ⟨_, rfl, rfl, rfl⟩
    · left
      simp only [ht, if_false]
      refine ⟨trivial, Or.inl ?_⟩
      cases natVal (lookup d sSize) <;> cases arrVal (lookup d sW) <;> simp [ht]

/-- C13 `dictinfo_rejects`: a dictionary that is malformed in any of the listed ways (no or wrong
    `/Type`, no valid `/Size`, odd-length or non-integer or negative `/Index`, no `/W`, `/W` not of
    length 3, a width that is not an integer in 0..4, a zero second width - i.e. `dictMeaning = none`)
    or whose filter description is inconsistent is rejected with a GuardError … -/
theorem dictinfo_rejects (d : Dict) (h : dictMeaning d = none ∨ streamFilters d = none) :
    getDictInfo d = .err .guard := by
  rcases dictinfo_char d with ⟨h1, _⟩ | ⟨m, _, h2, h3⟩
  · exact h1
  · rcases h with h | h
    · rw [h] at h2; cases h2
    · rw [h] at h3; cases h3

/-- … and conversely every other dictionary is accepted with exactly the subsections and widths
    it denotes (so rejection ⇔ malformed). -/
theorem dictinfo_accepts (d : Dict) (x : List (Nat × Nat) × Nat × Nat × Nat) (fs : List Filter)
    (h1 : dictMeaning d = some x) (h2 : streamFilters d = some fs) :
    ∃ m, getDictInfo d = .ok m ∧ infoMeaning m = x ∧ m.filters = fs := by
  rcases dictinfo_char d with ⟨_, h | h⟩ | ⟨m, hm, h3, h4⟩
  · rw [h] at h1; cases h1
  · rw [h] at h2; cases h2
  · refine ⟨m, hm, ?_, ?_⟩
    · rw [h3] at h1; exact (Option.some.inj h1)
    · rw [h4] at h2; exact (Option.some.inj h2)

theorem dictinfo_never_panics (d : Dict) (p : String) : getDictInfo d ≠ .panic p := by
  rcases dictinfo_char d with ⟨h1, _⟩ | ⟨m, h1, _⟩ <;> rw [h1] <;> simp

/-! ## the classic table -/

/-- C13 `entry_malformed_rejected`, as an equivalence.  `XrefEntP` accepts exactly when the 20 bytes
    under the cursor are in the fixed form (10 digits, SP, 5 digits with value ≤ 65535, SP, `f`|`n`,
    one of the three terminators); then the entry, its span `[i, i+20)` and the cursor `i+20` are as
    specified.  Anything else - too short, a non-digit, a wrong separator, generation above 65535,
    another type letter, another terminator - is rejected; it never panics. -/
theorem entry_spec (idx : Nat) (s : Bytes) (i : Nat) :
    match entryAt s i with
    | some x => xrefEntP idx s i = (.ok ⟨mkEnt idx x, i, i + 20⟩, i + 20)
    | none => ∃ k c, xrefEntP idx s i = (.err k, c) := by
  by_cases h : i + 20 ≤ s.length
  · have ⟨h1, h2⟩ := ent_long idx s i h
    cases hx : entryAt s i with
    | some x => exact h1 x hx
    | none => obtain ⟨c, hc⟩ := h2 hx; exact ⟨_, c, hc⟩
  · rw [entryAt_short s i h]
    cases hr : xrefEntP idx s i with
    | mk r c =>
      cases r with
      | ok e => exact absurd (ent_ok_len idx s i e c hr) h
      | err k => exact ⟨k, c, rfl⟩
      | panic p => exact absurd hr (ent_no_panic idx s i p c)

theorem entry_malformed_rejected (idx : Nat) (s : Bytes) (i : Nat) (h : entryAt s i = none) :
    ∃ k c, xrefEntP idx s i = (.err k, c) := by
  have := entry_spec idx s i
  rw [h] at this; exact this

theorem entry_ok_inv (idx : Nat) (s : Bytes) (i : Nat) (e : Located Ent) (c : Nat)
    (h : xrefEntP idx s i = (.ok e, c)) :
    ∃ x, entryAt s i = some x ∧ e = ⟨mkEnt idx x, i, i + 20⟩ ∧ c = i + 20 := by
  have := entry_spec idx s i
  cases hx : entryAt s i with
  | some x =>
    rw [hx] at this; simp only at this
    rw [this] at h
    simp only [Prod.mk.injEq, Res.ok.injEq] at h
    exact ⟨x, rfl, h.1.symm, h.2.symm⟩
  | none =>
    rw [hx] at this
    obtain ⟨k, c', hk⟩ := this
    rw [hk] at h; simp at h

/-- numbering and count of a subsection's entries, whatever the input -/
theorem ents_numbering : ∀ (n obj : Nat) (s : Bytes) (c : Nat) (l : List (Located Ent)) (c' : Nat),
    entsLoop n obj s c = (.ok l, c') →
    l.length = n ∧ c' = c + 20 * n ∧ ∀ k (h : k < l.length), (l[k]).val.obj = obj + k := by
  intro n
  induction n with
  | zero => intro obj s c l c' h; simp [entsLoop] at h; obtain ⟨rfl, rfl⟩ := h; simp
  | succ n ih =>
    intro obj s c l c' h
    simp only [entsLoop] at h
    split at h
    · simp at h
    · cases hr : xrefEntP obj s c with
      | mk r c1 =>
        cases r with
        | ok e =>
          simp only [hr] at h
          cases hl : entsLoop n (obj + 1) s c1 with
          | mk r2 c2 =>
            cases r2 with
            | ok es =>
              simp only [hl] at h
              simp only [Prod.mk.injEq, Res.ok.injEq] at h
              obtain ⟨rfl, rfl⟩ := h
              have ⟨hlen, hcur, hnum⟩ := ih (obj + 1) s c1 es c2 hl
              obtain ⟨x, _, he, hc1⟩ := entry_ok_inv obj s c e c1 hr
              refine ⟨by simp [hlen], by omega, fun k hk => ?_⟩
              cases k with
              | zero => simp [he, mkEnt]
              | succ k =>
                simp only [List.getElem_cons_succ]
                rw [hnum k (by simpa using hk)]; omega
            | err k => simp [hl] at h
            | panic p => simp [hl] at h
        | err k => simp [hr] at h
        | panic p => simp [hr] at h


theorem entryAt_enc (e : TEnt) (hwf : e.wf) (s : Bytes) (c : Nat) (r : Bytes)
    (hs : s.drop c = encEntry e ++ r) : entryAt s c = some (e.info, e.gen, e.inuse) := by
  unfold entryAt
  rw [hs, List.take_left' (encEntry_length e)]
  exact entryForm_enc e hwf

theorem ents_roundtrip : ∀ (es : List TEnt) (obj : Nat) (s : Bytes) (c : Nat) (rest : Bytes),
    s.drop c = es.flatMap encEntry ++ rest → (∀ e ∈ es, e.wf) → obj + es.length ≤ usizeLim →
    ∃ l, entsLoop es.length obj s c = (.ok l, c + 20 * es.length) ∧ l.map (·.val) = number obj es := by
  intro es
  induction es with
  | nil => intro obj s c rest _ _ _; exact ⟨[], by simp [entsLoop], rfl⟩
  | cons e t ih =>
    intro obj s c rest hs hwf hlim
    simp only [List.flatMap_cons, List.append_assoc] at hs
    have hat := entryAt_enc e (hwf e (by simp)) s c _ hs
    have hent := entry_spec obj s c
    rw [hat] at hent
    simp only at hent
    have hs' := drop_step hs
    rw [encEntry_length] at hs'
    simp only [List.length_cons] at hlim
    obtain ⟨l, hl, hm⟩ := ih (obj + 1) s (c + 20) rest hs' (fun x hx => hwf x (by simp [hx])) (by omega)
    refine ⟨(⟨mkEnt obj (e.info, e.gen, e.inuse), c, c + 20⟩ : Located Ent) :: l, ?_, ?_⟩
    · have hlt : ¬ obj ≥ usizeLim := by omega
      simp only [List.length_cons, entsLoop, hlt, if_false, hent, hl]
      congr 1; omega
    · simp [number, hm, mkEnt]


theorem digit_not_ws (d : UInt8) (h : Xref.isDigit d = true) :
    Xref.isWsNoEol d = false ∧ Xref.isWsEol d = false ∧ d ≠ 37 ∧ d ≠ 43 ∧ d ≠ 45 := by
  simp only [Xref.isDigit, Bool.and_eq_true, decide_eq_true_eq, UInt8.le_iff_toNat_le] at h
  have h1 : (48 : UInt8).toNat = 48 := rfl
  have h2 : (57 : UInt8).toNat = 57 := rfl
  rw [h1, h2] at h
  have hne : ∀ k : UInt8, k.toNat < 48 → ¬ d = k := by
    intro k hk hdk; subst hdk; omega
  refine ⟨?_, ?_, hne 37 (by decide), hne 43 (by decide), hne 45 (by decide)⟩
  · simp [Xref.isWsNoEol, hne 32 (by decide), hne 0 (by decide), hne 9 (by decide), hne 13 (by decide), hne 12 (by decide)]
  · simp [Xref.isWsEol, hne 32 (by decide), hne 0 (by decide), hne 9 (by decide), hne 13 (by decide), hne 12 (by decide), hne 10 (by decide)]

theorem ws_not_digit (b : UInt8) (h : Xref.isWsEol b = true) : Xref.isDigit b = false := by
  cases hd : Xref.isDigit b with
  | false => rfl
  | true => have := (digit_not_ws b hd).2.1; rw [this] at h; cases h

theorem encEntries_length (es : List TEnt) : (es.flatMap encEntry).length = 20 * es.length := by
  induction es with
  | nil => rfl
  | cons e t ih => simp only [List.flatMap_cons, List.length_append, encEntry_length, ih, List.length_cons]; omega

theorem encEntry_head (e : TEnt) : ∃ d t, encEntry e = d :: t ∧ Xref.isDigit d = true := by
  obtain ⟨d, t, hd, hdig⟩ := padDec_head 10 e.info (by omega)
  refine ⟨d, t ++ ([32] ++ padDec 5 e.gen ++ [32] ++ [if e.inuse then 110 else 102] ++ e.eol.bytes), ?_, hdig⟩
  simp [encEntry, hd]

theorem encSub_length (t : TSub) : (encSub t).length =
    t.lead.length + t.wStart + 1 + t.wCount + t.hdrEol.length + 20 * t.ents.length := by
  simp only [encSub, List.length_append, padDec_length, encEntries_length, List.length_cons, List.length_nil]

theorem subsect_roundtrip (t : TSub) (hwf : t.wf) (hne : t.ents ≠ []) (s : Bytes) (c : Nat) (rest : Bytes)
    (hs : s.drop c = encSub t ++ rest) :
    ∃ l, xrefSubSectP s c = (.ok ⟨⟨t.start, t.ents.length, l⟩, c, c + (encSub t).length⟩, c + (encSub t).length)
      ∧ l.map (·.val) = number t.start t.ents := by
  obtain ⟨hs1, hs2, hws, hc1, hc2, hwc, hlead, hene, heall, hents⟩ := hwf
  simp only [encSub, List.append_assoc] at hs
  -- blanks
  obtain ⟨d0, t0, hd0, hdig0⟩ := padDec_head t.wStart t.start hws
  have h0 := wsNoEol_blanks s c t.lead _ hs hlead (by
    intro b hb; rw [hd0] at hb; simp at hb; subst hb; exact (digit_not_ws _ hdig0).1)
  have hsA := drop_step hs
  -- start
  have hi64 : i64Max = 2 ^ 63 - 1 := rfl
  have h1 := integerP_padDec t.wStart t.start s _ _ hsA hws hs1 (by omega) (by
    intro b hb; simp at hb; subst hb; decide)
  have hsB := drop_step hsA
  rw [padDec_length] at hsB
  -- space
  have hsp : s[c + t.lead.length + t.wStart]? = some 32 := by
    have := head_of_drop hsB; simpa using this
  have hsC := drop_step (x := [32]) hsB
  simp only [List.length_cons, List.length_nil] at hsC
  -- count
  obtain ⟨w0, wt, hw0, hwsp⟩ : ∃ w0 wt, t.hdrEol = w0 :: wt ∧ Xref.isWsEol w0 = true := by
    cases hh : t.hdrEol with
    | nil => exact absurd hh hene
    | cons a b =>
      rw [hh] at heall
      simp only [List.all_cons, Bool.and_eq_true] at heall
      exact ⟨a, b, rfl, by rw [← isWs_eq]; exact heall.1⟩
  have h2 := integerP_padDec t.wCount t.ents.length s _ _ hsC hwc hc1 (by omega) (by
    intro b hb; rw [hw0] at hb; simp at hb; subst hb; exact ws_not_digit _ hwsp)
  have hsD := drop_step hsC
  rw [padDec_length] at hsD
  -- header EOL
  obtain ⟨e0, et, he0⟩ : ∃ e0 et, t.ents = e0 :: et := by
    cases hh : t.ents with
    | nil => exact absurd hh hne
    | cons a b => exact ⟨a, b, rfl⟩
  obtain ⟨d1, t1, hd1, hdig1⟩ := encEntry_head e0
  have h3 := wsEol_ws s _ t.hdrEol _ hsD (by rw [← isWs_eq]; exact heall) hene (by
    intro b hb; rw [he0] at hb; simp [hd1] at hb; subst hb
    exact ⟨(digit_not_ws _ hdig1).2.1, (digit_not_ws _ hdig1).2.2.1⟩)
  have hsE := drop_step hsD
  -- entries
  obtain ⟨l, hl, hm⟩ := ents_roundtrip t.ents t.start s _ rest hsE hents (by
    have : usizeLim = 2 ^ 64 := rfl
    omega)
  refine ⟨l, ?_, hm⟩
  unfold xrefSubSectP
  have hnn : ¬ ((t.start : Int) < 0) := by omega
  have hnn2 : ¬ ((t.ents.length : Int) < 0) := by omega
  simp only [h0, andThen_ok, h1, hnn, if_false, exact_byte, hsp, if_true, h2, hnn2, h3, Int.toNat_natCast, hl]
  rw [encSub_length]
  have : c + t.lead.length + t.wStart + 1 + t.wCount + t.hdrEol.length + 20 * t.ents.length
      = c + (t.lead.length + t.wStart + 1 + t.wCount + t.hdrEol.length + 20 * t.ents.length) := by omega
  rw [this]

end Parsley.C13
