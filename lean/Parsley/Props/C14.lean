import Parsley.Model.ObjStm
import Parsley.Spec.ObjStm
