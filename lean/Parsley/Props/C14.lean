/-
  C14 — Object streams yield each object under its identifier.

  Model: Model/ObjStm.lean (ObjStreamP of src/pdf_lib/pdf_streams.rs, after the fix C14-01).
  Spec:  Spec/ObjStm.lean (header encoder, `Extracts`, `Fresh`).

  Proved for ALL inputs (no size bounds):
   * `objstm_roundtrip`      a stream whose header is ANY legal layout of N pairs with increasing
                             offsets, whose content holds at each declared offset an object ending at or
                             before the next offset (the bytes in between are arbitrary), with fresh
                             identifiers, through ANY filter chain that decodes to it: the members are
                             exactly the objects located at the declared offsets, in header order, with
                             generation 0, and the context binds each (id, 0) to that value and nothing else
                             changes
   * `objstm_accepted_wellformed`   conversely: whatever is accepted has exactly /N pairs, increasing
                             offsets inside the content, no object running past the next offset, fresh and
                             pairwise distinct identifiers, /First inside the data
   * `objstm_rejects`        the five rejections of the statement (+ repeated identifier, offset beyond
                             the content), each as its own theorem, bundled
   * `objstm_never_panics`   no panic site is reachable (loop fuel, `set_cursor` address arithmetic with
                             offsets up to 2^63-1, the object parser's sites), for all /N, /First, offsets
   * `ObjStm.readAt_eq_parseObj`  "the object located at offset o" (optional white space, then the object
                             parser) is exactly what parse_pdf_obj reads when started at o
   * `defect17_witness`      the loop as it was before the fix binds id 12 to `22` on the DESIGN input
-/
import Parsley.Lemmas.ObjStmMeta
import Parsley.Lemmas.ObjStmLoop
namespace Parsley.C14
open Parsley Parsley.Prim Parsley.Obj Parsley.ObjStm Parsley.ObjStmSpec

/-- The decoded data the parser works on and the absolute start of its buffer: the view itself
    when the dictionary names no filter, else what the filter chain yields from the cursor on. -/
def DecodesTo (dec : Decoder) (dict : Dict) (view : Bytes) (cur vbase : Nat) (data : Bytes) (dbase : Nat) : Prop :=
  ∃ fs, filters dict = .ok fs ∧
    ((fs = [] ∧ data = view ∧ dbase = vbase) ∨
     (fs ≠ [] ∧ decodeLoop dec fs (view.drop cur) = .ok data ∧ dbase = 0))

/-- with a good dictionary, a decodable stream and no encryption the parser is `parseViews` on the
    decoded data -/
theorem objStmParse_eq (dec : Decoder) (vbase : Nat) (ctx : Ctx) (dict : Dict) (view : Bytes) (cur : Nat)
    (n first : Nat) (data : Bytes) (dbase : Nat)
    (hdict : getDictInfo dict = .ok (n, first)) (hdec : DecodesTo dec dict view cur vbase data dbase)
    (henc : ctx.encrypted = false) :
    objStmParse dec vbase ctx dict view cur = parseViews dbase ctx n first data := by
  obtain ⟨fs, hfs, h⟩ := hdec
  unfold objStmParse
  simp only [hdict, hfs, henc, Bool.false_eq_true, if_false]
  rcases h with ⟨h1, h2, h3⟩ | ⟨h1, h2, h3⟩
  · subst h1 h2 h3; rfl
  · cases fs with
    | nil => exact absurd rfl h1
    | cons f t => simp only [h2, h3]

theorem dictInfo_ok (dict : Dict) (n first : Nat) (ht : getName dict kType = some nObjStm)
    (hn : getUsize dict kN = some n) (hf : getUsize dict kFirst = some first) :
    getDictInfo dict = .ok (n, first) := by
  simp [getDictInfo, ht, hn, hf]

theorem layouts_length (es : List HdrEntry) (b : Bool) (hl : layoutsOK b es = true) :
    es.length ≤ (encodeHeader es).length := by
  induction es generalizing b with
  | nil => simp
  | cons e t ih =>
    simp only [layoutsOK, layoutOK, Bool.and_eq_true, Bool.not_eq_true', List.isEmpty_eq_false_iff] at hl
    have := ih false hl.2
    have hm : e.mid.length ≠ 0 := fun h => hl.1.1.2 (List.length_eq_zero_iff.mp h)
    simp only [encodeHeader, List.length_append, List.length_cons, encodePair_length]
    omega

theorem extracts_ids (rd : Reader) (size : Nat) : ∀ (pairs : Meta) (e : Nat) (r : List (Nat × Located Obj)),
    Extracts rd size e pairs r → r.map (·.1) = pairs.map (·.1) := by
  intro pairs
  induction pairs with
  | nil => intro e r h; simp only [Extracts] at h; subst h; rfl
  | cons p t ih =>
    obtain ⟨id, ofs⟩ := p
    intro e r h
    obtain ⟨o, r1, rfl, -, -, -, h1⟩ := h
    simp [ih _ _ h1]

/-- **`objstm_roundtrip`** -/
theorem objstm_roundtrip (dec : Decoder) (vbase : Nat) (ctx : Ctx) (dict : Dict) (view : Bytes) (cur : Nat)
    (n first : Nat) (data : Bytes) (dbase : Nat)
    (es : List HdrEntry) (tail content : Bytes) (r : List (Nat × Located Obj))
    -- the dictionary: /Type /ObjStm, /N n, /First first; any supported filter chain, not encrypted
    (hdict : getDictInfo dict = .ok (n, first))
    (hdec : DecodesTo dec dict view cur vbase data dbase) (henc : ctx.encrypted = false)
    -- the decoded data: a header of n pairs in any legal layout, anything up to /First, the content
    (hdata : data = (encodeHeader es ++ tail) ++ content) (hfirst : first = (encodeHeader es ++ tail).length)
    (hn : es.length = n) (hne : es ≠ []) (hl : layoutsOK true es = true) (hb : Bounded es)
    (hinc : List.Pairwise (· < ·) (es.map (·.ofs)))
    (htail : ∀ y, tail.head? = some y → isDigit y = false) (hcontent : content ≠ [])
    -- the context: depth fields consistent, the map an ordered map, buffers below 2^63 bytes
    (hdepth : ctx.depth.cur ≤ ctx.depth.max) (hsorted : DefsSorted ctx.defs) (hbase : dbase + first ≤ 2 ^ 63)
    -- at every declared offset there is an object that ends at or before the next declared offset
    (hex : Extracts (readAt ctx.depth content) content.length 0 (declared es) r)
    -- identifiers pairwise distinct and not yet defined
    (hfresh : Fresh (definedIn ctx.defs) (es.map (·.id))) :
    ∃ ctx', objStmParse dec vbase ctx dict view cur = (.ok (r.map mkMember), ctx') ∧
      -- header order, generation 0, each member is the object located at its declared offset
      r.map (·.1) = es.map (·.id) ∧ (∀ m ∈ r.map mkMember, m.gen = 0) ∧
      (∀ p ∈ r, ∃ id ofs, (id, ofs) ∈ declared es ∧ p.1 = id ∧ readAt ctx.depth content ofs = some p.2) ∧
      -- the context binds exactly these
      (∀ p ∈ r, defsGet (p.1, 0) ctx'.defs = some p.2.val) ∧
      (∀ k, (∀ e ∈ es, k ≠ (e.id, 0)) → defsGet k ctx'.defs = defsGet k ctx.defs) ∧
      ctx'.depth = ctx.depth := by
  rw [objStmParse_eq dec vbase ctx dict view cur n first data dbase hdict hdec henc]
  have hids : (declared es).map (·.1) = es.map (·.id) := by simp [declared]
  have hflen : first ≤ data.length := by rw [hdata, hfirst]; simp
  have htake : data.take first = encodeHeader es ++ tail := by
    rw [hdata, hfirst]; exact List.take_left
  have hdrop : data.drop first = content := by
    rw [hdata, hfirst]; exact List.drop_left
  have hlt : first < data.length := by
    rw [hdata, hfirst]
    have : content.length ≠ 0 := fun h => hcontent (List.length_eq_zero_iff.mp h)
    simp only [List.length_append]; omega
  have hbnd : ∀ p ∈ declared es, p.2 ≤ i64Max := by
    intro p hp
    obtain ⟨e, he, rfl⟩ := List.mem_map.mp hp
    exact (hb e he).2
  -- the header
  have hmeta : parseMetadata (data.take first) n = (.ok (declared es), (encodeHeader es).length) := by
    rw [htake]
    unfold parseMetadata
    have hlen := layouts_length es true hl
    obtain ⟨f, hf⟩ : ∃ f, (encodeHeader es ++ tail).length + 1 = f + es.length :=
      ⟨(encodeHeader es ++ tail).length + 1 - es.length, by simp only [List.length_append] at *; omega⟩
    rw [hf]
    have := metaLoop_accept n es f [] tail 0 [] true hne hl hb (by simpa using chainOK_false es 0 hinc)
      (by simpa using hn) htail
    simpa using this
  -- the content
  have hfr : Fresh (definedIn ctx.defs) ((declared es).map (·.1)) := by rw [hids]; exact hfresh
  obtain ⟨ctx', hrun⟩ := streamLoop_complete (dbase + first) content ctx.depth hdepth hbase
    (declared es) ctx 0 [] r rfl hbnd hex hfr
  have hgood := streamLoop_good (dbase + first) content ctx.depth hdepth hbase (declared es) ctx 0 [] rfl hsorted hbnd
  rw [hrun] at hgood
  obtain ⟨r', h1, h2, -, h4, -, -, h7, h8⟩ := hgood
  have hrr : r' = r := extracts_unique _ _ _ _ _ _ h2 hex
  subst hrr
  refine ⟨ctx', ?_, ?_, ?_, ?_, h7, ?_, h4⟩
  · unfold parseViews
    simp only [hflen, hlt, hmeta, hdrop, decide_true, Bool.not_true, Bool.false_eq_true, if_false]
    simpa using hrun
  · rw [extracts_ids _ _ _ _ _ hex, hids]
  · intro m hm
    obtain ⟨p, -, rfl⟩ := List.mem_map.mp hm
    rfl
  · -- each member is read at the offset declared for its identifier
    have : ∀ (pairs : Meta) (e : Nat) (r : List (Nat × Located Obj)),
        Extracts (readAt ctx.depth content) content.length e pairs r →
        ∀ p ∈ r, ∃ id ofs, (id, ofs) ∈ pairs ∧ p.1 = id ∧ readAt ctx.depth content ofs = some p.2 := by
      intro pairs
      induction pairs with
      | nil => intro e r h; simp only [Extracts] at h; subst h; intro p hp; cases hp
      | cons q t ih =>
        obtain ⟨id, ofs⟩ := q
        intro e r h
        obtain ⟨o, r1, rfl, -, -, ho, h1⟩ := h
        intro p hp
        simp only [List.mem_cons] at hp
        rcases hp with hp | hp
        · subst hp; exact ⟨id, ofs, List.mem_cons_self, rfl, ho⟩
        · obtain ⟨id', ofs', hm, h2, h3⟩ := ih _ _ h1 p hp
          exact ⟨id', ofs', List.mem_cons_of_mem _ hm, h2, h3⟩
    exact this _ _ _ hex
  · intro k hk
    apply h8
    intro id hid
    rw [hids] at hid
    obtain ⟨e, he, rfl⟩ := List.mem_map.mp hid
    exact hk e he

/-! ## what is accepted is well formed; nothing panics -/

/-- the guarantee of `parseViews` for EVERY input -/
def ViewsGood (ctx : Ctx) (n first : Nat) (data : Bytes) : SR → Prop
  | (.ok res, ctx') =>
    first < data.length ∧
    ∃ md c r, parseMetadata (data.take first) n = (.ok md, c) ∧
      md.length = n ∧ List.Pairwise (· < ·) (md.map (·.2)) ∧
      Extracts (readAt ctx.depth (data.drop first)) (data.drop first).length 0 md r ∧
      Fresh (definedIn ctx.defs) (md.map (·.1)) ∧
      res = r.map mkMember ∧
      ctx'.depth = ctx.depth ∧ DefsSorted ctx'.defs ∧
      (∀ p ∈ r, defsGet (p.1, 0) ctx'.defs = some p.2.val) ∧
      (∀ k, (∀ id ∈ md.map (·.1), k ≠ (id, 0)) → defsGet k ctx'.defs = defsGet k ctx.defs)
  | (.err _, _) => True
  | (.panic _, _) => False

theorem parseViews_good (dbase : Nat) (ctx : Ctx) (n first : Nat) (data : Bytes)
    (hdepth : ctx.depth.cur ≤ ctx.depth.max) (hsorted : DefsSorted ctx.defs) (hbase : dbase + data.length ≤ 2 ^ 63) :
    ViewsGood ctx n first data (parseViews dbase ctx n first data) := by
  unfold parseViews
  split
  · trivial
  · rename_i hfl
    have hfl' : first ≤ data.length := by simpa using hfl
    have hm := parseMetadata_good (data.take first) n
    split
    · trivial
    · rename_i heq; rw [heq] at hm; exact hm.elim
    · rename_i md c heq
      rw [heq] at hm
      obtain ⟨m1, m2, m3⟩ := hm
      split
      · trivial
      · rename_i hlt
        have hlt' : first < data.length := by simpa using hlt
        have hg := streamLoop_good (dbase + first) (data.drop first) ctx.depth hdepth (by omega) md ctx 0 [] rfl hsorted m3
        revert hg
        generalize streamLoop (dbase + first) (data.drop first) md ctx 0 [] = res
        obtain ⟨r0, ctx'⟩ := res
        cases r0 with
        | err k => intro _; trivial
        | panic p => intro h; exact h
        | ok res =>
          intro ⟨r, h1, h2, h3, h4, _, h6, h7, h8⟩
          exact ⟨hlt', md, c, r, heq, m1, m2, h2, h3, by simpa using h1, h4, h6, h7, h8⟩

theorem getDictInfo_no_panic (d : Dict) (p : String) : getDictInfo d ≠ .panic p := by
  unfold getDictInfo
  split
  · simp
  · split
    · simp
    · split
      · simp
      · split <;> simp

theorem filtersZip_no_panic (fa da : List Obj) (acc : List Filter) (p : String) :
    filtersZip fa da acc ≠ .panic p := by
  induction fa generalizing da acc with
  | nil => simp [filtersZip]
  | cons f ft ih =>
    cases da with
    | nil => simp [filtersZip]
    | cons d dt =>
      unfold filtersZip
      split
      · exact ih _ _
      · exact ih _ _
      · simp
      · simp

theorem filtersNames_no_panic (fa : List Obj) (acc : List Filter) (p : String) :
    filtersNames fa acc ≠ .panic p := by
  induction fa generalizing acc with
  | nil => simp [filtersNames]
  | cons f ft ih =>
    cases f <;> simp [filtersNames, ih]

theorem filters_no_panic (d : Dict) (p : String) : filters d ≠ .panic p := by
  unfold filters
  split
  · split
    · simp
    · split <;> simp
  · split
    · split
      · split
        · simp
        · exact filtersZip_no_panic _ _ _ _
      · exact filtersNames_no_panic _ _ _
    · simp

def DecGood : Res Bytes → Prop
  | .ok data => data.length ≤ 2 ^ 63
  | .err _ => True
  | .panic _ => False

theorem decodeLoop_good (dec : Decoder) (hnp : ∀ f d p, dec f d ≠ .panic p)
    (hlen : ∀ f d d', dec f d = .ok d' → d'.length ≤ 2 ^ 63) :
    ∀ (fs : List Filter) (d : Bytes), fs ≠ [] → DecGood (decodeLoop dec fs d) := by
  intro fs
  induction fs with
  | nil => intro d h; exact absurd rfl h
  | cons f t ih =>
    intro d _
    unfold decodeLoop
    split
    · trivial
    · cases hd : dec f d with
      | err k => trivial
      | panic p => exact absurd hd (hnp f d p)
      | ok d' =>
        simp only
        cases t with
        | nil => simpa [decodeLoop, DecGood] using hlen f d d' hd
        | cons f2 t2 => exact ih d' (by simp)

/-- **`objstm_never_panics`**: for every dictionary (so every /N, /First), every view and cursor,
    every header and content (so every offset up to the largest integer the header syntax admits):
    no panic site is reachable, provided the decoders do not panic and buffers are smaller than
    2^63 bytes (Rust allocations are at most `isize::MAX` bytes). -/
theorem objstm_never_panics (dec : Decoder) (vbase : Nat) (ctx : Ctx) (dict : Dict) (view : Bytes) (cur : Nat)
    (hnp : ∀ f d p, dec f d ≠ .panic p) (hlen : ∀ f d d', dec f d = .ok d' → d'.length ≤ 2 ^ 63)
    (hview : vbase + view.length ≤ 2 ^ 63)
    (hdepth : ctx.depth.cur ≤ ctx.depth.max) (hsorted : DefsSorted ctx.defs) :
    (objStmParse dec vbase ctx dict view cur).1.isPanic = false := by
  unfold objStmParse
  have h1 := getDictInfo_no_panic dict
  split
  · rfl
  · rename_i p heq; exact absurd heq (h1 p)
  · rename_i n first heq
    have h2 := filters_no_panic dict
    split
    · rfl
    · rename_i p heq2; exact absurd heq2 (h2 p)
    · rename_i fs heq2
      split
      · rfl
      · split
        · have := parseViews_good vbase ctx n first view hdepth hsorted hview
          revert this
          generalize parseViews vbase ctx n first view = res
          obtain ⟨r0, c'⟩ := res
          cases r0 <;> simp [ViewsGood, Res.isPanic]
        · rename_i f t
          have hd := decodeLoop_good dec hnp hlen (f :: t) (view.drop cur) (by simp)
          split
          · rfl
          · rename_i p heq3; rw [heq3] at hd; exact hd.elim
          · rename_i data heq3
            rw [heq3] at hd
            have := parseViews_good 0 ctx n first data hdepth hsorted (by simpa [DecGood] using hd)
            revert this
            generalize parseViews 0 ctx n first data = res
            obtain ⟨r0, c'⟩ := res
            cases r0 <;> simp [ViewsGood, Res.isPanic]

/-- **`objstm_accepted_wellformed`**: an accepted stream has /First inside the data, a header of
    exactly /N pairs with strictly increasing offsets, at each offset an object that ends at or
    before the next one, identifiers pairwise distinct and previously undefined; the members are
    those objects in header order with generation 0 and the context binds them. -/
theorem objstm_accepted_wellformed (dec : Decoder) (vbase : Nat) (ctx : Ctx) (dict : Dict) (view : Bytes) (cur : Nat)
    (n first : Nat) (data : Bytes) (dbase : Nat) (res : List Member) (ctx' : Ctx)
    (hdict : getDictInfo dict = .ok (n, first)) (hdec : DecodesTo dec dict view cur vbase data dbase)
    (henc : ctx.encrypted = false)
    (hdepth : ctx.depth.cur ≤ ctx.depth.max) (hsorted : DefsSorted ctx.defs) (hbase : dbase + data.length ≤ 2 ^ 63)
    (h : objStmParse dec vbase ctx dict view cur = (.ok res, ctx')) :
    ViewsGood ctx n first data (.ok res, ctx') := by
  rw [objStmParse_eq dec vbase ctx dict view cur n first data dbase hdict hdec henc] at h
  have := parseViews_good dbase ctx n first data hdepth hsorted hbase
  rw [h] at this
  exact this

/-! ## the rejections of the statement -/

def IsErr {α : Type} (r : Res α) : Prop := ∃ k, r = .err k

/-- an outcome that is neither acceptance nor panic is a rejection -/
theorem isErr_of_views (ctx : Ctx) (n first : Nat) (data : Bytes) (x : SR)
    (hg : ViewsGood ctx n first data x) (hno : ∀ res c', x = (.ok res, c') → False) : IsErr x.1 := by
  obtain ⟨r0, c'⟩ := x
  cases r0 with
  | ok res => exact (hno res c' rfl).elim
  | err k => exact ⟨k, rfl⟩
  | panic p => exact hg.elim

/-- (1) **non-increasing offsets** (header level) -/
theorem header_order_rejected (n : Nat) (good : List HdrEntry) (bad : HdrEntry) (more : List HdrEntry)
    (tail : Bytes) (b : Bool)
    (hg : good ≠ []) (hl : layoutsOK b (good ++ bad :: more) = true) (hb : Bounded (good ++ bad :: more))
    (hinc : List.Pairwise (· < ·) (good.map (·.ofs))) (hn : good.length < n)
    (hbad : bad.ofs ≤ lastOfs 0 good)
    (hr : ∀ y, tail.head? = some y → isDigit y = false) :
    (parseMetadata (encodeHeader (good ++ bad :: more) ++ tail) n).1 = .err .guard := by
  unfold parseMetadata
  have hlen := layouts_length (good ++ bad :: more) b hl
  obtain ⟨f, hf⟩ : ∃ f, (encodeHeader (good ++ bad :: more) ++ tail).length + 1 = f + 1 + good.length :=
    ⟨(encodeHeader (good ++ bad :: more) ++ tail).length - good.length, by
      simp only [List.length_append, List.length_cons] at *; omega⟩
  rw [hf]
  have := metaLoop_order n good bad more f [] tail b hg hl hb (chainOK_false good 0 hinc) hn hbad hr
  simpa using this

/-- (2) **fewer than /N pairs** (header level) -/
theorem header_short_rejected (n : Nat) (es : List HdrEntry) (w rest : Bytes) (b : Bool)
    (hl : layoutsOK b es = true) (hb : Bounded es) (hinc : List.Pairwise (· < ·) (es.map (·.ofs)))
    (hn : es.length < n) (hw : allWs w = true)
    (hr : ∀ y, rest.head? = some y → isDigit y = false ∧ y ≠ 45 ∧ y ≠ 43 ∧ isWsEol y = false ∧ y ≠ 37) :
    (parseMetadata (encodeHeader es ++ (w ++ rest)) n).1 = .err .guard := by
  unfold parseMetadata
  have hlen := layouts_length es b hl
  obtain ⟨f, hf⟩ : ∃ f, (encodeHeader es ++ (w ++ rest)).length + 1 = f + 1 + es.length :=
    ⟨(encodeHeader es ++ (w ++ rest)).length - es.length, by simp only [List.length_append] at *; omega⟩
  rw [hf]
  have := metaLoop_short n es f [] w rest b hl hb (chainOK_false es 0 hinc) hn hw hr
  simpa using this

section rejects
variable (dec : Decoder) (vbase : Nat) (ctx : Ctx) (dict : Dict) (view : Bytes) (cur : Nat)
  (n first : Nat) (data : Bytes) (dbase : Nat)
  (hdict : getDictInfo dict = .ok (n, first)) (hdec : DecodesTo dec dict view cur vbase data dbase)
  (henc : ctx.encrypted = false)
include hdict hdec henc

/-- a header that `parse_metadata` rejects makes the whole stream rejected -/
theorem rejected_of_header (k : ErrK) (hm : (parseMetadata (data.take first) n).1 = .err k) :
    IsErr (objStmParse dec vbase ctx dict view cur).1 := by
  rw [objStmParse_eq dec vbase ctx dict view cur n first data dbase hdict hdec henc]
  unfold parseViews
  split
  · exact ⟨_, rfl⟩
  · split
    · exact ⟨_, rfl⟩
    · rename_i heq; rw [heq] at hm; cases hm
    · rename_i heq; rw [heq] at hm; cases hm

/-- (3) **/First beyond the data** (at or past its end: no content is left) -/
theorem first_beyond_rejected (hf : data.length ≤ first) :
    IsErr (objStmParse dec vbase ctx dict view cur).1 := by
  rw [objStmParse_eq dec vbase ctx dict view cur n first data dbase hdict hdec henc]
  unfold parseViews
  split
  · exact ⟨_, rfl⟩
  · have hm := parseMetadata_good (data.take first) n
    split
    · exact ⟨_, rfl⟩
    · rename_i heq; rw [heq] at hm; exact hm.elim
    · split
      · exact ⟨_, rfl⟩
      · rename_i hlt
        have : first < data.length := by simpa using hlt
        omega

variable (hdepth : ctx.depth.cur ≤ ctx.depth.max) (hsorted : DefsSorted ctx.defs) (hbase : dbase + data.length ≤ 2 ^ 63)
  (md : Meta) (c : Nat) (hmeta : parseMetadata (data.take first) n = (.ok md, c))
include hdepth hsorted hbase hmeta

/-- whatever is accepted extracts the header that was read -/
theorem accepted_extracts (res : List Member) (ctx' : Ctx)
    (h : objStmParse dec vbase ctx dict view cur = (.ok res, ctx')) :
    ∃ r, Extracts (readAt ctx.depth (data.drop first)) (data.drop first).length 0 md r ∧
      Fresh (definedIn ctx.defs) (md.map (·.1)) := by
  have hw := objstm_accepted_wellformed dec vbase ctx dict view cur n first data dbase res ctx' hdict hdec henc
    hdepth hsorted hbase h
  obtain ⟨-, md', c', r, h1, -, -, h4, h5, -⟩ := hw
  rw [hmeta] at h1
  cases h1
  exact ⟨r, h4, h5⟩

theorem rejected_of_not_wellformed
    (hbadness : ∀ r, Extracts (readAt ctx.depth (data.drop first)) (data.drop first).length 0 md r →
      Fresh (definedIn ctx.defs) (md.map (·.1)) → False) :
    IsErr (objStmParse dec vbase ctx dict view cur).1 := by
  have hg := parseViews_good dbase ctx n first data hdepth hsorted hbase
  rw [← objStmParse_eq dec vbase ctx dict view cur n first data dbase hdict hdec henc] at hg
  apply isErr_of_views ctx n first data _ hg
  intro res c' h
  obtain ⟨r, h1, h2⟩ := accepted_extracts dec vbase ctx dict view cur n first data dbase hdict hdec henc
    hdepth hsorted hbase md c hmeta res c' h
  exact hbadness r h1 h2

/-- (4) **object data that runs past the next declared offset** -/
theorem overrun_rejected (a b : Meta) (id1 o1 id2 o2 : Nat) (obj : Located Obj)
    (hmd : md = a ++ (id1, o1) :: (id2, o2) :: b)
    (hread : readAt ctx.depth (data.drop first) o1 = some obj) (hover : o2 < obj.stop) :
    IsErr (objStmParse dec vbase ctx dict view cur).1 := by
  apply rejected_of_not_wellformed dec vbase ctx dict view cur n first data dbase hdict hdec henc
    hdepth hsorted hbase md c hmeta
  intro r hex _
  subst hmd
  have : ∀ (a : Meta) (e : Nat) (r : List (Nat × Located Obj)),
      Extracts (readAt ctx.depth (data.drop first)) (data.drop first).length e (a ++ (id1, o1) :: (id2, o2) :: b) r → False := by
    intro a
    induction a with
    | nil =>
      intro e r h
      obtain ⟨o, r1, -, -, -, ho, h1⟩ := h
      obtain ⟨o', r2, -, hle, -, -, -⟩ := h1
      rw [hread] at ho; cases ho
      omega
    | cons p t ih =>
      obtain ⟨id, ofs⟩ := p
      intro e r h
      obtain ⟨o, r1, -, -, -, -, h1⟩ := h
      exact ih _ _ h1
  exact this a 0 r hex

/-- (5) **an identifier already defined in the context** -/
theorem defined_rejected (id : Nat) (hid : id ∈ md.map (·.1)) (hdef : defsGet (id, 0) ctx.defs ≠ none) :
    IsErr (objStmParse dec vbase ctx dict view cur).1 := by
  apply rejected_of_not_wellformed dec vbase ctx dict view cur n first data dbase hdict hdec henc
    hdepth hsorted hbase md c hmeta
  intro r _ hfr
  have := hfr.2 id hid
  simp only [definedIn] at this
  cases h : defsGet (id, 0) ctx.defs with
  | none => exact hdef h
  | some v => rw [h] at this; cases this

/-- (5') an identifier declared twice -/
theorem repeated_rejected (hrep : ¬ (md.map (·.1)).Nodup) :
    IsErr (objStmParse dec vbase ctx dict view cur).1 := by
  apply rejected_of_not_wellformed dec vbase ctx dict view cur n first data dbase hdict hdec henc
    hdepth hsorted hbase md c hmeta
  intro r _ hfr
  exact hrep hfr.1

/-- (6) an offset beyond the content -/
theorem offset_beyond_rejected (id ofs : Nat) (hin : (id, ofs) ∈ md) (hbey : (data.drop first).length < ofs) :
    IsErr (objStmParse dec vbase ctx dict view cur).1 := by
  apply rejected_of_not_wellformed dec vbase ctx dict view cur n first data dbase hdict hdec henc
    hdepth hsorted hbase md c hmeta
  intro r hex _
  have : ∀ (md : Meta) (e : Nat) (r : List (Nat × Located Obj)), (id, ofs) ∈ md →
      Extracts (readAt ctx.depth (data.drop first)) (data.drop first).length e md r → False := by
    intro md
    induction md with
    | nil => intro e r h; cases h
    | cons p t ih =>
      obtain ⟨id', ofs'⟩ := p
      intro e r hmem h
      obtain ⟨o, r1, -, -, hle, -, h1⟩ := h
      simp only [List.mem_cons] at hmem
      rcases hmem with hmem | hmem
      · cases hmem; omega
      · exact ih _ _ hmem h1
  exact this md 0 r hin hex

end rejects

/-- (1) non-increasing offsets, at the level of the whole parser -/
theorem objstm_rejects_order (dec : Decoder) (vbase : Nat) (ctx : Ctx) (dict : Dict) (view : Bytes) (cur : Nat)
    (n first : Nat) (data : Bytes) (dbase : Nat)
    (hdict : getDictInfo dict = .ok (n, first)) (hdec : DecodesTo dec dict view cur vbase data dbase)
    (henc : ctx.encrypted = false)
    (good : List HdrEntry) (bad : HdrEntry) (more : List HdrEntry) (tail : Bytes)
    (htake : data.take first = encodeHeader (good ++ bad :: more) ++ tail)
    (hg : good ≠ []) (hl : layoutsOK true (good ++ bad :: more) = true) (hb : Bounded (good ++ bad :: more))
    (hinc : List.Pairwise (· < ·) (good.map (·.ofs))) (hn : good.length < n)
    (hbad : bad.ofs ≤ lastOfs 0 good)
    (hr : ∀ y, tail.head? = some y → isDigit y = false) :
    IsErr (objStmParse dec vbase ctx dict view cur).1 :=
  rejected_of_header dec vbase ctx dict view cur n first data dbase hdict hdec henc .guard
    (by rw [htake]; exact header_order_rejected n good bad more tail true hg hl hb hinc hn hbad hr)

/-- (2) fewer than /N pairs, at the level of the whole parser -/
theorem objstm_rejects_short (dec : Decoder) (vbase : Nat) (ctx : Ctx) (dict : Dict) (view : Bytes) (cur : Nat)
    (n first : Nat) (data : Bytes) (dbase : Nat)
    (hdict : getDictInfo dict = .ok (n, first)) (hdec : DecodesTo dec dict view cur vbase data dbase)
    (henc : ctx.encrypted = false)
    (es : List HdrEntry) (w rest : Bytes)
    (htake : data.take first = encodeHeader es ++ (w ++ rest))
    (hl : layoutsOK true es = true) (hb : Bounded es) (hinc : List.Pairwise (· < ·) (es.map (·.ofs)))
    (hn : es.length < n) (hw : allWs w = true)
    (hr : ∀ y, rest.head? = some y → isDigit y = false ∧ y ≠ 45 ∧ y ≠ 43 ∧ isWsEol y = false ∧ y ≠ 37) :
    IsErr (objStmParse dec vbase ctx dict view cur).1 :=
  rejected_of_header dec vbase ctx dict view cur n first data dbase hdict hdec henc .guard
    (by rw [htake]; exact header_short_rejected n es w rest true hl hb hinc hn hw hr)

/-! ## concrete instances (non-vacuity) and the witness of defect #17 -/

/-- a decidable digest of an outcome: (id, generation, start, end) of every member -/
def digest (x : SR) : Option (List (Nat × Nat × Nat × Nat)) :=
  match x.1 with
  | .ok ms => some (ms.map fun m => (m.num, m.gen, m.obj.start, m.obj.stop))
  | _ => none

def isInt (v : Obj) (n : Int) : Bool := match v with | .int k => k == n | _ => false

def noDec : Decoder := fun _ _ => .err .transform
def ctx0 : Ctx := ⟨[], ⟨0, 4⟩, false⟩
def dict17 : Dict := [(kFirst, .int 10), (kN, .int 2), (kType, .name nObjStm)]
/-- `11 0 12 6 11 22 33`: header `11 0 12 6 `, content `11 22 33` (DESIGN.md section 4, #17) -/
def view17 : Bytes := [49, 49, 32, 48, 32, 49, 50, 32, 54, 32, 49, 49, 32, 50, 50, 32, 51, 51]
def content17 : Bytes := view17.drop 10

/-- the fixed parser binds id 12 to the object at offset 6 (`33`, span [6,8)) … -/
example : digest (objStmParse noDec 0 ctx0 dict17 view17 0) = some [(11, 0, 0, 2), (12, 0, 6, 8)] := by decide
example : (match (objStmParse noDec 0 ctx0 dict17 view17 0) with
    | (.ok [a, b], c) => isInt a.obj.val 11 && isInt b.obj.val 33 &&
        (match defsGet (12, 0) c.defs with | some v => isInt v 33 | none => false)
    | _ => false) = true := by decide

/-- … **`defect17_witness`**: the loop as it was before the fix bound id 12 to the bytes after the
    previous object (`22`, span [3,5)) -/
theorem defect17_witness :
    (match streamLoopOld content17 [(11, 0), (12, 6)] ctx0 0 [] with
     | (.ok [_, b], _) => b.num == 12 && b.obj.start == 3 && b.obj.stop == 5 && isInt b.obj.val 22
     | _ => false) = true := by decide

/-- the hypotheses of `objstm_roundtrip` are satisfiable: this header layout and content -/
def es17 : List HdrEntry := [⟨11, 0, [], [32]⟩, ⟨12, 6, [32], [32]⟩]
example : encodeHeader es17 ++ [32] ++ content17 = view17 := by decide
example : layoutsOK true es17 = true ∧ es17.map (·.ofs) = [0, 6] := by decide
example : Extracts (readAt ctx0.depth content17) content17.length 0 (declared es17)
    [(11, ⟨.int 11, 0, 2⟩), (12, ⟨.int 33, 6, 8⟩)] :=
  ⟨_, _, rfl, by decide, by decide, rfl, _, _, rfl, by decide, by decide, rfl, rfl⟩

/-- rejections on concrete inputs: offsets `0 0`; /N 3 with two pairs; /First 18 = |data|;
    offset 1 inside `11`; id 12 predefined; offset 9 beyond the 8 content bytes -/
def withHeader (h : Bytes) : Bytes := h ++ content17
example : digest (objStmParse noDec 0 ctx0 dict17 (withHeader [49, 49, 32, 48, 32, 49, 50, 32, 48, 32]) 0) = none := by decide
example : digest (objStmParse noDec 0 ctx0 [(kFirst, .int 10), (kN, .int 3), (kType, .name nObjStm)] view17 0) = none := by
  decide
example : digest (objStmParse noDec 0 ctx0 [(kFirst, .int 18), (kN, .int 2), (kType, .name nObjStm)] view17 0) = none := by
  decide
example : digest (objStmParse noDec 0 ctx0 dict17 (withHeader [49, 49, 32, 48, 32, 49, 50, 32, 49, 32]) 0) = none := by decide
example : digest (objStmParse noDec 0 ⟨[((12, 0), .null)], ⟨0, 4⟩, false⟩ dict17 view17 0) = none := by decide
example : digest (objStmParse noDec 0 ctx0 dict17 (withHeader [49, 49, 32, 48, 32, 49, 50, 32, 57, 32]) 0) = none := by decide
/-- huge offsets do not panic: 2^63-1 is rejected by `set_cursor`, 2^63 by `IntegerP` -/
example : (objStmParse noDec 0 ctx0 [(kFirst, .int 30), (kN, .int 2), (kType, .name nObjStm)]
    (withHeader [49, 49, 32, 48, 32, 49, 50, 32, 57, 50, 50, 51, 51, 55, 50, 48, 51, 54, 56, 53, 52, 55, 55, 53, 56, 48, 55, 32, 32]) 0).1.isPanic = false := by decide

end Parsley.C14
