/-
  C14 - object streams behind DYNAMIC-Huffman zlib streams, and the rejection of cut / damaged
  Flate layers for EVERY accepted zlib stream (leaf module: nothing imports it).

  Since C06d the zlib streams the specification's DEFLATE encoder (Spec/DeflateDyn.lean) writes from
  any valid plan - stored, fixed-Huffman and dynamic-Huffman blocks in any order - are theorems of
  C06 (`C06.LayerEnc.flateDyn`, `C06.inflate_dynamic_roundtrip`).  `StmLayer.plain` takes ANY
  `C06.LayerEnc`, and `layerEnc_known` / `stmChain_of_chainEnc` / `stmLayer_decodes` go through
  `cases h <;> first | ..`, so the new constructor is covered without a change to
  Props/C14Filtered.lean; this module states it (`stmLayer_flateDyn`, `StmLayer.predDyn`:
  without and with a C07 predictor), gives one concrete stream (the three members of
  Props/C14Spelled.lean behind a dynamic-Huffman block with a hand-written literal header; the
  real parser is run on the same bytes: corpus/C14/dynamic.case), and adds the rejection
  corollaries of C06e (Props/C06Reject.lean): a Flate layer - at any depth of the chain, with or
  without predictor parameters - whose zlib stream is cut anywhere before the end of its Adler-32
  trailer, or has a trailer byte altered, makes `ObjStreamP::parse` fail with the context unchanged.
-/
import Parsley.Props.C14Filtered
import Parsley.Props.C06Reject
namespace Parsley.C14
open Parsley Parsley.Prim Parsley.Obj Parsley.ObjStm Parsley.ObjStmSpec Parsley.Loader
open Parsley.C02 (WsRun Spells Follows)

/-! ## layers over the specification's DEFLATE encoder, all three block types -/

/-- a FlateDecode layer without predictor over ANY valid plan of stored / fixed-Huffman /
    dynamic-Huffman blocks, any trailing bytes -/
theorem stmLayer_flateDyn (parms : Option Dict) (hp : NoPredictor parms)
    (bs : List DeflateDyn.Block) (last : DeflateDyn.Block) (x trailing : Bytes)
    (h : DeflateDyn.planOk bs last x) :
    StmLayer ⟨ObjStm.nFlate, parms⟩ x (DeflateDyn.zlibBlocks bs last x ++ trailing) :=
  .plain' (.flateDyn h) hp

/-- a predictor layer over such a stream: no hypothesis about inflate -/
theorem StmLayer.predDyn {P : Dict} {p : PredSpec.Params} {rows : List Bytes}
    (bs : List DeflateDyn.Block) (last : DeflateDyn.Block) (trailing : Bytes)
    (hP : ParmsOf P p) (hrows : ∀ r ∈ rows, r.length = PredSpec.rowBytes p.columns p.colors p.bpc)
    (hne : p.predictor = 2 ∨ rows ≠ [])
    (hplan : DeflateDyn.planOk bs last (PredSpec.predict p rows)) :
    StmLayer ⟨ObjStm.nFlate, some P⟩ rows.flatten
      (DeflateDyn.zlibBlocks bs last (PredSpec.predict p rows) ++ trailing) :=
  .pred hP hrows hne (C06.inflate_dynamic_roundtrip bs last _ trailing hplan)

/-- every C06 chain whose Flate layers are written by the spec encoder is a `StmChain`: the
    instance of `stmChain_of_chainEnc` the name promises, one dynamic layer -/
example (bs : List DeflateDyn.Block) (last : DeflateDyn.Block) (x trailing : Bytes)
    (h : DeflateDyn.planOk bs last x) :
    StmChain [⟨ObjStm.nFlate, none⟩] x (DeflateDyn.zlibBlocks bs last x ++ trailing) :=
  stmChain_of_chainEnc [⟨ObjStm.nFlate, none⟩] _ _ (.cons (.flateDyn h) rfl .nil)

/-! ## a concrete instance -/

/-- a hand-written dynamic header for the 58 bytes of `exView`: 257 literal/length code lengths
    (23 used byte values and the end-of-block symbol, codes of 4 and 5 bits: a complete code), no
    distance code (HDIST + 1 = 1, length 0), run-length spelled with symbols 17 and 18, under a
    complete code-length code over {0, 4, 5, 17, 18} of 2 and 3 bits, HCLEN + 4 = 12 -/
def dynHdr : DeflateDyn.Hdr :=
  { litLens := [
      0, 0, 0, 0, 0, 0, 0, 0, 0, 0, 5, 0, 0, 0, 0, 0, 0, 0, 0, 0, 0, 0, 0, 0, 0, 0, 0, 0, 0, 0, 0, 0, 4, 0, 0, 0, 0, 5, 0, 0,
      5, 5, 0, 0, 0, 0, 0, 5, 5, 5, 4, 4, 0, 0, 4, 5, 0, 0, 0, 0, 5, 0, 5, 0, 0, 5, 4, 0, 0, 0, 0, 0, 0, 0, 0, 0, 0, 0, 0, 0,
      0, 0, 5, 0, 0, 0, 0, 0, 0, 0, 0, 5, 0, 4, 0, 0, 0, 0, 0, 5, 0, 0, 0, 0, 5, 0, 0, 0, 5, 0, 5, 0, 0, 0, 0, 0, 0, 5, 0, 0,
      5, 0, 0, 0, 0, 0, 0, 0, 0, 0, 0, 0, 0, 0, 0, 0, 0, 0, 0, 0, 0, 0, 0, 0, 0, 0, 0, 0, 0, 0, 0, 0, 0, 0, 0, 0, 0, 0, 0, 0,
      0, 0, 0, 0, 0, 0, 0, 0, 0, 0, 0, 0, 0, 0, 0, 0, 0, 0, 0, 0, 0, 0, 0, 0, 0, 0, 0, 0, 0, 0, 0, 0, 0, 0, 0, 0, 0, 0, 0, 0,
      0, 0, 0, 0, 0, 0, 0, 0, 0, 0, 0, 0, 0, 0, 0, 0, 0, 0, 0, 0, 0, 0, 0, 0, 0, 0, 0, 0, 0, 0, 0, 0, 0, 0, 0, 0, 0, 0, 0, 0,
      0, 0, 0, 0, 0, 0, 0, 0, 0, 0, 0, 0, 0, 0, 0, 0, 5],
    distLens := [0],
    clLens := [2, 0, 0, 0, 3, 2, 0, 0, 0, 0, 0, 0, 0, 0, 0, 0, 0, 2, 3], ncode := 12,
    rle := [
      .zeros 7, .len 5, .zerosL 10, .len 4, .zeros 1, .len 5, .len 0, .len 0, .len 5, .len 5,
      .zeros 2, .len 5, .len 5, .len 5, .len 4, .len 4, .len 0, .len 0, .len 4, .len 5,
      .zeros 1, .len 5, .len 0, .len 5, .len 0, .len 0, .len 5, .len 4, .zerosL 4, .len 5,
      .zeros 5, .len 5, .len 0, .len 4, .zeros 2, .len 5, .zeros 1, .len 5, .zeros 0, .len 5,
      .len 0, .len 5, .zeros 3, .len 5, .len 0, .len 0, .len 5, .zerosL 124, .len 5, .len 0] }
def dynToks : List DeflateFixed.Tok := exView.map .lit

theorem dynPlan_ok : DeflateDyn.planOk [] (.dyn dynHdr dynToks) exView :=
  C06.planOkB_sound _ _ _ (by decide +kernel)

/-- the zlib stream: one final dynamic-Huffman block; 67 bytes for 58 -/
def dynZ : Bytes := DeflateDyn.zlibBlocks [] (.dyn dynHdr dynToks) exView

theorem dynZ_eq : dynZ = [
    120, 1, 5, 0, 161, 9, 0, 32, 172, 123, 197, 138, 160, 73, 221, 96, 22, 17, 220, 9, 86, 89, 178, 24, 196, 38, 120, 190, 216, 101,
    82, 2, 132, 132, 214, 96, 52, 137, 128, 24, 158, 183, 211, 140, 4, 8, 4, 17, 186, 66, 173, 14, 74, 9, 13, 82, 16, 56, 119, 239,
    90, 243, 7, 66, 35, 12, 22] := by
  decide +kernel

def dynFs : List ObjStm.Filter := [⟨ObjStm.nFlate, none⟩]

/-- the stream's content: the zlib stream and a stray LF -/
theorem dynChain : StmChain dynFs exView (dynZ ++ [10]) :=
  .cons (stmLayer_flateDyn none (fun P h => by cases h) [] _ exView [10] dynPlan_ok) .nil

/-- every premise of `objstm_roundtrip_encoded` holds for this stream: the parser with the loader's
    decoders, applied to the dynamic-Huffman zlib stream under `/Filter /FlateDecode`, binds the
    array to (11,0), the dictionary to (12,0) and the integer to (13,0) -/
example : ∃ ctx', objStmParse objDec 0 ctx0 (stmDict .single dynFs 3 21 68) (dynZ ++ [10]) 0
      = (.ok ((locatedOf exMs 0).map mkMember), ctx') ∧
    defsGet (11, 0) ctx'.defs = some (.arr [.int 1, .int 2, .ref 3 0]) ∧
    defsGet (12, 0) ctx'.defs = some (.dict [([65], .int 1)]) ∧
    defsGet (13, 0) ctx'.defs = some (.int 7) ∧ defsGet (3, 0) ctx'.defs = none := by
  obtain ⟨ctx', h1, -, h3, h4, -⟩ := objstm_roundtrip_encoded 0 ctx0 (dynZ ++ [10]) 0 .single dynFs 68 0
    exEsC [32] exMs [] rfl rfl (.inr ⟨by decide, dynChain, rfl⟩) (by decide) (by decide) exEsC_layout (by decide)
    (by decide) (by decide) trivial (by decide) exMs_ok ⟨by decide, by decide⟩
  refine ⟨ctx', h1, h3 _ List.mem_cons_self, h3 _ (List.mem_cons_of_mem _ List.mem_cons_self),
    h3 _ (List.mem_cons_of_mem _ (List.mem_cons_of_mem _ List.mem_cons_self)), ?_⟩
  rw [h4 (3, 0) (by decide)]; rfl

/-! ## the rejection side: cut and damaged Flate layers, for EVERY zlib stream the decoder accepts -/

/-- **`objstm_truncated_flate_rejects`**: the dictionary announces `pre ++ FlateDecode :: post`
    (any parameters); the content is a correct chain encoding for the outer layers `pre` of a zlib
    stream `e` - written by ANY encoder, accepted by the decoder - cut anywhere before the end of
    its Adler-32 trailer (`m < C06.consumed e`): the stream is rejected and the context returned
    unchanged - no partial data is parsed, no member defined. -/
theorem objstm_truncated_flate_rejects (vbase : Nat) (ctx : Ctx) (dict : Dict) (view : Bytes) (cur : Nat)
    (pre : List ObjStm.Filter) (parms : Option Dict) (post : List ObjStm.Filter) (e x : Bytes) (m : Nat)
    (hfs : FilterSpelled dict (pre ++ ⟨ObjStm.nFlate, parms⟩ :: post))
    (hok : Inflate.inflate e = .ok x) (hm : m < C06.consumed e)
    (hpre : StmChain pre (e.take m) (view.drop cur)) :
    ∃ k', objStmParse objDec vbase ctx dict view cur = (.err k', ctx) :=
  objstm_corrupt_layer_rejects vbase ctx dict view cur pre ⟨ObjStm.nFlate, parms⟩ post (e.take m) hfs hpre
    (.flateRejected parms _ .transform (C06.inflate_truncation_rejected e x hok m hm))

/-- **`objstm_flate_trailer_rejects`**: ... or with one of its four Adler-32 bytes altered -/
theorem objstm_flate_trailer_rejects (vbase : Nat) (ctx : Ctx) (dict : Dict) (view : Bytes) (cur : Nat)
    (pre : List ObjStm.Filter) (parms : Option Dict) (post : List ObjStm.Filter) (e x : Bytes)
    (i : Nat) (hi : i < 4) (v : UInt8)
    (hfs : FilterSpelled dict (pre ++ ⟨ObjStm.nFlate, parms⟩ :: post))
    (hok : Inflate.inflate e = .ok x) (hv : e[C06.consumed e - 4 + i]? ≠ some v)
    (hpre : StmChain pre (e.set (C06.consumed e - 4 + i) v) (view.drop cur)) :
    ∃ k', objStmParse objDec vbase ctx dict view cur = (.err k', ctx) :=
  objstm_corrupt_layer_rejects vbase ctx dict view cur pre ⟨ObjStm.nFlate, parms⟩ post _ hfs hpre
    (.flateRejected parms _ .transform (C06.inflate_trailer_altered_rejected e x hok i hi v hv))

/-- the instance for the specification's encoder: EVERY proper prefix of the stream written from a
    valid plan (stored / fixed / dynamic blocks), behind any correct outer layers -/
theorem objstm_truncated_dyn_rejects (vbase : Nat) (ctx : Ctx) (dict : Dict) (view : Bytes) (cur : Nat)
    (pre : List ObjStm.Filter) (parms : Option Dict) (post : List ObjStm.Filter)
    (bs : List DeflateDyn.Block) (last : DeflateDyn.Block) (x : Bytes) (m : Nat)
    (hfs : FilterSpelled dict (pre ++ ⟨ObjStm.nFlate, parms⟩ :: post))
    (hplan : DeflateDyn.planOk bs last x) (hm : m < (DeflateDyn.zlibBlocks bs last x).length)
    (hpre : StmChain pre ((DeflateDyn.zlibBlocks bs last x).take m) (view.drop cur)) :
    ∃ k', objStmParse objDec vbase ctx dict view cur = (.err k', ctx) :=
  objstm_corrupt_layer_rejects vbase ctx dict view cur pre ⟨ObjStm.nFlate, parms⟩ post _ hfs hpre
    (.flateRejected parms _ .transform (C06.inflate_blocks_truncated bs last x hplan m hm))

/-- concretely: the stream above cut after 40 of its 67 bytes (in the middle of the Huffman-coded
    data): rejected, nothing defined -/
example : ∃ k', objStmParse objDec 0 ctx0 (stmDict .single dynFs 3 21 40) (dynZ.take 40) 0 = (.err k', ctx0) :=
  objstm_truncated_dyn_rejects 0 ctx0 _ _ 0 [] none [] [] _ exView 40
    (stmDict_spells .single dynFs 3 21 40 rfl).2.2.2 dynPlan_ok (by rw [← dynZ, dynZ_eq]; decide) .nil

/-- ... and through the general theorem, from the decoder's own verdict on the whole stream -/
example : ∃ k', objStmParse objDec 0 ctx0 (stmDict .single dynFs 3 21 66) ((dynZ ++ [10]).take 66) 0 = (.err k', ctx0) :=
  objstm_truncated_flate_rejects 0 ctx0 _ _ 0 [] none [] (dynZ ++ [10]) exView 66
    (stmDict_spells .single dynFs 3 21 66 rfl).2.2.2
    (C06.inflate_dynamic_roundtrip _ _ _ _ dynPlan_ok)
    (by rw [dynZ, C06.consumed_zlibBlocks _ _ _ _ dynPlan_ok, ← dynZ, dynZ_eq]; decide) .nil

end Parsley.C14
