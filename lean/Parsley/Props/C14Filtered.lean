/-
  C14, third part - the statement about THE BYTES IN THE FILE: "with any supported filter".

  Props/C14.lean and Props/C14Spelled.lean hold for every decoder function `dec` (premise `DecodesTo`).
  Here the decoder is the one the loader really plugs in, `Loader.objDec` (Model/Loader.lean) = C06's model
  of ASCIIHexDecode / ASCII85Decode / FlateDecode with C07's predictor tail, and the premise is replaced by
  a declarative description of the ENCODED stream object:

   * `StmLayer`, `StmChain`     how the stream's content encodes the decoded data, layer by layer: every
                                layer of C06's `chain_roundtrip` (`C06.LayerEnc`: ASCIIHex in any conformant
                                spelling, ASCII85 in any conformant spelling, FlateDecode over stored blocks
                                in any partition + trailing bytes, FlateDecode over any zlib stream the
                                modelled inflate decodes) without predictor, PLUS FlateDecode with a C07
                                predictor (TIFF 2, PNG 10..14) in /DecodeParms, in chains of any length and
                                order (`stmChain_of_chainEnc`: every C06 `ChainEnc` is a `StmChain`)
   * `FilterSpelled`            how the dictionary spells the chain (Lemmas/ObjStmFiltered.lean)
   * `objstm_roundtrip_filtered`   the stream dictionary has /Type /ObjStm, /N, /First and spells the chain;
                                the content (from the cursor on) is a chain encoding of
                                   header ++ tail ++ members-as-spelled
                                (the decoded layout of `objstm_spelled_roundtrip`: any header layout with
                                comments, any /First padding, arbitrary gap bytes, ANY legal spelling of ANY
                                value): the parser run on the ENCODED stream returns (id_k, 0, value_k) in
                                header order and binds exactly these
   * `stmDict`, `stmDict_spells`, `objstm_roundtrip_encoded`
                                the same with the dictionary an encoder writes (keys in map order:
                                [/DecodeParms] /Filter /First /Length /N /Type), three spellings of the chain
   * `objstm_filter_error_rejects` if the chain's decoder fails (C06 `runChain` = error) the stream is rejected
                                and the context is returned UNCHANGED: no member is defined
   * `objstm_corrupt_layer_rejects` ... in particular when, behind correctly encoded outer layers, a layer is
                                corrupt in one of the ways of C06's `corrupt_is_error` (illegal ASCIIHex
                                character, missing ASCIIHex EOD, misaligned ASCII85 `z`, a zlib stream the
                                inflate rejects) or names an unsupported filter
   * `objstm_filtered_accepted_wellformed`  conversely, what is accepted from a filtered stream decodes to a
                                well-formed object stream (so the statement's five rejections hold in terms of
                                the decoded data; `first_beyond_rejected_filtered` spelled out)
   * `objstm_filter_dict_rejects`  a pairing of /Filter and /DecodeParms that `StreamT::filters` refuses rejects the stream
   * a concrete stream (the three members of Props/C14Spelled.lean through
     /Filter [/ASCIIHexDecode /FlateDecode] /DecodeParms [null <</Columns 29 /Predictor 12>>]) satisfying
     every premise - also in corpus/C14/filtered.case, where the real parser is run on it
  NOT covered by a theorem: Huffman-coded zlib streams enter only through `LayerEnc.flateAny` (the modelled
  inflate's verdict is a hypothesis; tie to the real zlib: correspondence runs of C06 and C14), DCTDecode
  (opaque; the loader's stub fails), /Predictor 15 with per-row filter types other than one fixed type.
-/
import Parsley.Props.C14Spelled
import Parsley.Lemmas.ObjStmFiltered
namespace Parsley.C14
open Parsley Parsley.Prim Parsley.Obj Parsley.ObjStm Parsley.ObjStmSpec Parsley.Loader
open Parsley.C02 (WsRun Spells Follows)

/-! ## chain encodings of an object stream's data -/

/-- `StmLayer f x e`: `e` is an encoding of `x` for the filter entry `f` of an object-stream dictionary -/
inductive StmLayer : ObjStm.Filter → Bytes → Bytes → Prop
  /-- a layer of C06's `chain_roundtrip`; the parameters name no predictor other than 1 -/
  | plain {f : ObjStm.Filter} {x e : Bytes} :
      C06.LayerEnc f.name x e → Filters.predictorOf (f.parms.map toFKvs) = 1 → StmLayer f x e
  /-- FlateDecode with a predictor: a zlib stream that inflates to C07's forward-filtered rows -/
  | pred {P : Dict} {p : PredSpec.Params} {rows : List Bytes} {e : Bytes} :
      ParmsOf P p → (∀ r ∈ rows, r.length = PredSpec.rowBytes p.columns p.colors p.bpc) →
      (p.predictor = 2 ∨ rows ≠ []) → Inflate.inflate e = .ok (PredSpec.predict p rows) →
      StmLayer ⟨ObjStm.nFlate, some P⟩ rows.flatten e

/-- a plain layer, the parameters described through `dictGet` -/
theorem StmLayer.plain' {f : ObjStm.Filter} {x e : Bytes} (h : C06.LayerEnc f.name x e) (hp : NoPredictor f.parms) :
    StmLayer f x e := .plain h (predictorOf_one f.parms hp)

/-- a predictor layer over stored blocks (any partition, any trailing bytes): no hypothesis about inflate -/
theorem StmLayer.predStored {P : Dict} {p : PredSpec.Params} {rows parts : List Bytes} (trailing : Bytes)
    (hP : ParmsOf P p) (hrows : ∀ r ∈ rows, r.length = PredSpec.rowBytes p.columns p.colors p.bpc)
    (hne : p.predictor = 2 ∨ rows ≠ []) (hflat : parts.flatten = PredSpec.predict p rows)
    (hparts : ∀ q ∈ parts, q.length ≤ 65535) :
    StmLayer ⟨ObjStm.nFlate, some P⟩ rows.flatten (FiltersSpec.zlibStored parts ++ trailing) :=
  .pred hP hrows hne (by rw [← hflat]; exact C06.inflate_stored_roundtrip parts trailing hparts)

/-- `StmChain fs data content`: `content` is `data` encoded for the filter list `fs` (first = outermost) -/
inductive StmChain : List ObjStm.Filter → Bytes → Bytes → Prop
  | nil {p : Bytes} : StmChain [] p p
  | cons {f : ObjStm.Filter} {fs : List ObjStm.Filter} {p mid c : Bytes} :
      StmLayer f mid c → StmChain fs p mid → StmChain (f :: fs) p c

/-- every chain of C06's `chain_roundtrip` / `decode_stream_roundtrip` (over the translated filters) is one -/
theorem stmChain_of_chainEnc : ∀ (fs : List ObjStm.Filter) (p c : Bytes),
    C06.ChainEnc (fs.map toF) p c → StmChain fs p c
  | [], p, c, h => by cases h; exact .nil
  | f :: t, p, c, h => by
    cases h with
    | cons hl hp ht => exact .cons (.plain hl hp) (stmChain_of_chainEnc t _ _ ht)

theorem stmLayer_decodes {f : ObjStm.Filter} {x e : Bytes} (h : StmLayer f x e) :
    knownFilter f.name = true ∧ objDec f e = .ok x := by
  cases h with
  | plain hl hp =>
    refine ⟨layerEnc_known hl, ?_⟩
    rw [objDec_eq]
    exact C06.layer_roundtrip Loader.ext (toF _) x e hl hp
  | pred hP hrows hne hinf => exact ⟨(known_iff _).mpr (.inl rfl), flate_pred_layer _ _ _ _ hP hrows hne hinf⟩

/-- the filter loop of `ObjStreamP::parse` with the loader's decoders inverts every chain encoding -/
theorem stmChain_decodes {fs : List ObjStm.Filter} {p c : Bytes} (h : StmChain fs p c) :
    decodeLoop objDec fs c = .ok p := by
  induction h with
  | nil => rfl
  | cons hl _ ih =>
    obtain ⟨hk, hd⟩ := stmLayer_decodes hl
    simp only [decodeLoop, hk, Bool.not_true, Bool.false_eq_true, if_false, hd, ih]

/-- how the stream's content `view` (read from `cur`; absolute start `vbase`) stores the decoded `data`:
    as it is when the dictionary names no filter (the view parsers then work on the view, from its
    start), else as a chain encoding from the cursor on (the decoded data is a fresh buffer) -/
def StoredAs (fs : List ObjStm.Filter) (data view : Bytes) (cur vbase dbase : Nat) : Prop :=
  (fs = [] ∧ view = data ∧ dbase = vbase) ∨ (fs ≠ [] ∧ StmChain fs data (view.drop cur) ∧ dbase = 0)

theorem decodesTo_of_storedAs (dict : Dict) (fs : List ObjStm.Filter) (data view : Bytes) (cur vbase dbase : Nat)
    (hf : FilterSpelled dict fs) (hs : StoredAs fs data view cur vbase dbase) :
    DecodesTo objDec dict view cur vbase data dbase := by
  refine ⟨fs, filters_of_spelled dict fs hf, ?_⟩
  rcases hs with ⟨h1, h2, h3⟩ | ⟨h1, h2, h3⟩
  · exact .inl ⟨h1, h2.symm, h3⟩
  · exact .inr ⟨h1, stmChain_decodes h2, h3⟩

theorem getUsize_nat (d : Dict) (k : Bytes) (n : Nat) (h : dictGet k d = some (.int n)) : getUsize d k = some n := by
  simp [getUsize, h, isUsize]

theorem dictInfo_of_entries (dict : Dict) (n first : Nat)
    (htype : dictGet kType dict = some (.name nObjStm)) (hN : dictGet kN dict = some (.int n))
    (hFirst : dictGet kFirst dict = some (.int first)) : getDictInfo dict = .ok (n, first) :=
  dictInfo_ok dict n first (by simp [getName, htype]) (getUsize_nat _ _ _ hN) (getUsize_nat _ _ _ hFirst)

/-! ## the round trip through the filters -/

/-- **`objstm_roundtrip_filtered`**.  The stream dictionary holds /Type /ObjStm, /N = number of members,
    /First = |header ++ tail| and spells the filter list `fs` (`FilterSpelled`: no /Filter, a name, a name
    with a /DecodeParms dictionary, an array of names, parallel arrays).  The stream's content stores
    (`StoredAs`) - unfiltered, or through ANY chain of ASCIIHex / ASCII85 / Flate(stored blocks | whatever
    the modelled inflate decodes) / Flate + TIFF or PNG predictor layers, from the cursor on - the data

        header ++ tail ++ content

    of `objstm_spelled_roundtrip`: `N` pairs `id offset` in any layout of white space and comments,
    anything not starting with a digit up to /First, and per member arbitrary gap bytes and - at the
    declared offset - an optional white-space/comment run and ANY legal spelling of its value.
    Then `ObjStreamP::parse` WITH THE LOADER'S DECODERS, applied to the encoded stream, returns the members
    `(id_k, generation 0, value_k)` in header order and the context binds exactly `(id_k, 0) -> value_k`. -/
theorem objstm_roundtrip_filtered (vbase : Nat) (ctx : Ctx) (dict : Dict) (view : Bytes) (cur : Nat)
    (fs : List ObjStm.Filter) (dbase : Nat)
    (es : List HdrEntry) (tail : Bytes) (ms : List SMem) (fin : Bytes)
    -- the dictionary, entry by entry
    (htype : dictGet kType dict = some (.name nObjStm))
    (hN : dictGet kN dict = some (.int ms.length))
    (hFirst : dictGet kFirst dict = some (.int (encodeHeader es ++ tail).length))
    (hfilter : FilterSpelled dict fs) (henc : ctx.encrypted = false)
    -- the stream's content encodes header ++ tail ++ members
    (hstored : StoredAs fs ((encodeHeader es ++ tail) ++ contentOf ms fin) view cur vbase dbase)
    (hne : ms ≠ [])
    (hdecl : declared es = pairsOf ms 0) (hl : LayoutsC true es)
    (htail : ∀ y, tail.head? = some y → isDigit y = false)
    (hids : ∀ m ∈ ms, m.id ≤ i64Max)
    -- the context: depth fields consistent, the map an ordered map, buffers below 2^63 bytes
    (hdepth : ctx.depth.cur ≤ ctx.depth.max) (hsorted : DefsSorted ctx.defs)
    (hbase : dbase + ((encodeHeader es ++ tail) ++ contentOf ms fin).length ≤ 2 ^ 63)
    -- the members are legally spelled, with room for their nesting; identifiers fresh and distinct
    (hmems : MemsOK (ctx.depth.max - ctx.depth.cur) ms fin)
    (hfresh : Fresh (definedIn ctx.defs) (ms.map (·.id))) :
    ∃ ctx', objStmParse objDec vbase ctx dict view cur = (.ok ((locatedOf ms 0).map mkMember), ctx') ∧
      ((locatedOf ms 0).map mkMember).map (fun x => (x.num, x.gen, x.obj.val)) = ms.map (fun m => (m.id, 0, m.v)) ∧
      (∀ m ∈ ms, defsGet (m.id, 0) ctx'.defs = some m.v) ∧
      (∀ k, (∀ m ∈ ms, k ≠ (m.id, 0)) → defsGet k ctx'.defs = defsGet k ctx.defs) ∧
      ctx'.depth = ctx.depth :=
  objstm_spelled_roundtrip objDec vbase ctx dict view cur ms.length (encodeHeader es ++ tail).length
    ((encodeHeader es ++ tail) ++ contentOf ms fin) dbase es tail ms fin
    (dictInfo_of_entries dict _ _ htype hN hFirst)
    (decodesTo_of_storedAs dict fs _ view cur vbase dbase hfilter hstored) henc rfl rfl rfl hne hdecl hl htail hids
    hdepth hsorted hbase hmems hfresh

/-! ## the dictionary an encoder writes -/

def kLength : Bytes := [76, 101, 110, 103, 116, 104]

/-- three ways to spell a filter list -/
inductive Shape where
  /-- `/Filter /Name` (+ `/DecodeParms <<..>>` if the filter has parameters): one filter -/
  | single
  /-- `/Filter [/A /B ..]`, no /DecodeParms: no filter has parameters -/
  | names
  /-- `/Filter [/A /B ..] /DecodeParms [null <<..>> ..]` -/
  | parallel

/-- the shape fits the list -/
def Shape.fits : Shape → List ObjStm.Filter → Prop
  | .single, fs => fs.length = 1
  | .names, fs => ∀ f ∈ fs, f.parms = none
  | .parallel, _ => True

/-- the /DecodeParms and /Filter entries (in key order) -/
def filterEntries : Shape → List ObjStm.Filter → Dict
  | .single, [⟨n, none⟩] => [(kFilter, .name n)]
  | .single, [⟨n, some P⟩] => [(ObjStm.kDecodeParms, .dict P), (kFilter, .name n)]
  | .names, fs => [(kFilter, .arr (fs.map fun f => .name f.name))]
  | _, fs => [(ObjStm.kDecodeParms, .arr (fs.map parmObj)), (kFilter, .arr (fs.map fun f => .name f.name))]

/-- the entries every object-stream dictionary has (in key order) -/
def baseEntries (n first len : Nat) : Dict :=
  [(kFirst, .int first), (kLength, .int len), (kN, .int n), (kType, .name nObjStm)]

/-- **the stream dictionary as an encoder writes it**: `[/DecodeParms ..] /Filter .. /First first
    /Length len /N n /Type /ObjStm` (a `BTreeMap`: keys in byte order) -/
def stmDict (sh : Shape) (fs : List ObjStm.Filter) (n first len : Nat) : Dict :=
  filterEntries sh fs ++ baseEntries n first len

theorem dictGet_cons_ne {k k' : Bytes} {v : Obj} {t : Dict} (h : (k == k') = false) :
    dictGet k ((k', v) :: t) = dictGet k t := by simp [dictGet, h]

theorem dictGet_cons_eq {k : Bytes} {v : Obj} {t : Dict} : dictGet k ((k, v) :: t) = some v := by simp [dictGet]

theorem dictGet_filterEntries (k : Bytes) (h1 : (k == kFilter) = false) (h2 : (k == ObjStm.kDecodeParms) = false)
    (sh : Shape) (fs : List ObjStm.Filter) (rest : Dict) : dictGet k (filterEntries sh fs ++ rest) = dictGet k rest := by
  unfold filterEntries
  split <;> simp [dictGet, h1, h2]

/-- no /DecodeParms entry behind a lone /Filter entry -/
theorem dictGet_parms_none (v : Obj) (n first len : Nat) :
    dictGet ObjStm.kDecodeParms ((kFilter, v) :: baseEntries n first len) = none := by
  unfold baseEntries
  rw [dictGet_cons_ne (by decide), dictGet_cons_ne (by decide), dictGet_cons_ne (by decide),
    dictGet_cons_ne (by decide), dictGet_cons_ne (by decide)]
  rfl

theorem names_of_noparms : ∀ fs : List ObjStm.Filter, (∀ f ∈ fs, f.parms = none) →
    fs = (fs.map (·.name)).map fun n => ⟨n, none⟩
  | [], _ => rfl
  | ⟨n, parms⟩ :: t, h => by
    have h0 : parms = none := h ⟨n, parms⟩ List.mem_cons_self
    subst h0
    simp only [List.map_cons, List.cons.injEq, true_and]
    exact names_of_noparms t (fun f hf => h f (List.mem_cons_of_mem _ hf))

/-- the dictionary the encoder writes has the three entries and spells the chain -/
theorem stmDict_spells (sh : Shape) (fs : List ObjStm.Filter) (n first len : Nat) (hfit : sh.fits fs) :
    dictGet kType (stmDict sh fs n first len) = some (.name nObjStm) ∧
    dictGet kN (stmDict sh fs n first len) = some (.int n) ∧
    dictGet kFirst (stmDict sh fs n first len) = some (.int first) ∧
    FilterSpelled (stmDict sh fs n first len) fs := by
  refine ⟨?_, ?_, ?_, ?_⟩
  · unfold stmDict
    rw [dictGet_filterEntries _ (by decide) (by decide)]
    rfl
  · unfold stmDict
    rw [dictGet_filterEntries _ (by decide) (by decide)]
    rfl
  · unfold stmDict
    rw [dictGet_filterEntries _ (by decide) (by decide)]
    rfl
  · have hpar : FilterSpelled ([(ObjStm.kDecodeParms, .arr (fs.map parmObj)),
        (kFilter, .arr (fs.map fun f => .name f.name))] ++ baseEntries n first len) fs :=
      .namesParms fs (by rw [List.cons_append, dictGet_cons_ne (by decide)]; exact dictGet_cons_eq)
        (by exact dictGet_cons_eq)
    cases sh with
    | parallel =>
      unfold stmDict filterEntries
      exact hpar
    | names =>
      have hfit' : ∀ f ∈ fs, f.parms = none := hfit
      unfold stmDict filterEntries
      refine (names_of_noparms fs hfit') ▸ FilterSpelled.names (fs.map (·.name)) ?_ ?_
      · rw [List.singleton_append, dictGet_cons_eq]
        simp [List.map_map, Function.comp_def]
      · rw [List.singleton_append]
        simp only [ObjStm.getArray, dictGet_parms_none]
    | single =>
      have hfit' : fs.length = 1 := hfit
      match fs, hfit' with
      | [⟨nm, none⟩], _ =>
        unfold stmDict filterEntries
        refine .name nm (by exact dictGet_cons_eq) ?_ ?_
        · rw [List.singleton_append]; simp only [ObjStm.getDict, dictGet_parms_none]
        · rw [List.singleton_append]; simp only [ObjStm.getArray, dictGet_parms_none]
      | [⟨nm, some P⟩], _ =>
        unfold stmDict filterEntries
        exact .nameParms nm P (by rw [List.cons_append, dictGet_cons_ne (by decide)]; exact dictGet_cons_eq)
          (by exact dictGet_cons_eq)

/-- **`objstm_roundtrip_encoded`**: `objstm_roundtrip_filtered` for the stream object an encoder writes -
    dictionary `stmDict` (any of the three spellings that fits the chain, any /Length), content a chain
    encoding of the spelled data. -/
theorem objstm_roundtrip_encoded (vbase : Nat) (ctx : Ctx) (view : Bytes) (cur : Nat)
    (sh : Shape) (fs : List ObjStm.Filter) (len dbase : Nat)
    (es : List HdrEntry) (tail : Bytes) (ms : List SMem) (fin : Bytes)
    (hfit : sh.fits fs) (henc : ctx.encrypted = false)
    (hstored : StoredAs fs ((encodeHeader es ++ tail) ++ contentOf ms fin) view cur vbase dbase)
    (hne : ms ≠ [])
    (hdecl : declared es = pairsOf ms 0) (hl : LayoutsC true es)
    (htail : ∀ y, tail.head? = some y → isDigit y = false)
    (hids : ∀ m ∈ ms, m.id ≤ i64Max)
    (hdepth : ctx.depth.cur ≤ ctx.depth.max) (hsorted : DefsSorted ctx.defs)
    (hbase : dbase + ((encodeHeader es ++ tail) ++ contentOf ms fin).length ≤ 2 ^ 63)
    (hmems : MemsOK (ctx.depth.max - ctx.depth.cur) ms fin)
    (hfresh : Fresh (definedIn ctx.defs) (ms.map (·.id))) :
    ∃ ctx', objStmParse objDec vbase ctx
        (stmDict sh fs ms.length (encodeHeader es ++ tail).length len) view cur
          = (.ok ((locatedOf ms 0).map mkMember), ctx') ∧
      ((locatedOf ms 0).map mkMember).map (fun x => (x.num, x.gen, x.obj.val)) = ms.map (fun m => (m.id, 0, m.v)) ∧
      (∀ m ∈ ms, defsGet (m.id, 0) ctx'.defs = some m.v) ∧
      (∀ k, (∀ m ∈ ms, k ≠ (m.id, 0)) → defsGet k ctx'.defs = defsGet k ctx.defs) ∧
      ctx'.depth = ctx.depth := by
  obtain ⟨h1, h2, h3, h4⟩ := stmDict_spells sh fs ms.length (encodeHeader es ++ tail).length len hfit
  exact objstm_roundtrip_filtered vbase ctx _ view cur fs dbase es tail ms fin h1 h2 h3 h4 henc hstored hne hdecl hl
    htail hids hdepth hsorted hbase hmems hfresh

/-! ## the rejection side -/

/-- **`objstm_filter_error_rejects`**: whenever the filter chain the dictionary announces fails on the
    stream's content - C06's `runChain` over the loader's decoders returns an error, at whatever layer,
    for whatever reason - `ObjStreamP::parse` returns an error and the context it was given comes back
    UNCHANGED: no member is defined, whatever the rest of the dictionary says. -/
theorem objstm_filter_error_rejects (vbase : Nat) (ctx : Ctx) (dict : Dict) (view : Bytes) (cur : Nat)
    (fs : List ObjStm.Filter) (k : ErrK)
    (hfs : ObjStm.filters dict = .ok fs)
    (herr : Filters.runChain Loader.ext (fs.map toF) (view.drop cur) = .err k) :
    ∃ k', objStmParse objDec vbase ctx dict view cur = (.err k', ctx) := by
  unfold objStmParse
  have hnp := getDictInfo_no_panic dict
  cases hd : getDictInfo dict with
  | err k1 => exact ⟨k1, rfl⟩
  | panic p => exact absurd hd (hnp p)
  | ok nf =>
    obtain ⟨n, first⟩ := nf
    simp only [hfs]
    cases ctx.encrypted with
    | true => exact ⟨.guard, rfl⟩
    | false =>
      cases fs with
      | nil => simp [Filters.runChain] at herr
      | cons f t =>
        simp only [Bool.false_eq_true, if_false]
        rw [decodeLoop_objDec, herr]
        exact ⟨k, rfl⟩

/-- the same through C06's `decode_stream` model on the translated dictionary -/
theorem objstm_decode_stream_error_rejects (vbase : Nat) (ctx : Ctx) (dict : Dict) (view : Bytes) (cur : Nat) (k : ErrK)
    (herr : Filters.decodeStream Loader.ext (toFKvs dict) (view.drop cur) = .err k) :
    ∃ k', objStmParse objDec vbase ctx dict view cur = (.err k', ctx) := by
  unfold Filters.decodeStream at herr
  rw [filters_toF] at herr
  cases hfs : ObjStm.filters dict with
  | ok fs =>
    rw [hfs] at herr
    simp only [mapRes] at herr
    cases hr : Filters.runChain Loader.ext (fs.map toF) (view.drop cur) with
    | ok out => rw [hr] at herr; cases herr
    | err k1 => exact objstm_filter_error_rejects vbase ctx dict view cur fs k1 hfs hr
    | panic p => rw [hr] at herr; cases herr
  | err k1 =>
    unfold objStmParse
    have hnp := getDictInfo_no_panic dict
    cases hd : getDictInfo dict with
    | err k2 => exact ⟨k2, rfl⟩
    | panic p => exact absurd hd (hnp p)
    | ok nf => obtain ⟨n, first⟩ := nf; exact ⟨k1, by simp only [hfs]⟩
  | panic p => exact absurd hfs (filters_no_panic dict p)

/-- **`objstm_filter_dict_rejects`**: a pairing of /Filter and /DecodeParms that `StreamT::filters` refuses
    (C06 `filters_shape`, rows 4, 7, 8: a name with an array of parameters, arrays of different lengths,
    a non-name in /Filter, a parameter that is neither `null` nor a dictionary) rejects the stream. -/
theorem objstm_filter_dict_rejects (vbase : Nat) (ctx : Ctx) (dict : Dict) (view : Bytes) (cur : Nat) (k : ErrK)
    (hfs : ObjStm.filters dict = .err k) :
    ∃ k', objStmParse objDec vbase ctx dict view cur = (.err k', ctx) := by
  unfold objStmParse
  have hnp := getDictInfo_no_panic dict
  cases hd : getDictInfo dict with
  | err k2 => exact ⟨k2, rfl⟩
  | panic p => exact absurd hd (hnp p)
  | ok nf => obtain ⟨n, first⟩ := nf; exact ⟨k, by simp only [hfs]⟩

/-- a layer that cannot be decoded: the corruptions of C06's `corrupt_is_error`, or an unsupported name -/
inductive CorruptLayer : ObjStm.Filter → Bytes → Prop
  /-- a byte that is neither white space, hex digit nor `>` before the EOD marker -/
  | hexIllegal (parms : Option Dict) (pre rest : Bytes) (c : UInt8) :
      (∀ b ∈ pre, FiltersSpec.isWs b = true ∨ (FiltersSpec.hexVal b).isSome = true) →
      FiltersSpec.isWs c = false → c ≠ 0x3E → (FiltersSpec.hexVal c).isSome = false →
      CorruptLayer ⟨ObjStm.nAHex, parms⟩ (pre ++ c :: rest)
  /-- no `>` at all -/
  | hexNoEOD (parms : Option Dict) (content : Bytes) : (∀ b ∈ content, b ≠ 0x3E) → CorruptLayer ⟨ObjStm.nAHex, parms⟩ content
  /-- a `z` after 1-4 digits of a group -/
  | a85MisalignedZ (parms : Option Dict) (pre rest : Bytes) :
      (∀ b ∈ pre, Filters.isWs b = false ∧ b ≠ 0x7A ∧ b ≠ 0x7E) → pre.length % 5 ≠ 0 →
      CorruptLayer ⟨ObjStm.nA85, parms⟩ (pre ++ 0x7A :: rest)
  /-- a zlib stream the inflate rejects (truncated, wrong checksum, bad header, bad block) -/
  | flateRejected (parms : Option Dict) (e : Bytes) (k : ErrK) : Inflate.inflate e = .err k →
      CorruptLayer ⟨ObjStm.nFlate, parms⟩ e
  /-- a filter `ObjStreamP` does not support (LZWDecode, RunLengthDecode, ...) -/
  | unsupported (f : ObjStm.Filter) (e : Bytes) : knownFilter f.name = false → CorruptLayer f e

theorem corruptLayer_fails {f : ObjStm.Filter} {e : Bytes} (h : CorruptLayer f e) :
    ∃ k, Filters.applyFilter Loader.ext (toF f) e = .err k := by
  have n1 : ¬ Filters.nHex = Filters.nFlate := by decide
  have n2 : ¬ Filters.nHex = Filters.nA85 := by decide
  have n3 : ¬ Filters.nA85 = Filters.nFlate := by decide
  cases h with
  | hexIllegal parms pre rest c h1 h2 h3 h4 =>
    refine ⟨.transform, ?_⟩
    unfold Filters.applyFilter
    simp only [toF, names_eq.2.2.1, n1, n2, if_false, if_true]
    exact C06.hex_illegal_char pre rest c h1 h2 h3 h4
  | hexNoEOD parms _ h1 =>
    refine ⟨.transform, ?_⟩
    unfold Filters.applyFilter
    simp only [toF, names_eq.2.2.1, n1, n2, if_false, if_true]
    exact C06.hex_missing_eod _ h1
  | a85MisalignedZ parms pre rest h1 h2 =>
    refine ⟨.transform, ?_⟩
    unfold Filters.applyFilter
    simp only [toF, names_eq.2.1, n3, if_false, if_true]
    exact C06.a85_misaligned_z pre rest h1 h2
  | flateRejected parms e k h1 =>
    unfold Filters.applyFilter
    simp only [toF, names_eq.1, if_true]
    exact C06.flateDecode_err Loader.ext _ e k h1
  | unsupported f e h1 => exact ⟨.guard, applyFilter_unknown _ _ _ h1⟩

theorem stmChain_runChain {fs : List ObjStm.Filter} {p c : Bytes} (h : StmChain fs p c) (post : List ObjStm.Filter) :
    Filters.runChain Loader.ext ((fs ++ post).map toF) c = Filters.runChain Loader.ext (post.map toF) p := by
  induction h with
  | nil => rfl
  | cons hl _ ih =>
    obtain ⟨-, hd⟩ := stmLayer_decodes hl
    rw [objDec_eq] at hd
    simp only [List.cons_append, List.map_cons, Filters.runChain, hd, ih]

/-- **`objstm_corrupt_layer_rejects`**: the dictionary announces `pre ++ f :: post`; the content is a
    correct chain encoding for the outer layers `pre` of something that is corrupt for `f`
    (`CorruptLayer`): the stream is rejected, the context unchanged - no partial result, no member. -/
theorem objstm_corrupt_layer_rejects (vbase : Nat) (ctx : Ctx) (dict : Dict) (view : Bytes) (cur : Nat)
    (pre : List ObjStm.Filter) (f : ObjStm.Filter) (post : List ObjStm.Filter) (mid : Bytes)
    (hfs : FilterSpelled dict (pre ++ f :: post))
    (hpre : StmChain pre mid (view.drop cur)) (hbad : CorruptLayer f mid) :
    ∃ k', objStmParse objDec vbase ctx dict view cur = (.err k', ctx) := by
  obtain ⟨k, hk⟩ := corruptLayer_fails hbad
  apply objstm_filter_error_rejects vbase ctx dict view cur (pre ++ f :: post) k (filters_of_spelled _ _ hfs)
  rw [stmChain_runChain hpre (f :: post)]
  simp only [List.map_cons, Filters.runChain, hk]

/-! ## the converse and the statement's rejections, for encoded streams -/

/-- **`objstm_filtered_accepted_wellformed`**: whatever `ObjStreamP::parse` with the loader's decoders
    ACCEPTS from a stream with at least one filter: the chain decodes the content (from the cursor on)
    to some `data`, and `data` is a well-formed object stream (`ViewsGood`: /First inside the data, exactly
    /N pairs with increasing offsets, at each offset an object ending at or before the next offset,
    identifiers fresh and distinct; the members are those objects, bound in the context).  So the five
    rejections of the statement hold for filtered streams in terms of their DECODED data. -/
theorem objstm_filtered_accepted_wellformed (hs : LoaderDecoders.DecodedSizes)
    (vbase : Nat) (ctx : Ctx) (dict : Dict) (view : Bytes) (cur : Nat)
    (n first : Nat) (f : ObjStm.Filter) (fs : List ObjStm.Filter) (res : List Member) (ctx' : Ctx)
    (hdict : getDictInfo dict = .ok (n, first)) (hfs : ObjStm.filters dict = .ok (f :: fs))
    (henc : ctx.encrypted = false) (hdepth : ctx.depth.cur ≤ ctx.depth.max) (hsorted : DefsSorted ctx.defs)
    (h : objStmParse objDec vbase ctx dict view cur = (.ok res, ctx')) :
    ∃ data, Filters.runChain Loader.ext ((f :: fs).map toF) (view.drop cur) = .ok data ∧
      ViewsGood ctx n first data (.ok res, ctx') := by
  have hg := decodeLoop_good objDec (fun g d p => LoaderDecoders.applyFilter_no_panic (toF g) d p)
    (fun g d d' hd => LoaderDecoders.applyFilter_buffer hs (toF g) d d' hd) (f :: fs) (view.drop cur) (by simp)
  cases hr : decodeLoop objDec (f :: fs) (view.drop cur) with
  | err k =>
    unfold objStmParse at h
    simp only [hdict, hfs, henc, Bool.false_eq_true, if_false, hr] at h
    cases h
  | panic p => rw [hr] at hg; exact hg.elim
  | ok data =>
    rw [hr] at hg
    refine ⟨data, by rw [← decodeLoop_objDec]; exact hr, ?_⟩
    exact objstm_accepted_wellformed objDec vbase ctx dict view cur n first data 0 res ctx' hdict
      ⟨f :: fs, hfs, .inr ⟨by simp, hr, rfl⟩⟩ henc hdepth hsorted (by simpa [DecGood] using hg) h

/-- the rejection theorems of Props/C14.lean (`first_beyond_rejected`, `overrun_rejected`,
    `defined_rejected`, `repeated_rejected`, `offset_beyond_rejected`, `objstm_rejects_order(_c)`,
    `objstm_rejects_short(_c)`) take the premise `DecodesTo`; `decodesTo_of_storedAs` supplies it for an
    encoded stream.  One of them spelled out: /First at or beyond the end of the DECODED data. -/
theorem first_beyond_rejected_filtered (vbase : Nat) (ctx : Ctx) (dict : Dict) (view : Bytes) (cur : Nat)
    (fs : List ObjStm.Filter) (n first : Nat) (data : Bytes) (dbase : Nat)
    (htype : dictGet kType dict = some (.name nObjStm)) (hN : dictGet kN dict = some (.int n))
    (hFirst : dictGet kFirst dict = some (.int first))
    (hfilter : FilterSpelled dict fs) (henc : ctx.encrypted = false)
    (hstored : StoredAs fs data view cur vbase dbase) (hf : data.length ≤ first) :
    IsErr (objStmParse objDec vbase ctx dict view cur).1 :=
  first_beyond_rejected objDec vbase ctx dict view cur n first data dbase
    (dictInfo_of_entries dict n first htype hN hFirst)
    (decodesTo_of_storedAs dict fs data view cur vbase dbase hfilter hstored) henc hf

/-! ## a concrete instance: the three members of Props/C14Spelled.lean behind two filters -/

/-- `/DecodeParms <</Columns 29 /Predictor 12>>` (PNG Up on rows of 29 bytes) -/
def exParms : Dict := [(Loader.kColumns, .int 29), (Loader.kPredictor, .int 12)]
def exFs : List ObjStm.Filter := [⟨ObjStm.nAHex, none⟩, ⟨ObjStm.nFlate, some exParms⟩]
/-- the 58 bytes of `exView` as two rows -/
def exRows : List Bytes := [exView.take 29, exView.drop 29]
def exPredicted : Bytes := PredSpec.predict ⟨12, 1, 29, 8⟩ exRows
/-- the forward-filtered rows in two stored blocks, a stray LF after the zlib stream -/
def exZ : Bytes := FiltersSpec.zlibStored [exPredicted.take 17, exPredicted.drop 17] ++ [10]
/-- ... in upper-case hex digits, `>`, and junk `JUNK` BEFORE the cursor -/
def exHex : Bytes := FiltersSpec.encodeHexDigits (fun _ => true) 0 exZ ++ [0x3E]
def exViewF : Bytes := [74, 85, 78, 75] ++ exHex

theorem exParms_of : ParmsOf exParms ⟨12, 1, 29, 8⟩ where
  pred := rfl
  cols := .inl rfl
  colors := .inr ⟨rfl, rfl⟩
  bpc := .inr ⟨rfl, rfl⟩
  acc := by decide
  colsLt := by decide
  fit1 := by decide
  fit2 := by decide

theorem exRows_flatten : exRows.flatten = exView := by decide +kernel

theorem exChain : StmChain exFs exView (exViewF.drop 4) := by
  have hdrop : exViewF.drop 4 = exHex := rfl
  rw [hdrop]
  refine .cons (mid := exZ) (.plain' (.hex ?_) (fun P h => by cases h)) (.cons (mid := exView) ?_ .nil)
  · refine ⟨FiltersSpec.encodeHexDigits (fun _ => true) 0 exZ, [], rfl, by decide +kernel, .inl ?_⟩
    rw [show FiltersSpec.strip (FiltersSpec.encodeHexDigits (fun _ => true) 0 exZ)
          = FiltersSpec.encodeHexDigits (fun _ => true) 0 exZ from by decide +kernel]
    exact C06.encodeHexDigits_pairs _ _ 0
  · rw [← exRows_flatten]
    exact StmLayer.predStored [10] exParms_of (by decide +kernel) (.inr (by decide))
      (by simp [exPredicted]) (by decide +kernel)

/-- the predictor really changes the bytes, and the content shares nothing with the decoded data -/
example : exPredicted ≠ exView ∧ exPredicted.length = 60 ∧ exViewF.length = 169 := by decide +kernel

/-- every premise of `objstm_roundtrip_encoded` holds for this stream (cursor 4, after `JUNK`): the
    parser with the loader's decoders, applied to the hex text, binds the array to (11,0), the dictionary
    to (12,0) and the integer to (13,0) -/
example : ∃ ctx', objStmParse objDec 0 ctx0 (stmDict .parallel exFs 3 21 169) exViewF 4
      = (.ok ((locatedOf exMs 0).map mkMember), ctx') ∧
    defsGet (11, 0) ctx'.defs = some (.arr [.int 1, .int 2, .ref 3 0]) ∧
    defsGet (12, 0) ctx'.defs = some (.dict [([65], .int 1)]) ∧
    defsGet (13, 0) ctx'.defs = some (.int 7) ∧ defsGet (3, 0) ctx'.defs = none := by
  obtain ⟨ctx', h1, -, h3, h4, -⟩ := objstm_roundtrip_encoded 0 ctx0 exViewF 4 .parallel exFs 169 0
    exEsC [32] exMs [] trivial rfl (.inr ⟨by decide, exChain, rfl⟩) (by decide) (by decide) exEsC_layout (by decide)
    (by decide) (by decide) trivial (by decide) exMs_ok ⟨by decide, by decide⟩
  refine ⟨ctx', h1, h3 _ List.mem_cons_self, h3 _ (List.mem_cons_of_mem _ List.mem_cons_self),
    h3 _ (List.mem_cons_of_mem _ (List.mem_cons_of_mem _ List.mem_cons_self)), ?_⟩
  rw [h4 (3, 0) (by decide)]; rfl

/-- A SINGLE-COLUMN image with /Columns (and /Colors, /BitsPerComponent) left out of /DecodeParms: the
    dictionary `<</Predictor 12>>` carries the parameters (12, 1, 1, 8) (`ParmsOf` with all three defaults of
    ISO 32000-1 Table 8), and the loader's FlateDecode returns the rows of any stored-block zlib stream of
    the PNG-Up-filtered one-byte rows.  With `/Columns 2` in the same dictionary the same stream is
    rejected: the default is observable on this input. -/
def exParms1 : Dict := [(Loader.kPredictor, .int 12)]

theorem exParms1_of : ParmsOf exParms1 ⟨12, 1, 1, 8⟩ where
  pred := rfl
  cols := .inr ⟨rfl, rfl⟩
  colors := .inr ⟨rfl, rfl⟩
  bpc := .inr ⟨rfl, rfl⟩
  acc := by decide
  colsLt := by decide
  fit1 := by decide
  fit2 := by decide

example :
    let rows : List Bytes := [[55], [32], [57]]
    let z := FiltersSpec.zlibStored [PredSpec.predict ⟨12, 1, 1, 8⟩ rows]
    PredSpec.predict ⟨12, 1, 1, 8⟩ rows = [2, 55, 2, 233, 2, 25] ∧
    objDec ⟨ObjStm.nFlate, some exParms1⟩ z = .ok [55, 32, 57] ∧
    objDec ⟨ObjStm.nFlate, some [(Loader.kColumns, .int 2), (Loader.kPredictor, .int 12)]⟩ z = .err .transform := by
  refine ⟨by decide, ?_, by decide +kernel⟩
  exact flate_pred_layer exParms1 ⟨12, 1, 1, 8⟩ [[55], [32], [57]] _ exParms1_of (by decide) (.inr (by decide))
    (by decide +kernel)

/-- the rejection side, concretely: an illegal `G` in front of the hex text ... -/
example : ∃ k', objStmParse objDec 0 ctx0 (stmDict .parallel exFs 3 21 166) ([71] ++ exHex) 0 = (.err k', ctx0) :=
  objstm_corrupt_layer_rejects 0 ctx0 _ _ 0 [] ⟨ObjStm.nAHex, none⟩ [⟨ObjStm.nFlate, some exParms⟩] ([71] ++ exHex)
    (stmDict_spells .parallel exFs 3 21 166 trivial).2.2.2 .nil
    (.hexIllegal none [] exHex 71 (by simp) (by decide) (by decide) (by decide))

/-- ... and the zlib stream cut after 40 of its 82 bytes BEHIND an intact hex layer: rejected, nothing defined -/
def exHexCut : Bytes := FiltersSpec.encodeHexDigits (fun _ => true) 0 (exZ.take 40) ++ [0x3E]

example : ∃ k', objStmParse objDec 0 ctx0 (stmDict .parallel exFs 3 21 81) exHexCut 0 = (.err k', ctx0) :=
  objstm_corrupt_layer_rejects 0 ctx0 _ _ 0 [⟨ObjStm.nAHex, none⟩] ⟨ObjStm.nFlate, some exParms⟩ [] (exZ.take 40)
    (stmDict_spells .parallel exFs 3 21 81 trivial).2.2.2
    (.cons (mid := exZ.take 40)
      (.plain' (.hex ⟨FiltersSpec.encodeHexDigits (fun _ => true) 0 (exZ.take 40), [], rfl, by decide +kernel,
        .inl (by
          rw [show FiltersSpec.strip (FiltersSpec.encodeHexDigits (fun _ => true) 0 (exZ.take 40))
                = FiltersSpec.encodeHexDigits (fun _ => true) 0 (exZ.take 40) from by decide +kernel]
          exact C06.encodeHexDigits_pairs _ _ 0)⟩) (fun P h => by cases h)) .nil)
    (.flateRejected _ _ .transform (by decide +kernel))

/-- the other two spellings of `stmDict`: a single name with its parameter dictionary; an array of names -/
example : ObjStm.filters (stmDict .single [⟨ObjStm.nFlate, some exParms⟩] 3 21 0) = .ok [⟨ObjStm.nFlate, some exParms⟩] :=
  filters_of_spelled _ _ (stmDict_spells .single [⟨ObjStm.nFlate, some exParms⟩] 3 21 0 (by rfl)).2.2.2
example : ObjStm.filters (stmDict .names [⟨ObjStm.nA85, none⟩, ⟨ObjStm.nFlate, none⟩] 3 21 0)
    = .ok [⟨ObjStm.nA85, none⟩, ⟨ObjStm.nFlate, none⟩] :=
  filters_of_spelled _ _ (stmDict_spells .names _ 3 21 0 (by
    intro f hf; simp only [List.mem_cons, List.mem_nil_iff, or_false] at hf; rcases hf with rfl | rfl <;> rfl)).2.2.2

/-- a refused pairing, concretely: `/Filter /FlateDecode /DecodeParms []` (a name with an ARRAY of
    parameters) on the otherwise perfect stream of defect #17 -/
example : ∃ k', objStmParse objDec 0 ctx0
    ([(ObjStm.kDecodeParms, .arr []), (kFilter, .name ObjStm.nFlate)] ++ dict17) view17 0 = (.err k', ctx0) :=
  objstm_filter_dict_rejects 0 ctx0 _ view17 0 .guard (by rfl)

end Parsley.C14
