/-
  C14, second part - "the value bound to an identifier is the value SPELLED at its declared offset".

  Props/C14.lean proves the object-stream layer: the members are what the object reader finds at the
  declared offsets (`objstm_roundtrip`, premise `Extracts`).  Props/C02Struct.lean proves the object
  layer: the reader returns exactly the value that was spelled, for every value and every legal
  spelling (`C02.spell_parse`).  This file composes the two, with the declarative layout of
  Lemmas/ObjStmSpelled.lean, and extends the header theorems to layouts with comments:

   * `objstm_spelled_roundtrip`   decoded data = header of N `id offset` pairs in ANY layout of white
                                  space and comments, anything up to /First, and a content that holds at
                                  each declared offset an optional white-space/comment run and ANY legal
                                  spelling (`C02.Spells`) of the value, in a context satisfying
                                  `C02.Follows`, with ARBITRARY gap bytes in between:
                                  ObjStreamP::parse's model yields the members (id_k, 0, value_k) in header
                                  order and the context binds exactly (id_k, 0) -> value_k, for all
                                  values, spellings, gaps, N, filters, contexts with room for the nesting
   * `objstm_roundtrip_c`         `objstm_roundtrip` for headers with comments (premise `Extracts`)
   * `header_accepts_comments`    parse_metadata on such a header returns the declared pairs
   * `objstm_rejects_order_c`, `objstm_rejects_short_c`
                                  the two header rejections of the statement for headers with comments
   * a concrete three-member stream (array with a reference, dictionary with a dropped null entry,
     integer; comments in the header and before a member; unbalanced junk in the gaps) satisfying every
     premise - also in corpus/C14/comments.case, where the real parser is run on it
-/
import Parsley.Props.C14
import Parsley.Lemmas.ObjStmSpelled
namespace Parsley.C14
open Parsley Parsley.Prim Parsley.Obj Parsley.ObjStm Parsley.ObjStmSpec
open Parsley.C02 (WsRun Spells Follows)

/-! ## the header with comments -/

/-- **`header_accepts_comments`**: `parse_metadata` on a header of `n` pairs in any legal layout of
    white space and `%...LF` comments, offsets increasing, followed by anything that does not continue
    the last number, returns the declared pairs and stops right after the last offset. -/
theorem header_accepts_comments (n : Nat) (es : List HdrEntry) (tail : Bytes)
    (hne : es ≠ []) (hl : LayoutsC true es) (hb : Bounded es)
    (hinc : List.Pairwise (· < ·) (es.map (·.ofs))) (hn : es.length = n)
    (htail : ∀ y, tail.head? = some y → isDigit y = false) :
    parseMetadata (encodeHeader es ++ tail) n = (.ok (declared es), (encodeHeader es).length) := by
  unfold parseMetadata
  have hlen := layoutsC_length es true hl
  obtain ⟨f, hf⟩ : ∃ f, (encodeHeader es ++ tail).length + 1 = f + es.length :=
    ⟨(encodeHeader es ++ tail).length + 1 - es.length, by simp only [List.length_append] at *; omega⟩
  rw [hf]
  have := metaLoop_accept_c n es f [] tail 0 [] true hne hl hb (by simpa using chainOK_false es 0 hinc)
    (by simpa using hn) htail
  simpa using this

/-- the part of `objstm_roundtrip` after the header: whatever header `parse_metadata` accepts, if the
    content extracts `r` for it and the identifiers are fresh, these are the members -/
theorem objstm_roundtrip_of_header (dec : Decoder) (vbase : Nat) (ctx : Ctx) (dict : Dict) (view : Bytes) (cur : Nat)
    (n first : Nat) (data : Bytes) (dbase : Nat) (md : Meta) (c : Nat) (r : List (Nat × Located Obj))
    (hdict : getDictInfo dict = .ok (n, first))
    (hdec : DecodesTo dec dict view cur vbase data dbase) (henc : ctx.encrypted = false)
    (hlt : first < data.length)
    (hmeta : parseMetadata (data.take first) n = (.ok md, c))
    (hdepth : ctx.depth.cur ≤ ctx.depth.max) (hsorted : DefsSorted ctx.defs) (hbase : dbase + first ≤ 2 ^ 63)
    (hex : Extracts (readAt ctx.depth (data.drop first)) (data.drop first).length 0 md r)
    (hfresh : Fresh (definedIn ctx.defs) (md.map (·.1))) :
    ∃ ctx', objStmParse dec vbase ctx dict view cur = (.ok (r.map mkMember), ctx') ∧
      (∀ p ∈ r, defsGet (p.1, 0) ctx'.defs = some p.2.val) ∧
      (∀ k, (∀ id ∈ md.map (·.1), k ≠ (id, 0)) → defsGet k ctx'.defs = defsGet k ctx.defs) ∧
      ctx'.depth = ctx.depth := by
  rw [objStmParse_eq dec vbase ctx dict view cur n first data dbase hdict hdec henc]
  have hbnd : ∀ p ∈ md, p.2 ≤ i64Max := by
    have := parseMetadata_good (data.take first) n
    rw [hmeta] at this
    exact this.2.2
  obtain ⟨ctx', hrun⟩ := streamLoop_complete (dbase + first) (data.drop first) ctx.depth hdepth hbase
    md ctx 0 [] r rfl hbnd hex hfresh
  have hgood := streamLoop_good (dbase + first) (data.drop first) ctx.depth hdepth hbase md ctx 0 [] rfl hsorted hbnd
  rw [hrun] at hgood
  obtain ⟨r', h1, h2, -, h4, -, -, h7, h8⟩ := hgood
  have hrr : r' = r := extracts_unique _ _ _ _ _ _ h2 hex
  subst hrr
  refine ⟨ctx', ?_, h7, h8, h4⟩
  unfold parseViews
  have hflen : first ≤ data.length := by omega
  simp only [hflen, hlt, hmeta, decide_true, Bool.not_true, Bool.false_eq_true, if_false]
  simpa using hrun

/-- **`objstm_roundtrip_c`**: `objstm_roundtrip` for a header laid out with white space AND comments. -/
theorem objstm_roundtrip_c (dec : Decoder) (vbase : Nat) (ctx : Ctx) (dict : Dict) (view : Bytes) (cur : Nat)
    (n first : Nat) (data : Bytes) (dbase : Nat)
    (es : List HdrEntry) (tail content : Bytes) (r : List (Nat × Located Obj))
    (hdict : getDictInfo dict = .ok (n, first))
    (hdec : DecodesTo dec dict view cur vbase data dbase) (henc : ctx.encrypted = false)
    (hdata : data = (encodeHeader es ++ tail) ++ content) (hfirst : first = (encodeHeader es ++ tail).length)
    (hn : es.length = n) (hne : es ≠ []) (hl : LayoutsC true es) (hb : Bounded es)
    (hinc : List.Pairwise (· < ·) (es.map (·.ofs)))
    (htail : ∀ y, tail.head? = some y → isDigit y = false) (hcontent : content ≠ [])
    (hdepth : ctx.depth.cur ≤ ctx.depth.max) (hsorted : DefsSorted ctx.defs) (hbase : dbase + first ≤ 2 ^ 63)
    (hex : Extracts (readAt ctx.depth content) content.length 0 (declared es) r)
    (hfresh : Fresh (definedIn ctx.defs) (es.map (·.id))) :
    ∃ ctx', objStmParse dec vbase ctx dict view cur = (.ok (r.map mkMember), ctx') ∧
      r.map (·.1) = es.map (·.id) ∧
      (∀ p ∈ r, defsGet (p.1, 0) ctx'.defs = some p.2.val) ∧
      (∀ k, (∀ e ∈ es, k ≠ (e.id, 0)) → defsGet k ctx'.defs = defsGet k ctx.defs) ∧
      ctx'.depth = ctx.depth := by
  have hids : (declared es).map (·.1) = es.map (·.id) := by simp [declared]
  have htake : data.take first = encodeHeader es ++ tail := by
    rw [hdata, hfirst]; exact List.take_left
  have hdrop : data.drop first = content := by
    rw [hdata, hfirst]; exact List.drop_left
  have hlt : first < data.length := by
    rw [hdata, hfirst]
    have : content.length ≠ 0 := fun h => hcontent (List.length_eq_zero_iff.mp h)
    simp only [List.length_append]; omega
  have hmeta : parseMetadata (data.take first) n = (.ok (declared es), (encodeHeader es).length) := by
    rw [htake]; exact header_accepts_comments n es tail hne hl hb hinc hn htail
  obtain ⟨ctx', h1, h2, h3, h4⟩ := objstm_roundtrip_of_header dec vbase ctx dict view cur n first data dbase
    (declared es) _ r hdict hdec henc hlt hmeta hdepth hsorted hbase (by rw [hdrop]; exact hex)
    (by rw [hids]; exact hfresh)
  refine ⟨ctx', h1, by rw [extracts_ids _ _ _ _ _ hex, hids], h2, ?_, h4⟩
  intro k hk
  apply h3
  intro id hid
  rw [hids] at hid
  obtain ⟨e, he, rfl⟩ := List.mem_map.mp hid
  exact hk e he

/-! ## the composition with `spell_parse` -/

theorem locatedOf_mem : ∀ (ms : List SMem) (pos : Nat) (m : SMem), m ∈ ms →
    ∃ p ∈ locatedOf ms pos, p.1 = m.id ∧ p.2.val = m.v
  | [], _, _, h => by cases h
  | a :: t, pos, m, h => by
    rcases List.mem_cons.mp h with rfl | h
    · exact ⟨_, List.mem_cons_self, rfl, rfl⟩
    · obtain ⟨p, hp, h1, h2⟩ := locatedOf_mem t _ m h
      exact ⟨p, List.mem_cons_of_mem _ hp, h1, h2⟩

theorem locatedOf_members : ∀ (ms : List SMem) (pos : Nat),
    ((locatedOf ms pos).map mkMember).map (fun x => (x.num, x.gen, x.obj.val)) = ms.map fun m => (m.id, 0, m.v)
  | [], _ => rfl
  | m :: t, pos => by simp [locatedOf, mkMember, locatedOf_members t]

/-- **`objstm_spelled_roundtrip`**.  The decoded data of an object stream is

      header ++ tail ++ content          /First = |header ++ tail|,   /N = number of members

    where `header` is `N` pairs `id offset` in ANY layout of white space and comments (`LayoutsC`),
    `tail` is anything that does not start with a digit, and `content` (`contentOf ms fin`) holds for
    each member ARBITRARY gap bytes and then - at the offset the header declares for it - an optional
    white-space/comment run and ANY legal spelling (`C02.Spells`) of its value (of any shape and
    nesting the context's depth budget leaves room for), followed by a context that is legal after it
    (`C02.Follows`: the next gap, or the final bytes `fin`).  The identifiers fit an `i64`, are pairwise
    distinct and not yet defined; any supported filter chain that decodes to this data.

    Then the model of `ObjStreamP::parse` returns the members `(id_k, generation 0, value_k)` in header
    order, each located at its spelling, and the resulting context binds exactly
    `(id_k, 0) -> value_k` for every k, every other key and the depth being unchanged. -/
theorem objstm_spelled_roundtrip (dec : Decoder) (vbase : Nat) (ctx : Ctx) (dict : Dict) (view : Bytes) (cur : Nat)
    (n first : Nat) (data : Bytes) (dbase : Nat)
    (es : List HdrEntry) (tail : Bytes) (ms : List SMem) (fin : Bytes)
    -- the dictionary: /Type /ObjStm, /N n, /First first; any supported filter chain, not encrypted
    (hdict : getDictInfo dict = .ok (n, first))
    (hdec : DecodesTo dec dict view cur vbase data dbase) (henc : ctx.encrypted = false)
    -- the decoded data
    (hdata : data = (encodeHeader es ++ tail) ++ contentOf ms fin)
    (hfirst : first = (encodeHeader es ++ tail).length)
    (hn : ms.length = n) (hne : ms ≠ [])
    -- the header declares, in order, every member's identifier and the offset where its run starts
    (hdecl : declared es = pairsOf ms 0) (hl : LayoutsC true es)
    (htail : ∀ y, tail.head? = some y → isDigit y = false)
    (hids : ∀ m ∈ ms, m.id ≤ i64Max)
    -- the context: depth fields consistent, the map an ordered map, buffers below 2^63 bytes
    (hdepth : ctx.depth.cur ≤ ctx.depth.max) (hsorted : DefsSorted ctx.defs) (hbase : dbase + data.length ≤ 2 ^ 63)
    -- the members are legally spelled, with room for their nesting
    (hmems : MemsOK (ctx.depth.max - ctx.depth.cur) ms fin)
    -- identifiers pairwise distinct and not yet defined
    (hfresh : Fresh (definedIn ctx.defs) (ms.map (·.id))) :
    ∃ ctx', objStmParse dec vbase ctx dict view cur = (.ok ((locatedOf ms 0).map mkMember), ctx') ∧
      ((locatedOf ms 0).map mkMember).map (fun x => (x.num, x.gen, x.obj.val)) = ms.map (fun m => (m.id, 0, m.v)) ∧
      (∀ m ∈ ms, defsGet (m.id, 0) ctx'.defs = some m.v) ∧
      (∀ k, (∀ m ∈ ms, k ≠ (m.id, 0)) → defsGet k ctx'.defs = defsGet k ctx.defs) ∧
      ctx'.depth = ctx.depth := by
  have hids' : es.map (·.id) = ms.map (·.id) := by
    have := congrArg (List.map (·.1)) hdecl
    rw [pairsOf_ids] at this
    simpa [declared, Function.comp_def] using this
  have hofs : es.map (·.ofs) = (pairsOf ms 0).map (·.2) := by
    have := congrArg (List.map (·.2)) hdecl
    simpa [declared, Function.comp_def] using this
  obtain ⟨hinc, hin⟩ := pairsOf_inc _ ms fin 0 hmems
  have hlen : es.length = ms.length := by
    have := congrArg List.length hdecl
    simpa [declared, pairsOf_length] using this
  have hclen : (contentOf ms fin).length ≤ data.length := by
    rw [hdata]; simp only [List.length_append]; omega
  have hb : Bounded es := by
    intro e he
    constructor
    · have : e.id ∈ ms.map (·.id) := by rw [← hids']; exact List.mem_map_of_mem he
      obtain ⟨m, hm, hmid⟩ := List.mem_map.mp this
      rw [← hmid]; exact hids m hm
    · have : e.ofs ∈ (pairsOf ms 0).map (·.2) := by rw [← hofs]; exact List.mem_map_of_mem he
      have := (hin _ this).2
      have h63 : i64Max = 2 ^ 63 - 1 := rfl
      omega
  have hes : es ≠ [] := by
    intro h; rw [h] at hlen; exact hne (List.length_eq_zero_iff.mp hlen.symm)
  have hex := extracts_spelled ctx.depth hdepth (contentOf ms fin) ms fin 0 0 (Nat.zero_le _) rfl hmems (Nat.le_refl _)
  rw [← hdecl] at hex
  obtain ⟨ctx', h1, -, h3, h4, h5⟩ := objstm_roundtrip_c dec vbase ctx dict view cur n first data dbase es tail
    (contentOf ms fin) (locatedOf ms 0) hdict hdec henc hdata hfirst (by omega) hes hl hb (by rw [hofs]; exact hinc)
    htail (contentOf_ne _ ms fin hne hmems) hdepth hsorted
    (by rw [hfirst, hdata] at *; simp only [List.length_append] at *; omega) hex (by rw [hids']; exact hfresh)
  refine ⟨ctx', h1, locatedOf_members ms 0, ?_, ?_, h5⟩
  · intro m hm
    obtain ⟨p, hp, hp1, hp2⟩ := locatedOf_mem ms 0 m hm
    rw [← hp1, ← hp2]; exact h3 p hp
  · intro k hk
    apply h4
    intro e he
    have : e.id ∈ ms.map (·.id) := by rw [← hids']; exact List.mem_map_of_mem he
    obtain ⟨m, hm, hmid⟩ := List.mem_map.mp this
    rw [← hmid]; exact hk m hm

/-! ## the header rejections of the statement, for headers with comments -/

/-- (1) non-increasing offsets (header level, layouts with comments) -/
theorem header_order_rejected_c (n : Nat) (good : List HdrEntry) (bad : HdrEntry) (more : List HdrEntry)
    (tail : Bytes) (b : Bool)
    (hg : good ≠ []) (hl : LayoutsC b (good ++ bad :: more)) (hb : Bounded (good ++ bad :: more))
    (hinc : List.Pairwise (· < ·) (good.map (·.ofs))) (hn : good.length < n)
    (hbad : bad.ofs ≤ lastOfs 0 good)
    (hr : ∀ y, tail.head? = some y → isDigit y = false) :
    (parseMetadata (encodeHeader (good ++ bad :: more) ++ tail) n).1 = .err .guard := by
  unfold parseMetadata
  have hlen := layoutsC_length (good ++ bad :: more) b hl
  obtain ⟨f, hf⟩ : ∃ f, (encodeHeader (good ++ bad :: more) ++ tail).length + 1 = f + 1 + good.length :=
    ⟨(encodeHeader (good ++ bad :: more) ++ tail).length - good.length, by
      simp only [List.length_append, List.length_cons] at *; omega⟩
  rw [hf]
  have := metaLoop_order_c n good bad more f [] tail b hg hl hb (chainOK_false good 0 hinc) hn hbad hr
  simpa using this

/-- (2) fewer than /N pairs (header level, layouts with comments; the run `w` after the last pair
    may itself contain comments) -/
theorem header_short_rejected_c (n : Nat) (es : List HdrEntry) (w rest : Bytes) (b : Bool)
    (hl : LayoutsC b es) (hb : Bounded es) (hinc : List.Pairwise (· < ·) (es.map (·.ofs)))
    (hn : es.length < n) (hw : WsRun w)
    (hr : ∀ y, rest.head? = some y → isDigit y = false ∧ y ≠ 45 ∧ y ≠ 43 ∧ isWsEol y = false ∧ y ≠ 37) :
    (parseMetadata (encodeHeader es ++ (w ++ rest)) n).1 = .err .guard := by
  unfold parseMetadata
  have hlen := layoutsC_length es b hl
  obtain ⟨f, hf⟩ : ∃ f, (encodeHeader es ++ (w ++ rest)).length + 1 = f + 1 + es.length :=
    ⟨(encodeHeader es ++ (w ++ rest)).length - es.length, by simp only [List.length_append] at *; omega⟩
  rw [hf]
  have := metaLoop_short_c n es f [] w rest b hl hb (chainOK_false es 0 hinc) hn hw hr
  simpa using this

/-- (1) at the level of the whole parser -/
theorem objstm_rejects_order_c (dec : Decoder) (vbase : Nat) (ctx : Ctx) (dict : Dict) (view : Bytes) (cur : Nat)
    (n first : Nat) (data : Bytes) (dbase : Nat)
    (hdict : getDictInfo dict = .ok (n, first)) (hdec : DecodesTo dec dict view cur vbase data dbase)
    (henc : ctx.encrypted = false)
    (good : List HdrEntry) (bad : HdrEntry) (more : List HdrEntry) (tail : Bytes)
    (htake : data.take first = encodeHeader (good ++ bad :: more) ++ tail)
    (hg : good ≠ []) (hl : LayoutsC true (good ++ bad :: more)) (hb : Bounded (good ++ bad :: more))
    (hinc : List.Pairwise (· < ·) (good.map (·.ofs))) (hn : good.length < n)
    (hbad : bad.ofs ≤ lastOfs 0 good)
    (hr : ∀ y, tail.head? = some y → isDigit y = false) :
    IsErr (objStmParse dec vbase ctx dict view cur).1 :=
  rejected_of_header dec vbase ctx dict view cur n first data dbase hdict hdec henc .guard
    (by rw [htake]; exact header_order_rejected_c n good bad more tail true hg hl hb hinc hn hbad hr)

/-- (2) at the level of the whole parser -/
theorem objstm_rejects_short_c (dec : Decoder) (vbase : Nat) (ctx : Ctx) (dict : Dict) (view : Bytes) (cur : Nat)
    (n first : Nat) (data : Bytes) (dbase : Nat)
    (hdict : getDictInfo dict = .ok (n, first)) (hdec : DecodesTo dec dict view cur vbase data dbase)
    (henc : ctx.encrypted = false)
    (es : List HdrEntry) (w rest : Bytes)
    (htake : data.take first = encodeHeader es ++ (w ++ rest))
    (hl : LayoutsC true es) (hb : Bounded es) (hinc : List.Pairwise (· < ·) (es.map (·.ofs)))
    (hn : es.length < n) (hw : WsRun w)
    (hr : ∀ y, rest.head? = some y → isDigit y = false ∧ y ≠ 45 ∧ y ≠ 43 ∧ isWsEol y = false ∧ y ≠ 37) :
    IsErr (objStmParse dec vbase ctx dict view cur).1 :=
  rejected_of_header dec vbase ctx dict view cur n first data dbase hdict hdec henc .guard
    (by rw [htake]; exact header_short_rejected_c n es w rest true hl hb hinc hn hw hr)

/-! ## a concrete instance: the premises are satisfiable, with nested values, comments and junk -/

/-- `%c LF` -/
theorem exComment : WsRun [37, 99, 10] := WsRun.comment [99] [] (by decide) WsRun.nil

/-- three members: `x)` `%c LF` `[1 2 3 0 R]`  |  ` >>(` ` ` `<</A 1/B null>>`  |  (no gap) `7` -/
def exMs : List SMem :=
  [⟨11, [120, 41], [37, 99, 10], C02.exArr, .arr [.int 1, .int 2, .ref 3 0], 2⟩,
   ⟨12, [32, 62, 62, 40], [32], C02.exDict, .dict [([65], .int 1)], 2⟩,
   ⟨13, [], [], [55], .int 7, 1⟩]

/-- the header `%h LF 11 SP 2 | SP 12 %LF 20 | LF 13 SP 36`, then ` ` up to /First -/
def exEsC : List HdrEntry := [⟨11, 2, [37, 104, 10], [32]⟩, ⟨12, 20, [32], [37, 10]⟩, ⟨13, 36, [10], [32]⟩]

def exView : Bytes := (encodeHeader exEsC ++ [32]) ++ contentOf exMs []
def exDictS : Dict := [(kFirst, .int 21), (kN, .int 3), (kType, .name nObjStm)]

theorem exMs_ok : MemsOK 4 exMs [] :=
  ⟨exComment, C02.exArr_spells, by decide, ⟨fun h => by simp [C02.endsReg] at h, fun ⟨n, h⟩ => by cases h⟩,
   C02.ws32, C02.exDict_spells, by decide, ⟨fun h => by simp [C02.endsReg] at h, fun ⟨n, h⟩ => by cases h⟩,
   WsRun.nil, Spells.int 0 .none [55] (by simp) (by decide) (by decide), by decide, C02.follows_nil _, trivial⟩

theorem exEsC_layout : LayoutsC true exEsC :=
  ⟨⟨WsRun.comment [104] [] (by decide) WsRun.nil, C02.ws32, by simp, Or.inl rfl⟩,
   ⟨C02.ws32, WsRun.comment [] [] (by simp) WsRun.nil, by simp, Or.inr (by simp)⟩,
   ⟨WsRun.ws 10 [] (by decide) WsRun.nil, C02.ws32, by simp, Or.inr (by simp)⟩, trivial⟩

/-- every premise of `objstm_spelled_roundtrip` holds for this stream; so the array is bound to
    (11,0), the dictionary (without its null entry) to (12,0) and the integer to (13,0) -/
example : ∃ ctx', objStmParse noDec 0 ctx0 exDictS exView 0 = (.ok ((locatedOf exMs 0).map mkMember), ctx') ∧
    defsGet (11, 0) ctx'.defs = some (.arr [.int 1, .int 2, .ref 3 0]) ∧
    defsGet (12, 0) ctx'.defs = some (.dict [([65], .int 1)]) ∧
    defsGet (13, 0) ctx'.defs = some (.int 7) ∧ defsGet (3, 0) ctx'.defs = none := by
  obtain ⟨ctx', h1, -, h3, h4, -⟩ := objstm_spelled_roundtrip noDec 0 ctx0 exDictS exView 0 3 21 exView 0
    exEsC [32] exMs [] (by decide) ⟨[], rfl, Or.inl ⟨rfl, rfl, rfl⟩⟩ rfl rfl (by decide) rfl (by decide)
    (by decide) exEsC_layout (by decide) (by decide) (by decide) trivial (by decide) exMs_ok
    ⟨by decide, by decide⟩
  refine ⟨ctx', h1, h3 _ List.mem_cons_self, h3 _ (List.mem_cons_of_mem _ List.mem_cons_self),
    h3 _ (List.mem_cons_of_mem _ (List.mem_cons_of_mem _ List.mem_cons_self)), ?_⟩
  rw [h4 (3, 0) (by decide)]; rfl

/-- the spans of that example: the array at [5,16) (after `x)` and the comment), the dictionary at
    [21,36), the integer at [36,37) -/
example : (locatedOf exMs 0).map (fun p => (p.1, p.2.start, p.2.stop)) = [(11, 5, 16), (12, 21, 36), (13, 36, 37)] := by
  decide

/-- header rejections with comments, concretely: `11 %c LF 0 %c LF 12 SP 0` (offsets 0, 0) -/
example : (parseMetadata ([49, 49, 37, 99, 10, 48, 37, 99, 10, 49, 50, 32, 48] ++ [32]) 2).1 = .err .guard :=
  header_order_rejected_c 2 [⟨11, 0, [], [37, 99, 10]⟩] ⟨12, 0, [37, 99, 10], [32]⟩ [] [32] true (by simp)
    ⟨⟨WsRun.nil, exComment, by simp, Or.inl rfl⟩, ⟨exComment, C02.ws32, by simp, Or.inr (by simp)⟩, trivial⟩
    (by intro e he; simp at he; rcases he with rfl | rfl <;> exact ⟨by decide, by decide⟩)
    (by simp) (by decide) (by decide) (by decide)

end Parsley.C14
