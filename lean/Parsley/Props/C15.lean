/-
  C15 — Reported locations are faithful and failed token parsers do not consume.

  `LocOK p`: for every buffer and every cursor inside it,
    success ⇒ start = cursor-before ∧ cursor-after = end ∧ start ≤ end ≤ size,
    failure ⇒ cursor-after = cursor-before,
    and no panic site is reachable.
  Proved for every token-level parser of pdf_prim.rs (and the tag matcher).
  The combinators' clause is C18's theorems; binary integers are C19's.
-/
import Parsley.Lemmas.Prim
namespace Parsley.C15
open Parsley Parsley.Prim

/-- close a success leaf: start = i and cursor = end by `rfl`, the bounds by `omega` -/
macro "loc_ok" : tactic =>
  `(tactic| exact ⟨rfl, rfl, by dsimp only; omega, by dsimp only; omega⟩)

/-- the location clauses of C15 for one outcome, given cursor-before `i` and buffer size `n` -/
def locOK {α : Type} (i n : Nat) : Res (Located α) × Nat → Prop
  | (.ok v, c) => v.start = i ∧ c = v.stop ∧ i ≤ v.stop ∧ v.stop ≤ n
  | (.err _, c) => c = i
  | (.panic _, _) => False

theorem lok {α : Type} {i n e : Nat} {v : α} (h1 : i ≤ e) (h2 : e ≤ n) :
    locOK i n (Res.ok ⟨v, i, e⟩, e) := ⟨rfl, rfl, h1, h2⟩
theorem lerr {α : Type} {i n : Nat} {k : ErrK} : locOK (α := α) i n (Res.err k, i) := rfl

def LocOK {α : Type} (p : P α) : Prop :=
  ∀ (s : Bytes) (i : Nat), i ≤ s.length → locOK i s.length (p s i)

theorem wsNoEOL_loc (e : Bool) : LocOK (wsNoEOL e) := by
  intro s i hi
  have hb := allowed_bound isWsNoEol s i hi
  have hs := allowed_snd isWsNoEol s i
  unfold wsNoEOL
  generalize hA : allowed isWsNoEol s i = a at *
  obtain ⟨ws, j⟩ := a
  simp only at hb hs ⊢
  have hne : ws.getLast? = some 13 → 0 < ws.length := by
    intro h; cases ws with
    | nil => simp at h
    | cons a t => simp
  have hemp : ws.isEmpty = true → ws.length = 0 := by intro h; simp_all
  split
  · rename_i h
    simp only [Bool.and_eq_true] at h
    have := hemp h.1
    have hj : j = i := by omega
    subst hj; exact lerr
  · split
    · rename_i h2
      simp only [Bool.and_eq_true, beq_iff_eq] at h2
      have := hne h2.1
      split
      · exact lerr
      · loc_ok
    · loc_ok

theorem comment_loc : LocOK comment := by
  intro s i hi
  unfold comment
  split
  · exact lerr
  · rename_i h
    have hlt : i < s.length := by
      cases hp : peek s i with
      | none => simp [hp] at h
      | some b => exact peek_some_lt hp
    have hb := untilB_bound (· == 10) s (i + 1) (by omega)
    generalize untilB (· == 10) s (i + 1) = a at *
    obtain ⟨c, j⟩ := a
    simp only at hb ⊢
    split
    · rename_i h2
      have : peek s j = some 10 := by simpa using h2
      have := peek_some_lt this
      loc_ok
    · loc_ok

/-- fuel sufficiency and bounds of the whitespace/comment loop -/
theorem wsEOLLoop_spec (f : Nat) (s : Bytes) (i : Nat) (e : Bool) (hi : i ≤ s.length)
    (hf : s.length + 1 - i ≤ f) :
    ∃ j e', wsEOLLoop f s i e = some (j, e') ∧ i ≤ j ∧ j ≤ s.length ∧ (e' = true → e = true ∧ j = i) := by
  induction f generalizing i e with
  | zero => omega
  | succ f ih =>
    unfold wsEOLLoop
    have hb := allowed_bound isWsEol s i hi
    have hs := allowed_snd isWsEol s i
    generalize allowed isWsEol s i = a at *
    obtain ⟨v, j⟩ := a
    simp only at hb hs ⊢
    split
    · rename_i hp
      have hp' : peek s j = some 37 := by simpa using hp
      have hjl := peek_some_lt hp'
      have hc := comment_loc s j (by omega)
      cases hc0 : comment s j with
      | mk r k =>
        rw [hc0] at hc
        cases r with
        | ok w =>
          have hk1 := comment_consumes s j hp' w k hc0
          obtain ⟨-, hk, -, hk2⟩ := hc
          obtain ⟨j', e', h1, h2, h3, h4⟩ := ih k false (by omega) (by omega)
          refine ⟨j', e', h1, by omega, h3, ?_⟩
          intro he; have := (h4 he).1; cases this
        | err k' => exact absurd hc0 (comment_ok s j hp' k' k)
        | panic p => exact hc.elim
    · refine ⟨j, _, rfl, hb.1, hb.2, ?_⟩
      intro he
      simp only [Bool.and_eq_true, List.isEmpty_iff] at he
      simp [he.2] at hs; exact ⟨he.1, by omega⟩

theorem wsEOLLoop_ge (f : Nat) (s : Bytes) (i j : Nat) (e e' : Bool)
    (h : wsEOLLoop f s i e = some (j, e')) : i ≤ j := by
  induction f generalizing i e with
  | zero => simp [wsEOLLoop] at h
  | succ f ih =>
    unfold wsEOLLoop at h
    have hs := allowed_snd isWsEol s i
    generalize allowed isWsEol s i = a at *
    obtain ⟨v, k⟩ := a
    simp only at hs h
    split at h
    · rename_i hp
      have hp' : peek s k = some 37 := by simpa using hp
      split at h
      · rename_i w k2 hc
        have := comment_consumes s k hp' w k2 hc
        have := ih _ _ h
        omega
      · cases h
    · cases h; omega

/-- if the loop ends where it started, nothing was consumed and the `is_empty` flag is unchanged -/
theorem wsEOLLoop_empty (f : Nat) (s : Bytes) (i j : Nat) (e' : Bool)
    (h : wsEOLLoop f s i true = some (j, e')) (hj : j = i) : e' = true := by
  cases f with
  | zero => simp [wsEOLLoop] at h
  | succ f =>
    unfold wsEOLLoop at h
    have hs := allowed_snd isWsEol s i
    generalize allowed isWsEol s i = a at *
    obtain ⟨v, k⟩ := a
    simp only at hs h
    split at h
    · rename_i hp
      have hp' : peek s k = some 37 := by simpa using hp
      split at h
      · rename_i w k2 hc
        have := comment_consumes s k hp' w k2 hc
        have := wsEOLLoop_ge _ _ _ _ _ _ h
        omega
      · cases h
    · cases h
      have : v.length = 0 := by omega
      have : v = [] := List.length_eq_zero_iff.mp this
      simp [this]

theorem wsEOL_loc (e : Bool) : LocOK (wsEOL e) := by
  intro s i hi
  unfold wsEOL
  obtain ⟨j, e', h1, h2, h3, h4⟩ := wsEOLLoop_spec (s.length + 1 - i) s i true hi (Nat.le_refl _)
  rw [h1]
  simp only
  split
  · rename_i h
    simp only [Bool.and_eq_true] at h
    have := (h4 h.1).2
    subst this; exact lerr
  · exact lok (by omega) (by omega)

theorem boolean_loc : LocOK boolean := by
  intro s i hi
  unfold boolean
  split
  · rename_i j h; have := exact_ok h hi; exact lok (by omega) (by omega)
  · split
    · rename_i j h; have := exact_ok h hi; exact lok (by omega) (by omega)
    · exact lerr

theorem null_loc : LocOK null := by
  intro s i hi
  unfold null
  split
  · rename_i j h; have := exact_ok h hi; exact lok (by omega) (by omega)
  · exact lerr

theorem signPrefix_bound (s : Bytes) (i : Nat) (hi : i ≤ s.length) :
    i ≤ (signPrefix s i).2 ∧ (signPrefix s i).2 ≤ s.length := by
  unfold signPrefix
  split
  · rename_i h; have : peek s i = some 45 := by simpa using h
    have := peek_some_lt this; simp; omega
  · split
    · rename_i h; have : peek s i = some 43 := by simpa using h
      have := peek_some_lt this; simp; omega
    · simp; omega

theorem integerP_loc : LocOK integerP := by
  intro s i hi
  unfold integerP
  have h1 := signPrefix_bound s i hi
  generalize signPrefix s i = a at *
  obtain ⟨minus, i1⟩ := a
  simp only at h1 ⊢
  have h2 := allowed_bound isDigit s i1 h1.2
  generalize allowed isDigit s i1 = b at *
  obtain ⟨ds, j⟩ := b
  simp only at h1 h2 ⊢
  split
  · exact lerr
  · split
    · exact lerr
    · exact lok (by omega) (by omega)

theorem realP_loc : LocOK realP := by
  intro s i hi
  unfold realP
  have h1 := signPrefix_bound s i hi
  generalize signPrefix s i = a at *
  obtain ⟨minus, i1⟩ := a
  simp only at h1 ⊢
  have h2 := allowed_bound isDigit s i1 h1.2
  generalize allowed isDigit s i1 = b at *
  obtain ⟨ds, j⟩ := b
  simp only at h1 h2 ⊢
  split
  · exact lerr
  · split
    · exact lerr
    · split
      · rename_i hp
        have hp' : peek s j = some 46 := by simpa using hp
        have hjl := peek_some_lt hp'
        have h3 := allowed_bound isDigit s (j + 1) (by omega)
        generalize allowed isDigit s (j + 1) = c at *
        obtain ⟨fs, k⟩ := c
        simp only at h3 ⊢
        split
        · exact lerr
        · exact lok (by omega) (by omega)
      · exact lok (by omega) (by omega)

theorem hexString_loc : LocOK hexString := by
  intro s i hi
  unfold hexString
  split
  · exact lerr
  · rename_i h
    have hlt : i < s.length := by
      cases hp : peek s i with
      | none => simp [hp] at h
      | some b => exact peek_some_lt hp
    have h2 := allowed_bound (fun b => isHexDigit b || isHexWs b) s (i + 1) (by omega)
    generalize allowed (fun b => isHexDigit b || isHexWs b) s (i + 1) = c at *
    obtain ⟨bytes, j⟩ := c
    simp only at h2 ⊢
    split
    · exact lerr
    · rename_i h3
      have hj : j < s.length := by
        cases hp : peek s j with
        | none => simp [hp] at h3
        | some b => exact peek_some_lt hp
      exact lok (by omega) (by omega)

/-- the literal-string scanner ends strictly after `pos` and within the scanned bytes -/
theorem litLoop_bound (rest : Bytes) (pos : Nat) (ls : Option Nat) (depth : Nat) (acc v : Bytes) (j : Nat)
    (h : litLoop rest pos ls depth acc = some (v, j)) : pos < j ∧ j ≤ pos + rest.length := by
  induction rest generalizing pos ls depth acc with
  | nil => simp [litLoop] at h
  | cons b t ih =>
    unfold litLoop at h
    simp only at h
    repeat' split at h
    all_goals first
      | (have := ih _ _ _ _ h; simp only [List.length_cons]; omega)
      | (cases h; simp only [List.length_cons]; omega)

theorem rawLitString_loc : LocOK rawLitString := by
  intro s i hi
  unfold rawLitString
  split
  · exact lerr
  · rename_i h
    have hlt : i < s.length := by
      cases hp : peek s i with
      | none => simp [hp] at h
      | some b => exact peek_some_lt hp
    split
    · exact lerr
    · rename_i v j hl
      have := litLoop_bound _ _ _ _ _ _ _ hl
      simp only [List.length_drop] at this
      exact lok (by omega) (by omega)

theorem nameP_loc : LocOK nameP := by
  intro s i hi
  unfold nameP
  split
  · exact lerr
  · rename_i h
    have hlt : i < s.length := by
      cases hp : peek s i with
      | none => simp [hp] at h
      | some b => exact peek_some_lt hp
    have h2 := untilB_bound isNameTerm s (i + 1) (by omega)
    generalize untilB isNameTerm s (i + 1) = c at *
    obtain ⟨span, j⟩ := c
    simp only at h2 ⊢
    split
    · exact lerr
    · exact lok (by omega) (by omega)

/-- a successful name parse consumes at least the '/' -/
theorem nameP_consumes (s : Bytes) (i : Nat) (v : Located Bytes) (c : Nat) (h : nameP s i = (.ok v, c)) : i < c := by
  unfold nameP at h
  split at h
  · cases h
  · have h2 := allowed_snd (fun b => !isNameTerm b) s (i + 1)
    unfold untilB at h
    generalize allowed (fun b => !isNameTerm b) s (i + 1) = a at *
    obtain ⟨span, j⟩ := a
    simp only at h h2
    split at h
    · cases h
    · cases h; omega

theorem operatorP_loc : LocOK operatorP := by
  intro s i hi
  unfold operatorP
  have h2 := untilB_bound isNameTerm s i hi
  generalize untilB isNameTerm s i = c at *
  obtain ⟨span, j⟩ := c
  simp only at h2 ⊢
  split
  · exact lerr
  · split
    · exact lerr
    · split
      · exact lok (by omega) (by omega)
      · exact lerr

theorem skipByte_bound (b : UInt8) (s : Bytes) (j : Nat) : j ≤ skipByte b s j ∧ skipByte b s j ≤ j + 1 := by
  unfold skipByte; split <;> omega

theorem streamContentP_loc (len : Nat) (eol : Bool) : LocOK (streamContentP len eol) := by
  intro s i hi
  unfold streamContentP
  split
  · exact lerr
  · rename_i j0 h0
    have he := exact_ok_ge h0
    have b1 := skipByte_bound 13 s j0
    simp only
    split
    · exact lerr
    · split
      · exact lerr
      · have b2 := skipByte_bound 13 s (skipByte 13 s j0 + 1 + len)
        have b3 := skipByte_bound 10 s (skipByte 13 s (skipByte 13 s j0 + 1 + len))
        split
        · exact lerr
        · split
          · exact lerr
          · rename_i e3 h3
            have g1 := exact_ok_ge h3
            have g2 := exact_ok_le h3 (by decide)
            exact lok (by omega) g2

/-- **C15 (locations and failure-does-not-consume), all token parsers of pdf_prim.rs.** -/
theorem loc_faithful_tokens :
    (∀ e, LocOK (wsNoEOL e)) ∧ (∀ e, LocOK (wsEOL e)) ∧ LocOK comment ∧ LocOK boolean ∧ LocOK null ∧
    LocOK integerP ∧ LocOK realP ∧ LocOK hexString ∧ LocOK rawLitString ∧ LocOK nameP ∧
    LocOK operatorP ∧ (∀ len eol, LocOK (streamContentP len eol)) :=
  ⟨wsNoEOL_loc, wsEOL_loc, comment_loc, boolean_loc, null_loc, integerP_loc, realP_loc, hexString_loc,
   rawLitString_loc, nameP_loc, operatorP_loc, streamContentP_loc⟩

end Parsley.C15
