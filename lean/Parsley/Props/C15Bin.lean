/-
  C15 — location faithfulness, cursor restore and the RE-PARSE clause for
    (1) the binary parsers of src/pcore/prim_binary.rs (all widths, byte orders, signedness, byte vector),
    (2) the four combinators of src/pcore/prim_combinators.rs as CONTRACT-PRESERVATION theorems over
        arbitrary component parsers (generic model: Model/CombP.lean),
    (3) the composites the crate itself builds from them (the parsers of the `test_combined` module of
        prim_combinators.rs, over `AsciiChar` of prim_ascii.rs), plus mixed composites over binary and
        token parsers.
  Lemmas: Lemmas/ReparseBin.lean (from C19's `Sat` contract), Lemmas/ReparseComb.lean.

  The re-parse clause of the property text is FALSE for look-ahead composites without the side conditions
  stated here (`reparse_fails_for_positive_lookahead`, `alt_reparse_needs_failTrunc`): these are witnesses
  that the hypotheses `FailEOB` / `FailTrunc` of `not_reparses` / `alt_reparses` cannot be dropped.
-/
import Parsley.Lemmas.ReparseComb
namespace Parsley.C15
open Parsley Parsley.Bin Parsley.BinSpec Parsley.CombP Parsley.Prim Parsley.Shift Parsley.Trunc

/-! ## (1) binary parsers -/

/-- every binary parser is a window parser of its width: C19's contract + injectivity of `toNat`/`toInt` -/
theorem bin_windows (e : Endian) (len : Nat) :
    Win uint8P 1 ∧ Win (uint16P e) 2 ∧ Win (uint32P e) 4 ∧ Win (uint64P e) 8 ∧
    Win int8P 1 ∧ Win (int16P e) 2 ∧ Win (int32P e) 4 ∧ Win (int64P e) 8 ∧ Win (byteVecP len) len :=
  ⟨uint8_win, uint16_win e, uint32_win e, uint64_win e, int8_win, int16_win e, int32_win e, int64_win e,
   win_byteVec len⟩

/-- **C15 for a `w`-byte binary parser, success clauses**: the reported span is `[cursor-before,
    cursor-before + w)`, inside the buffer, and the cursor afterwards is its end - the span is exactly
    the bytes consumed. -/
theorem bin_span_is_consumed {α : Type} {p : P α} {w : Nat} (h : Win p w) (s : Bytes) (i : Nat)
    (hi : i ≤ s.length) (v : Located α) (c : Nat) (hp : p s i = (.ok v, c)) :
    v.start = i ∧ v.stop = i + w ∧ c = v.stop ∧ v.stop ≤ s.length := by
  cases hw : window s i w with
  | none => rw [h.1 s i hi hw] at hp; cases hp
  | some bs =>
    obtain ⟨v', hv, -⟩ := h.2 s i bs hw
    have hb := window_bound hw
    rw [hv] at hp
    simp only [Prod.mk.injEq, Res.ok.injEq] at hp
    obtain ⟨h1, h2⟩ := hp
    subst h1
    exact ⟨rfl, rfl, h2.symm, hb⟩

/-- **the value is determined by the spanned bytes alone**: two successful parses (any buffers, any
    cursors) whose spans hold the same bytes return the same value. -/
theorem bin_value_determined {α : Type} {p : P α} {w : Nat} (h : Win p w) (s s' : Bytes) (i i' : Nat)
    (hi : i ≤ s.length) (hi' : i' ≤ s'.length) (v v' : Located α) (c c' : Nat)
    (hp : p s i = (.ok v, c)) (hp' : p s' i' = (.ok v', c'))
    (hb : (s.drop v.start).take (v.stop - v.start) = (s'.drop v'.start).take (v'.stop - v'.start)) :
    v.val = v'.val := by
  obtain ⟨a1, a2, -, -⟩ := bin_span_is_consumed h s i hi v c hp
  obtain ⟨b1, b2, -, -⟩ := bin_span_is_consumed h s' i' hi' v' c' hp'
  rw [a1, a2, b1, b2] at hb
  have e1 : i + w - i = w := by omega
  have e2 : i' + w - i' = w := by omega
  rw [e1, e2] at hb
  cases hw : window s i w with
  | none => rw [h.1 s i hi hw] at hp; cases hp
  | some bs =>
    cases hw' : window s' i' w with
    | none => rw [h.1 s' i' hi' hw'] at hp'; cases hp'
    | some bs' =>
      have : bs' = bs := by rw [window_eq hw, window_eq hw', hb]
      subst this
      obtain ⟨x, hx, hdet⟩ := h.2 s i _ hw
      rw [hx] at hp
      rw [hdet s' i' hw'] at hp'
      simp only [Prod.mk.injEq, Res.ok.injEq] at hp hp'
      rw [← hp.1, ← hp'.1]

/-- **failure clause**: a binary parser fails only with `EndOfBuffer`, only when fewer than `w` bytes
    remain, and leaves the cursor exactly where it was - also the 16/32/64-bit parsers whose first half
    succeeded and consumed before the second half failed. -/
theorem bin_failure_keeps_cursor {α : Type} {p : P α} {w : Nat} (h : Win p w) (s : Bytes) (i : Nat)
    (hi : i ≤ s.length) (k : ErrK) (c : Nat) (hp : p s i = (.err k, c)) :
    c = i ∧ k = .eob ∧ s.length < i + w := by
  cases hw : window s i w with
  | none =>
    rw [h.1 s i hi hw] at hp
    simp only [Prod.mk.injEq, Res.err.injEq] at hp
    refine ⟨hp.2.symm, hp.1.symm, ?_⟩
    unfold window at hw
    split at hw
    · cases hw
    · omega
  | some bs => obtain ⟨v, hv, -⟩ := h.2 s i bs hw; rw [hv] at hp; cases hp

/-- **re-parse clause**: parsing the reported span alone gives the same value, located at `[0, w)`. -/
theorem bin_reparses (e : Endian) (len : Nat) :
    Reparses uint8P ∧ Reparses (uint16P e) ∧ Reparses (uint32P e) ∧ Reparses (uint64P e) ∧
    Reparses int8P ∧ Reparses (int16P e) ∧ Reparses (int32P e) ∧ Reparses (int64P e) ∧
    Reparses (byteVecP len) :=
  ⟨win_reparses uint8_win, win_reparses (uint16_win e), win_reparses (uint32_win e),
   win_reparses (uint64_win e), win_reparses int8_win, win_reparses (int16_win e),
   win_reparses (int32_win e), win_reparses (int64_win e), win_reparses (win_byteVec len)⟩

/-- `LocOK` (start = cursor-before, cursor-after = end ≤ size, failure keeps the cursor, no panic) -/
theorem bin_loc_faithful (e : Endian) (len : Nat) :
    LocOK uint8P ∧ LocOK (uint16P e) ∧ LocOK (uint32P e) ∧ LocOK (uint64P e) ∧
    LocOK int8P ∧ LocOK (int16P e) ∧ LocOK (int32P e) ∧ LocOK (int64P e) ∧ LocOK (byteVecP len) :=
  ⟨win_loc uint8_win, win_loc (uint16_win e), win_loc (uint32_win e), win_loc (uint64_win e),
   win_loc int8_win, win_loc (int16_win e), win_loc (int32_win e), win_loc (int64_win e),
   win_loc (win_byteVec len)⟩

theorem local_of_pre {α : Type} {p : P α} (hl : LocOK p) (hp : Pre p) (ht : Trunc p) : Local (Sh.plain α) p :=
  ⟨hl, fun pre s i => by simp only [Sh.plain]; rw [shiftV_id]; exact hp pre s i, ht⟩

theorem faithful_of_pre {α : Type} {p : P α} (hl : LocOK p) (hp : Pre p) (ht : TruncC p) :
    Faithful (Sh.plain α) p :=
  ⟨hl, fun pre s i => by simp only [Sh.plain]; rw [shiftV_id]; exact hp pre s i, ht⟩

theorem win_local {α : Type} {p : P α} {w : Nat} (h : Win p w) (hp : Pre p) : Local (Sh.plain α) p :=
  local_of_pre (win_loc h) hp (win_trunc h)

/-- the binary parsers satisfy the component contract of the combinator theorems below (`Local`), their
    failures survive truncation and their successes survive extension -/
theorem bin_local (e : Endian) (len : Nat) :
    Local (Sh.plain _) uint8P ∧ Local (Sh.plain _) (uint16P e) ∧ Local (Sh.plain _) (uint32P e) ∧
    Local (Sh.plain _) (uint64P e) ∧ Local (Sh.plain _) int8P ∧ Local (Sh.plain _) (int16P e) ∧
    Local (Sh.plain _) (int32P e) ∧ Local (Sh.plain _) (int64P e) ∧ Local (Sh.plain _) (byteVecP len) :=
  ⟨win_local uint8_win uint8_pre, win_local (uint16_win e) (uint16_pre e), win_local (uint32_win e) (uint32_pre e),
   win_local (uint64_win e) (uint64_pre e), win_local int8_win int8_pre, win_local (int16_win e) (int16_pre e),
   win_local (int32_win e) (int32_pre e), win_local (int64_win e) (int64_pre e),
   win_local (win_byteVec len) (byteVecP_pre len)⟩

/-! non-vacuity (tests on concrete inputs): success, failure after a consumed first half, re-parse -/
example : uint32P .little [9, 1, 2, 3, 4, 9] 1 = (.ok ⟨0x04030201, 1, 5⟩, 5) := by decide
example : uint32P .little (([9, 1, 2, 3, 4, 9].drop 1).take 4) 0 = (.ok ⟨0x04030201, 0, 4⟩, 4) := by decide
example : uint32P .big [1, 2, 3] 0 = (.err .eob, 0) ∧ (uint16P .big [1, 2, 3] 0).2 = 2 := by decide
example : int16P .big [0, 0xFF, 0xFE] 1 = (.ok ⟨-2, 1, 3⟩, 3) := by decide
example : byteVecP 2 [7, 8, 9] 1 = (.ok ⟨[8, 9], 1, 3⟩, 3) ∧ byteVecP 2 [7, 8, 9] 2 = (.err .eob, 2) := by decide

/-! ## (2) the combinators: contract preservation over arbitrary components -/

/-- **`Sequence`**: if the first component is local and the second faithful, the span of a successful
    sequence re-parses to the same pair, the components' own locations re-based to the span. -/
theorem seq_reparses {α β : Type} {sh1 : Sh α} {sh2 : Sh β} {p1 : P α} {p2 : P β}
    (h1 : Local sh1 p1) (h2 : Faithful sh2 p2) :
    ReparsesV (Sh.prod (Sh.loc sh1) (Sh.loc sh2)).down (seqP p1 p2) :=
  (seq_faithful h1 h2).reparses

/-- **`Alternate`**: faithful branches, failures of the first branch survive truncation. -/
theorem alt_reparses {α β : Type} {sh1 : Sh α} {sh2 : Sh β} {p1 : P α} {p2 : P β}
    (h1 : Faithful sh1 p1) (f1 : FailTrunc p1) (h2 : Faithful sh2 p2) :
    ReparsesV (Sh.alt (Sh.loc sh1) (Sh.loc sh2)).down (altP p1 p2) :=
  (alt_faithful h1 f1 h2).reparses

/-- **`Star`**: local, consuming body. -/
theorem star_reparses {α : Type} {sh : Sh α} {p : P α} (h : Local sh p) (hcons : Consumes p) :
    ReparsesV (Sh.list (Sh.loc sh)).down (starP p) :=
  (star_faithful h hcons).reparses

/-- **`Not`**: body with faithful locations that fails at the end of the buffer; the span is empty. -/
theorem not_reparses {α : Type} {sh : Sh α} {p : P α} (l : LocOK p) (hp : PreV sh.up p) (f : FailEOB p) :
    Reparses (notP p) :=
  (not_faithful l hp f).reparses_plain

/-- **location clauses of the four combinators**, from the location clauses of the components alone -/
theorem comb_loc_faithful {α β : Type} {p1 : P α} {p2 : P β} (l1 : LocOK p1) (l2 : LocOK p2)
    (hcons : Consumes p1) :
    LocOK (seqP p1 p2) ∧ LocOK (altP p1 p2) ∧ LocOK (starP p1) ∧ LocOK (notP p1) :=
  ⟨seq_loc l1 l2, alt_loc l1 l2, star_loc l1 hcons, not_loc l1⟩

/-- **failure clause of the four combinators, for ARBITRARY components** (no contract assumed, also
    components that leave the cursor anywhere when they fail): a failed `Sequence` / `Alternate` / `Not`
    leaves the cursor where the attempt started - in particular a sequence whose first component
    succeeded and consumed before the second failed - and `Star` never fails. -/
theorem comb_failure_restores_cursor {α β : Type} (p1 : P α) (p2 : P β) (s : Bytes) (i : Nat)
    (hi : i ≤ s.length) (k : ErrK) (c : Nat) :
    (seqP p1 p2 s i = (.err k, c) → c = i) ∧ (altP p1 p2 s i = (.err k, c) → c = i) ∧
    (notP p1 s i = (.err k, c) → c = i) ∧ starP p1 s i ≠ (.err k, c) :=
  ⟨seq_failure_restores p1 p2 s i hi k c, alt_failure_restores p1 p2 s i hi k c,
   not_failure_restores p1 s i hi k c, star_never_fails p1 s i k c⟩

/-! ### the side conditions cannot be dropped -/

/-- `AsciiChar::new_guarded(|c| *c == b)` -/
def chr (b : UInt8) : P UInt8 := chrP (some (· == b))
/-- `AsciiChar::new()` -/
def anyChr : P UInt8 := chrP none

/-- **The re-parse clause is false for positive look-ahead.**  `Not(Not('B'))` succeeds on `B` with the
    empty span `[0,0)`; parsing the empty span alone fails.  (`Not('B')` does not fail at the end of the
    buffer: the hypothesis `FailEOB` of `not_reparses` is necessary.) -/
theorem reparse_fails_for_positive_lookahead :
    notP (notP (chr 66)) [66] 0 = (.ok ⟨(), 0, 0⟩, 0) ∧
    notP (notP (chr 66)) (([66].drop 0).take (0 - 0)) 0 = (.err .guard, 0) ∧
    ¬ Reparses (notP (notP (chr 66))) := by
  have h1 : notP (notP (chr 66)) [66] 0 = (.ok ⟨(), 0, 0⟩, 0) := by decide
  have h2 : notP (notP (chr 66)) (([66].drop 0).take (0 - 0)) 0 = (.err .guard, 0) := by decide
  refine ⟨h1, h2, fun h => ?_⟩
  have := h [66] 0 (Nat.zero_le _) _ _ h1
  rw [h2] at this
  cases this

/-- **… and for an ordered choice whose first branch looks ahead.**  `Alternate(Sequence('A', Not('B')), 'A')`
    on `AB` takes the right branch with span `A`; on the span alone the first branch succeeds: the value
    changes from `Right` to `Left`.  (The hypothesis `FailTrunc` of `alt_reparses` is necessary.) -/
theorem alt_reparse_needs_failTrunc :
    altP (seqP (chr 65) (notP (chr 66))) (chr 65) [65, 66] 0 = (.ok ⟨.right ⟨65, 0, 1⟩, 0, 1⟩, 1) ∧
    altP (seqP (chr 65) (notP (chr 66))) (chr 65) (([65, 66].drop 0).take (1 - 0)) 0 =
      (.ok ⟨.left ⟨(⟨65, 0, 1⟩, ⟨(), 1, 1⟩), 0, 1⟩, 0, 1⟩, 1) :=
  ⟨rfl, rfl⟩

/-! ## (3) instances: the composites built in the crate -/

/-- positions inside the value of a `Sequence` / `Alternate` / `Star` over components `a`, `b` -/
abbrev Sh.seqOf {α β : Type} (a : Sh α) (b : Sh β) : Sh (Located α × Located β) := Sh.prod (Sh.loc a) (Sh.loc b)
abbrev Sh.altOf {α β : Type} (a : Sh α) (b : Sh β) : Sh (Alt (Located α) (Located β)) := Sh.alt (Sh.loc a) (Sh.loc b)
abbrev Sh.starOf {α : Type} (a : Sh α) : Sh (List (Located α)) := Sh.list (Sh.loc a)
/-- a character carries no position -/
abbrev shC : Sh UInt8 := Sh.plain UInt8

theorem chr_local (b : UInt8) : Local (Sh.plain UInt8) (chr b) := chrP_local _
theorem chr_consumes (b : UInt8) : Consumes (chr b) := chrP_consumes _
theorem chr_failTrunc (b : UInt8) : FailTrunc (chr b) := chrP_failTrunc _
theorem chr_ext (b : UInt8) : Ext (chr b) := chrP_ext _

/-- `AsciiChar` itself (prim_ascii.rs), guarded or not -/
theorem asciiChar_reparses (g : Option (UInt8 → Bool)) : Reparses (chrP g) :=
  (chrP_local g).faithful.reparses_plain

/-- `Star(Sequence('A','B'))`  (test_combined::test_star_seq) -/
theorem star_seqAB_faithful (a b : UInt8) : Faithful (Sh.starOf (Sh.seqOf shC shC)) (starP (seqP (chr a) (chr b))) :=
  star_faithful (seq_local (chr_local a) (chr_local b))
    (seq_consumes (chr_local a).loc (chr_local b).loc (Or.inl (chr_consumes a)))

/-- `Star(Alternate('A','B'))`  (test_combined::test_star_alt) -/
theorem star_altAB_faithful (a b : UInt8) : Faithful (Sh.starOf (Sh.altOf shC shC)) (starP (altP (chr a) (chr b))) :=
  star_faithful (alt_local (chr_local a) (chr_failTrunc a) (chr_local b))
    (alt_consumes (chr_consumes a) (chr_consumes b) (chr_local a).loc (chr_local b).loc)

/-- `Sequence(Star('A'), Star('B'))`  (test_combined::test_seq_star) -/
theorem seq_starA_starB_faithful (a b : UInt8) :
    Faithful (Sh.seqOf (Sh.starOf shC) (Sh.starOf shC)) (seqP (starP (chr a)) (starP (chr b))) :=
  seq_faithful (star_local (chr_local a) (chr_consumes a) (chr_failTrunc a))
    (star_faithful (chr_local b) (chr_consumes b))

/-- `Alternate(Star('A'), Star('B'))`  (test_combined::test_alt_star) -/
theorem alt_starA_starB_faithful (a b : UInt8) :
    Faithful (Sh.altOf (Sh.starOf shC) (Sh.starOf shC)) (altP (starP (chr a)) (starP (chr b))) :=
  alt_faithful (star_faithful (chr_local a) (chr_consumes a)) (star_failTrunc _)
    (star_faithful (chr_local b) (chr_consumes b))

/-- `Alternate(Sequence('A','B'), Sequence('B','A'))`  (test_combined::test_alt_seq) -/
theorem alt_seqAB_seqBA_faithful (a b : UInt8) :
    Faithful (Sh.altOf (Sh.seqOf shC shC) (Sh.seqOf shC shC)) (altP (seqP (chr a) (chr b)) (seqP (chr b) (chr a))) :=
  alt_faithful (seq_local (chr_local a) (chr_local b)).faithful
    (seq_failTrunc (chr_local a).loc (chr_ext a) (chr_failTrunc b))
    (seq_local (chr_local b) (chr_local a)).faithful

/-- `Sequence(Alternate('A','B'), Alternate('B','A'))`  (test_combined::test_seq_alt) -/
theorem seq_altAB_altBA_faithful (a b : UInt8) :
    Faithful (Sh.seqOf (Sh.altOf shC shC) (Sh.altOf shC shC)) (seqP (altP (chr a) (chr b)) (altP (chr b) (chr a))) :=
  seq_faithful (alt_local (chr_local a) (chr_failTrunc a) (chr_local b))
    (alt_local (chr_local b) (chr_failTrunc b) (chr_local a)).faithful

/-- `Not(Alternate('A','B'))`  (test_not) -/
theorem not_altAB_faithful (a b : UInt8) : Faithful (Sh.plain Unit) (notP (altP (chr a) (chr b))) :=
  not_faithful (alt_loc (chr_local a).loc (chr_local b).loc) (alt_pre (chr_local a).pre (chr_local b).pre)
    (failEOB_of_consumes (alt_loc (chr_local a).loc (chr_local b).loc)
      (alt_consumes (chr_consumes a) (chr_consumes b) (chr_local a).loc (chr_local b).loc))

/-- **C15 on the composites of the crate**: every parser built in `prim_combinators.rs::test_combined` /
    `test_not` has faithful locations, restores the cursor on failure, never panics, and its reported span
    re-parses to the same value (component locations re-based to the span). -/
theorem crate_composites_reparse (a b : UInt8) :
    ReparsesV (Sh.starOf (Sh.seqOf shC shC)).down (starP (seqP (chr a) (chr b))) ∧
    ReparsesV (Sh.starOf (Sh.altOf shC shC)).down (starP (altP (chr a) (chr b))) ∧
    ReparsesV (Sh.seqOf (Sh.starOf shC) (Sh.starOf shC)).down (seqP (starP (chr a)) (starP (chr b))) ∧
    ReparsesV (Sh.altOf (Sh.starOf shC) (Sh.starOf shC)).down (altP (starP (chr a)) (starP (chr b))) ∧
    ReparsesV (Sh.altOf (Sh.seqOf shC shC) (Sh.seqOf shC shC)).down (altP (seqP (chr a) (chr b)) (seqP (chr b) (chr a))) ∧
    ReparsesV (Sh.seqOf (Sh.altOf shC shC) (Sh.altOf shC shC)).down (seqP (altP (chr a) (chr b)) (altP (chr b) (chr a))) ∧
    Reparses (notP (altP (chr a) (chr b))) :=
  ⟨(star_seqAB_faithful a b).reparses, (star_altAB_faithful a b).reparses,
   (seq_starA_starB_faithful a b).reparses, (alt_starA_starB_faithful a b).reparses,
   (alt_seqAB_seqBA_faithful a b).reparses, (seq_altAB_altBA_faithful a b).reparses,
   (not_altAB_faithful a b).reparses_plain⟩

/-- mixed composites: a record of a big-endian `u16` followed by a 2-byte vector, repeated (`Star` of a
    `Sequence` of binary parsers), and a token pair `IntegerP` then `WhitespaceNoEOL` (the second only
    faithful: it looks one byte ahead for the `\r` give-back) -/
theorem mixed_composites_reparse (e : Endian) (n : Nat) (eol : Bool) :
    ReparsesV (Sh.starOf (Sh.seqOf (Sh.plain UInt16) (Sh.plain Bytes))).down (starP (seqP (uint16P e) (byteVecP (n + 1)))) ∧
    ReparsesV (Sh.seqOf (Sh.plain Int) (Sh.plain Unit)).down (seqP integerP (wsNoEOL eol)) := by
  have hb := bin_local e (n + 1)
  constructor
  · exact (star_faithful (seq_local hb.2.1 hb.2.2.2.2.2.2.2.2)
      (seq_consumes hb.2.1.loc hb.2.2.2.2.2.2.2.2.loc (Or.inl (win_consumes (uint16_win e) (by omega))))).reparses
  · exact (seq_faithful (local_of_pre integerP_loc integerP_pre integerP_trunc)
      (faithful_of_pre (wsNoEOL_loc eol) (wsNoEOL_pre eol) (wsNoEOL_truncC eol))).reparses

/-! non-vacuity (tests on concrete inputs) -/
example : (starP (seqP (chr 65) (chr 66)) [65, 66, 65, 66, 65, 67] 0).2 = 4 := by decide
example : (starP (seqP (chr 65) (chr 66)) (([65, 66, 65, 66, 65, 67].drop 0).take 4) 0).2 = 4 := by decide
/-- a sequence whose first component succeeded and consumed: the cursor is back at 1 -/
example : seqP (chr 65) (chr 66) [66, 65, 65] 1 = (.err .guard, 1) ∧ (chr 65 [66, 65, 65] 1).2 = 2 := by decide
example : notP (altP (chr 65) (chr 66)) [67] 0 = (.ok ⟨(), 0, 0⟩, 0) ∧
    notP (altP (chr 65) (chr 66)) [65] 0 = (.err .guard, 0) := by decide

end Parsley.C15
