/-
  C15 for the file-level parsers that had no location theorem of their own:

    Xref.xrefEntP          (pdf_file.rs XrefEntP, the 20-byte classic cross-reference entry)
    FileParts.startXrefP   (pdf_file.rs StartXrefP)
    FileParts.headerP      (pdf_file.rs HeaderP)
    Rtps.headerP, Rtps.subHdrP, Rtps.protocolVersionP, Rtps.vendorIdP, Rtps.guidPrefixP
                           (rtps_packet.rs / rtps_prim.rs)

  For each: the reported location is faithful (`start` = cursor before, `stop` = cursor after, inside
  the buffer, the exact width where the parser is fixed-width), what a failure does to the cursor, no
  panic from a cursor inside the buffer, and the re-parse clause (`Reparses`, Props/C15Reparse.lean):
  the reported span parsed alone yields an equal value.  For the fixed-width parsers the value is a
  function of the bytes of the span and of nothing else (`WinDet`).

  Leaf module: nothing imports it.
-/
import Parsley.Props.C13
import Parsley.Lemmas.ReparseBin
import Parsley.Lemmas.Rtps
import Parsley.Model.FileParts
namespace Parsley.C15
open Parsley Parsley.Prim Parsley.Shift Parsley.Trunc Parsley.BinSpec

/-! ## generic: fixed-width location clause, window determinacy, success-only composition -/

/-- the location clauses of C15 for one outcome of a parser of fixed width `w` -/
def locW {α : Type} (w i n : Nat) : Res (Located α) × Nat → Prop
  | (.ok v, c) => v.start = i ∧ v.stop = i + w ∧ c = v.stop ∧ v.stop ≤ n
  | (.err _, c) => c = i
  | (.panic _, _) => False

/-- `p` has width `w`: success spans exactly `[i, i+w)` inside the buffer and leaves the cursor at
    `i+w`; failure leaves the cursor at `i`; no panic (cursor inside the buffer). -/
def LocW {α : Type} (p : P α) (w : Nat) : Prop :=
  ∀ (s : Bytes) (i : Nat), i ≤ s.length → locW w i s.length (p s i)

theorem LocW.toLocOK {α : Type} {p : P α} {w : Nat} (h : LocW p w) : LocOK p := by
  intro s i hi
  have := h s i hi
  cases hr : p s i with
  | mk r c =>
    rw [hr] at this
    cases r with
    | ok v => obtain ⟨a, b, c1, d⟩ := this; exact ⟨a, c1, by omega, d⟩
    | err k => exact this
    | panic q => exact this

/-- the success part of `LocW` -/
def LocSW {α : Type} (p : P α) (w : Nat) : Prop :=
  ∀ (s : Bytes) (i : Nat), i ≤ s.length → ∀ (v : Located α) (c : Nat), p s i = (.ok v, c) →
    v.start = i ∧ v.stop = i + w ∧ c = v.stop ∧ v.stop ≤ s.length

theorem LocW.toLocSW {α : Type} {p : P α} {w : Nat} (h : LocW p w) : LocSW p w := by
  intro s i hi v c hp
  have := h s i hi
  rw [hp] at this
  exact this

/-- **window determinacy**: the value of a success is a function of the `w` bytes under the cursor
    and of nothing else - wherever the same `w` bytes are found (any buffer, any cursor) the parser
    succeeds with the same value, span `[i', i'+w)` and cursor `i'+w`. -/
def WinDet {α : Type} (p : P α) (w : Nat) : Prop :=
  ∀ (s : Bytes) (i : Nat), i ≤ s.length → ∀ (v : Located α) (c : Nat), p s i = (.ok v, c) →
    ∀ (s' : Bytes) (i' : Nat), (s'.drop i').take w = (s.drop i).take w →
      p s' i' = (.ok ⟨v.val, i', i' + w⟩, i' + w)

/-- an equal non-empty window of full length lies inside the other buffer -/
theorem bound_of_window_eq {s s' : Bytes} {i i' w : Nat} (hw : 0 < w) (hb : i + w ≤ s.length)
    (he : (s'.drop i').take w = (s.drop i).take w) : i' + w ≤ s'.length := by
  have hlen := congrArg List.length he
  simp only [List.length_take, List.length_drop] at hlen
  omega

theorem win_winDet {α : Type} {p : P α} {w : Nat} (h : Win p w) (hw : 0 < w) : WinDet p w := by
  intro s i hi v c hp s' i' he
  cases hwin : window s i w with
  | none => rw [h.1 s i hi hwin] at hp; cases hp
  | some bs =>
    obtain ⟨v', hv, hdet⟩ := h.2 s i bs hwin
    rw [hv] at hp
    simp only [Prod.mk.injEq, Res.ok.injEq] at hp
    obtain ⟨h1, -⟩ := hp
    subst h1
    have hb := window_bound hwin
    have hbs := window_eq hwin
    have hb' := bound_of_window_eq hw hb he
    have : window s' i' w = some bs := by unfold window; rw [if_pos hb', he, hbs]
    exact hdet s' i' this

theorem win_locW {α : Type} {p : P α} {w : Nat} (h : Win p w) : LocW p w := by
  intro s i hi
  cases hw : window s i w with
  | none => rw [h.1 s i hi hw]; exact rfl
  | some bs =>
    obtain ⟨v, hv, -⟩ := h.2 s i bs hw
    rw [hv]
    exact ⟨rfl, rfl, rfl, window_bound hw⟩

/-- fixed width + window determinacy give the re-parse clause -/
theorem reparses_of_winDet {α : Type} {p : P α} {w : Nat} (hl : LocSW p w) (hd : WinDet p w) :
    Reparses p := by
  intro s i hi v c hp
  obtain ⟨h1, h2, -, -⟩ := hl s i hi v c hp
  have := hd s i hi v c hp ((s.drop i).take w) 0 (by simp [List.take_take])
  have e : i + w - i = w := by omega
  rw [h1, h2, e]
  simpa using this

/-- the success part of `LocOK` -/
def LocS {α : Type} (p : P α) : Prop :=
  ∀ (s : Bytes) (i : Nat), i ≤ s.length → ∀ (v : Located α) (c : Nat), p s i = (.ok v, c) →
    v.start = i ∧ c = v.stop ∧ i ≤ v.stop ∧ v.stop ≤ s.length

theorem LocOK.toLocS {α : Type} {p : P α} (h : LocOK p) : LocS p := by
  intro s i hi v c hp
  have := h s i hi
  rw [hp] at this
  exact this

/-- `reparsesV_of` (Props/C15Reparse.lean) needs the location clause for successes only: a parser that
    does not restore the cursor on failure (so `LocOK` is false) still re-parses. -/
theorem reparsesV_of_succ {α : Type} {p : P α} (g f : Nat → α → α) (hfg : ∀ k x, f k (g k x) = x)
    (hl : LocS p) (hp : PreV g p) (ht : TruncC p) : ReparsesV f p := by
  intro s i hi v c h
  obtain ⟨h1, h2, h3, h4⟩ := hl s i hi v c h
  have hlen : (s.take i).length = i := by simp only [List.length_take]; omega
  have hpre := hp (s.take i) (s.drop i) 0
  rw [hlen, Nat.add_zero, List.take_append_drop, h] at hpre
  cases hq : p (s.drop i) 0 with
  | mk r c' =>
    rw [hq] at hpre
    cases r with
    | err e => cases hpre
    | panic q => cases hpre
    | ok w =>
      obtain ⟨g1, g2, -, -⟩ := hl (s.drop i) 0 (Nat.zero_le _) w c' hq
      have htr := ht (s.drop i) 0 w c' (Nat.zero_le _) hq
      simp only [shiftV, Prod.mk.injEq, Res.ok.injEq] at hpre
      obtain ⟨hv, hc⟩ := hpre
      subst hv
      simp only [g1, Nat.add_zero, hfg] at h1 h2 h3 ⊢
      have e1 : i + w.stop - i = w.stop := by omega
      rw [e1, ← g2, htr]
      congr 2
      cases w; simp_all

theorem reparses_of_succ {α : Type} {p : P α} (hl : LocS p) (hp : Pre p) (ht : TruncC p) : Reparses p := by
  have := reparsesV_of_succ (p := p) (fun _ x => x) (fun _ x => x) (fun _ _ => rfl) hl
    (fun pre s i => by rw [shiftV_id]; exact hp pre s i) ht
  exact this

/-! ## 1. `XrefEntP` (the 20-byte classic cross-reference entry)

  `C13.entry_spec` characterises the parser by the 20 bytes under the cursor
  (`XrefSpec.entryAt s i = entryForm ((s.drop i).take 20)`); everything here follows from it. -/

/-- **C15, `XrefEntP`**: a success is located at exactly `[i, i+20)`, inside the buffer, cursor at the end.
    (A failure leaves the cursor after the last field read - the code propagates with `?` - so there is
    no cursor clause for failures; see `xrefEntP_no_panic` for the third outcome.) -/
theorem loc_faithful_xrefEntP (idx : Nat) (s : Bytes) (i : Nat) (_hi : i ≤ s.length) (v : Located Xref.Ent)
    (c : Nat) (h : Xref.xrefEntP idx s i = (.ok v, c)) :
    v.start = i ∧ v.stop = i + 20 ∧ c = v.stop ∧ v.stop ≤ s.length := by
  obtain ⟨x, -, hv, hc⟩ := C13.entry_ok_inv idx s i v c h
  have := C13.ent_ok_len idx s i v c h
  subst hv hc
  exact ⟨rfl, rfl, rfl, this⟩

theorem xrefEntP_no_panic (idx : Nat) (s : Bytes) (i : Nat) (q : String) (c : Nat) :
    Xref.xrefEntP idx s i ≠ (.panic q, c) := C13.ent_no_panic idx s i q c

/-- the same, as the generic success-only fixed-width clause -/
theorem xrefEntP_locSW (idx : Nat) : LocSW (Xref.xrefEntP idx) 20 :=
  fun s i hi v c h => loc_faithful_xrefEntP idx s i hi v c h

/-- **the value of an entry is determined by its 20 bytes** (no hypothesis on `s'`, `i'` other than
    carrying the same 20-byte window) -/
theorem xrefEntP_value_determined (idx : Nat) (s : Bytes) (i : Nat) (v : Located Xref.Ent) (c : Nat)
    (h : Xref.xrefEntP idx s i = (.ok v, c)) (s' : Bytes) (i' : Nat)
    (hw : (s'.drop i').take 20 = (s.drop i).take 20) :
    Xref.xrefEntP idx s' i' = (.ok ⟨v.val, i', i' + 20⟩, i' + 20) := by
  obtain ⟨x, hx, hv, -⟩ := C13.entry_ok_inv idx s i v c h
  have e : XrefSpec.entryAt s' i' = some x := by
    unfold XrefSpec.entryAt at hx ⊢
    rw [hw]; exact hx
  have := C13.entry_spec idx s' i'
  rw [e] at this
  simp only at this
  rw [this, hv]

theorem xrefEntP_winDet (idx : Nat) : WinDet (Xref.xrefEntP idx) 20 :=
  fun s i _ v c h s' i' hw => xrefEntP_value_determined idx s i v c h s' i' hw

/-- **C15 re-parse clause, `XrefEntP`** -/
theorem xrefEntP_reparses (idx : Nat) : Reparses (Xref.xrefEntP idx) :=
  reparses_of_winDet (xrefEntP_locSW idx) (xrefEntP_winDet idx)

/-- non-vacuity: `0000000017 00000 n \n` after one byte of context (test on a sample) -/
example : Xref.xrefEntP 7 [65, 48, 48, 48, 48, 48, 48, 48, 48, 49, 55, 32, 48, 48, 48, 48, 48, 32, 110, 32, 10, 66] 1 =
    (.ok ⟨⟨7, 0, .inUse 17⟩, 1, 21⟩, 21) := by decide

/-! ## 4./5. RTPS: `HeaderP` (20 bytes), `SubMessageHeaderP` (4 bytes), the two-byte and twelve-byte primitives -/

theorem drop4 {l : Bytes} (h : 4 ≤ l.length) : ∃ a f x y r, l = a :: f :: x :: y :: r := by
  match l, h with
  | a :: f :: x :: y :: r, _ => exact ⟨a, f, x, y, r, rfl⟩

theorem window_none_short {s : Bytes} {i w : Nat} (hi : i ≤ s.length) (h : window s i w = none) :
    (s.drop i).length < w := by
  unfold window at h
  split at h
  · cases h
  · simp only [List.length_drop]; omega

/-- `ProtocolVersionP` / `VendorIdP` are 2-byte window parsers -/
theorem u16leP_win : Win Rtps.u16leP 2 := by
  have h := uint16_win .little
  constructor
  · intro s i hi hw
    unfold Rtps.u16leP
    rw [h.1 s i hi hw]
  · intro s i bs hw
    obtain ⟨v, hv, hdet⟩ := h.2 s i bs hw
    refine ⟨v, by unfold Rtps.u16leP; rw [hv], ?_⟩
    intro s' i' hw'
    unfold Rtps.u16leP
    rw [hdet s' i' hw']

theorem protocolVersionP_win : Win Rtps.protocolVersionP 2 := u16leP_win
theorem vendorIdP_win : Win Rtps.vendorIdP 2 := u16leP_win

/-- `GuidPrefixP` is a 12-byte window parser (the `try_from` failure branch is dead) -/
theorem guidPrefixP_win : Win Rtps.guidPrefixP 12 := by
  constructor
  · intro s i hi hw
    have := window_none_short hi hw
    simp only [List.length_drop] at this
    rw [Rtps.guidPrefixP_eq hi, if_pos this]
  · intro s i bs hw
    have hb := window_bound hw
    have he := window_eq hw
    refine ⟨bs, by rw [Rtps.guidPrefixP_eq (by omega), if_neg (by omega), he], ?_⟩
    intro s' i' hw'
    have hb' := window_bound hw'
    have he' := window_eq hw'
    rw [Rtps.guidPrefixP_eq (by omega), if_neg (by omega), he']

/-- `SubMessageHeaderP` is a 4-byte window parser: with fewer than 4 bytes left it fails with
    `EndOfBuffer` at the cursor it started from (the restore branches), otherwise it succeeds on
    `[i, i+4)` with a value that depends on those 4 bytes only (also the endianness flag is one of them) -/
theorem subHdrP_win : Win Rtps.subHdrP 4 := by
  constructor
  · intro s i hi hw
    exact Rtps.subHdrP_short (window_none_short hi hw)
  · intro s i bs hw
    have hb := window_bound hw
    have he := window_eq hw
    obtain ⟨a, f, x, y, r, hd⟩ := drop4 (l := s.drop i) (by simp only [List.length_drop]; omega)
    refine ⟨⟨a, f, Rtps.val16 (Rtps.msgEndian f) x y⟩, Rtps.subHdrP_cons4 hd, ?_⟩
    intro s' i' hw'
    have hb' := window_bound hw'
    have he' := window_eq hw'
    obtain ⟨a', f', x', y', r', hd'⟩ := drop4 (l := s'.drop i') (by simp only [List.length_drop]; omega)
    have : [a', f', x', y'] = [a, f, x, y] := by
      have e1 : (s.drop i).take 4 = [a, f, x, y] := by rw [hd]; rfl
      have e2 : (s'.drop i').take 4 = [a', f', x', y'] := by rw [hd']; rfl
      rw [← e1, ← e2, ← he, ← he']
    simp only [List.cons.injEq, and_true] at this
    obtain ⟨rfl, rfl, rfl, rfl⟩ := this
    exact Rtps.subHdrP_cons4 hd'

/-- **C15, RTPS `HeaderP`**: success spans exactly `[i, i+20)` inside the buffer with the cursor at the
    end; every failure (wrong magic: `GuardError`; short: `EndOfBuffer`) leaves the cursor at `i`; no
    panic from a cursor inside the buffer.  (Not a `Win` parser: the wrong-magic error is not `eob`.) -/
theorem loc_faithful_rtpsHeaderP : LocW Rtps.headerP 20 := by
  intro s i hi
  rcases Rtps.headerP_cases hi with ⟨k, hk⟩ | ⟨v0, v1, w0, w1, g, hd, hg⟩
  · rw [hk]; exact rfl
  · rw [Rtps.headerP_shape hd, if_neg (by omega)]
    have := Rtps.length_of_drop_eq hd hi
    simp only [List.length_cons] at this
    exact ⟨rfl, rfl, rfl, by simp only; omega⟩

/-- **the RTPS header value is determined by its 20 bytes** -/
theorem rtpsHeaderP_winDet : WinDet Rtps.headerP 20 := by
  intro s i hi v c hp s' i' he
  rcases Rtps.headerP_cases hi with ⟨k, hk⟩ | ⟨v0, v1, w0, w1, g, hd, hg⟩
  · rw [hk] at hp; cases hp
  · rw [Rtps.headerP_shape hd, if_neg (by omega)] at hp
    simp only [Prod.mk.injEq, Res.ok.injEq] at hp
    obtain ⟨h1, -⟩ := hp
    subst h1
    have hs' : s'.drop i' = (s'.drop i').take 20 ++ (s'.drop i').drop 20 := (List.take_append_drop 20 _).symm
    have ht : (0x52 :: 0x54 :: 0x50 :: 0x53 :: v0 :: v1 :: w0 :: w1 :: g).take 20 =
        0x52 :: 0x54 :: 0x50 :: 0x53 :: v0 :: v1 :: w0 :: w1 :: g.take 12 := rfl
    rw [he, hd, ht] at hs'
    simp only [List.cons_append] at hs'
    have hl : (g.take 12).length = 12 := by simp only [List.length_take]; omega
    rw [Rtps.headerP_shape hs', if_neg (by simp only [List.length_append]; omega)]
    have : (g.take 12 ++ (s'.drop i').drop 20).take 12 = g.take 12 := List.take_left' hl
    rw [this]

theorem rtpsHeaderP_value_determined (s : Bytes) (i : Nat) (hi : i ≤ s.length) (v : Located Rtps.Header) (c : Nat)
    (h : Rtps.headerP s i = (.ok v, c)) (s' : Bytes) (i' : Nat)
    (hw : (s'.drop i').take 20 = (s.drop i).take 20) :
    Rtps.headerP s' i' = (.ok ⟨v.val, i', i' + 20⟩, i' + 20) := rtpsHeaderP_winDet s i hi v c h s' i' hw

/-- **C15 re-parse clause, RTPS `HeaderP`** -/
theorem rtpsHeaderP_reparses : Reparses Rtps.headerP :=
  reparses_of_winDet loc_faithful_rtpsHeaderP.toLocSW rtpsHeaderP_winDet

/-- non-vacuity: `RTPS`, version 2.3, vendor 1.15, a 12-byte GUID prefix, one more byte (test on a sample) -/
example : Rtps.headerP [0, 0x52, 0x54, 0x50, 0x53, 2, 3, 1, 15, 1, 2, 3, 4, 5, 6, 7, 8, 9, 10, 11, 12, 99] 1 =
    (.ok ⟨⟨0x0302, 0x0f01, [1, 2, 3, 4, 5, 6, 7, 8, 9, 10, 11, 12]⟩, 1, 21⟩, 21) := by decide
/-- a wrong magic fails with the cursor unmoved -/
example : Rtps.headerP [0, 0x52, 0x54, 0x50, 0x54, 2, 3] 1 = (.err .guard, 1) := by decide

/-- **C15, RTPS `SubMessageHeaderP`**: success spans exactly `[i, i+4)`; failure leaves the cursor; no panic -/
theorem loc_faithful_subHdrP : LocW Rtps.subHdrP 4 := win_locW subHdrP_win

theorem subHdrP_value_determined (s : Bytes) (i : Nat) (hi : i ≤ s.length) (v : Located Rtps.SubHdr) (c : Nat)
    (h : Rtps.subHdrP s i = (.ok v, c)) (s' : Bytes) (i' : Nat)
    (hw : (s'.drop i').take 4 = (s.drop i).take 4) :
    Rtps.subHdrP s' i' = (.ok ⟨v.val, i', i' + 4⟩, i' + 4) :=
  win_winDet subHdrP_win (by omega) s i hi v c h s' i' hw

theorem subHdrP_reparses : Reparses Rtps.subHdrP := win_reparses subHdrP_win

/-- non-vacuity: id 0x15, flags 0x01 (little endian), length 0x0102 (test on a sample) -/
example : Rtps.subHdrP [9, 0x15, 1, 2, 1, 7] 1 = (.ok ⟨⟨0x15, 1, 0x0102⟩, 1, 5⟩, 5) := by decide
example : Rtps.subHdrP [9, 0x15, 1, 2] 1 = (.err .eob, 1) := by decide

/-- **C15, the RTPS primitives**: `ProtocolVersionP`, `VendorIdP` (2 bytes) and `GuidPrefixP` (12 bytes) are
    window parsers; locations, window determinacy and the re-parse clause follow. -/
theorem loc_faithful_rtpsPrims :
    (LocW Rtps.protocolVersionP 2 ∧ WinDet Rtps.protocolVersionP 2 ∧ Reparses Rtps.protocolVersionP) ∧
    (LocW Rtps.vendorIdP 2 ∧ WinDet Rtps.vendorIdP 2 ∧ Reparses Rtps.vendorIdP) ∧
    (LocW Rtps.guidPrefixP 12 ∧ WinDet Rtps.guidPrefixP 12 ∧ Reparses Rtps.guidPrefixP) :=
  ⟨⟨win_locW protocolVersionP_win, win_winDet protocolVersionP_win (by omega), win_reparses protocolVersionP_win⟩,
   ⟨win_locW vendorIdP_win, win_winDet vendorIdP_win (by omega), win_reparses vendorIdP_win⟩,
   ⟨win_locW guidPrefixP_win, win_winDet guidPrefixP_win (by omega), win_reparses guidPrefixP_win⟩⟩

example : Rtps.vendorIdP [9, 1, 15, 7] 1 = (.ok ⟨0x0f01, 1, 3⟩, 3) := by decide
example : Rtps.guidPrefixP [9, 1, 2, 3, 4, 5, 6, 7, 8, 9, 10, 11, 12, 13] 1 =
    (.ok ⟨[1, 2, 3, 4, 5, 6, 7, 8, 9, 10, 11, 12], 1, 13⟩, 13) := by decide

/-! ## 2. `StartXrefP` -/

/-- **C15, `StartXrefP`**: from a cursor inside the buffer,
    success ⇒ `start` = cursor before, cursor after = `stop`, inside the buffer, and at least 11 bytes
      long (`startxref`, one byte of white space / comment, one digit);
    failure ⇒ the cursor is still inside the buffer, at or after `i` (it is `i` when the keyword does not
      match, otherwise where `WhitespaceEOL` / `IntegerP` left it, or after the number for a negative
      offset - `StartXrefP` propagates with `?` and does not restore);
    no panic. -/
theorem loc_faithful_startXrefP (s : Bytes) (i : Nat) (hi : i ≤ s.length) :
    match FileParts.startXrefP s i with
    | (.ok v, c) => v.start = i ∧ c = v.stop ∧ i + 11 ≤ v.stop ∧ v.stop ≤ s.length
    | (.err _, c) => i ≤ c ∧ c ≤ s.length
    | (.panic _, _) => False := by
  unfold FileParts.startXrefP
  cases h0 : exact FileParts.kwStartxref s i with
  | mk b j =>
    cases b with
    | false => exact ⟨Nat.le_refl _, hi⟩
    | true =>
      have hj := exact_ok h0 hi
      have hk : FileParts.kwStartxref.length = 9 := rfl
      rw [hk] at hj
      obtain ⟨hj1, hj2⟩ := hj
      have hw := Parsley.Obj.wsEOL_progress false s j hj2
      simp only []
      cases hw0 : wsEOL false s j with
      | mk r c =>
        rw [hw0] at hw
        cases r with
        | err k => simp only [Parsley.Obj.wsProg] at hw; exact ⟨by omega, by omega⟩
        | panic q => exact hw.elim
        | ok u =>
          simp only [Parsley.Obj.wsProg] at hw
          obtain ⟨hw1, hw2, hw3⟩ := hw
          have hw3 := hw3 trivial
          have hn := integerP_loc s c hw2
          simp only []
          cases hn0 : integerP s c with
          | mk r e =>
            rw [hn0] at hn
            cases r with
            | err k => simp only [locOK] at hn; exact ⟨by omega, by omega⟩
            | panic q => exact hn.elim
            | ok n =>
              obtain ⟨n1, n2, n3, n4⟩ := hn
              have := (integerP_end hn0).2
              simp only []
              by_cases hu : Parsley.Obj.isUsize n.val = true
              · rw [if_pos hu]
                exact ⟨rfl, rfl, by simp only; omega, by simp only; omega⟩
              · rw [if_neg hu]
                exact ⟨by omega, by omega⟩

/-- the success clause as a `LocS` fact -/
theorem startXrefP_locS : LocS FileParts.startXrefP := by
  intro s i hi v c h
  have := loc_faithful_startXrefP s i hi
  rw [h] at this
  obtain ⟨a, b, c1, d⟩ := this
  exact ⟨a, b, by omega, d⟩

theorem startXrefP_pre : Pre FileParts.startXrefP := by
  intro pre s i
  unfold FileParts.startXrefP
  simp only [exact_pre]
  cases h0 : exact FileParts.kwStartxref s i with
  | mk b j =>
    cases b with
    | false => simp [shift]
    | true =>
      simp only []
      rw [wsEOL_pre]
      cases hw0 : wsEOL false s j with
      | mk r c =>
        cases r with
        | err k => simp [shift]
        | panic q => simp [shift]
        | ok u =>
          simp only [shift]
          rw [integerP_pre]
          cases hn0 : integerP s c with
          | mk r e =>
            cases r with
            | err k => simp [shift]
            | panic q => simp [shift]
            | ok n =>
              simp only [shift]
              split <;> simp

theorem startXrefP_trunc : Trunc FileParts.startXrefP := by
  intro s i n v e hi h he
  unfold FileParts.startXrefP at h ⊢
  cases h0 : exact FileParts.kwStartxref s i with
  | mk b j =>
    rw [h0] at h
    cases b with
    | false => cases h
    | true =>
      have hj := (exact_ok h0 hi).2
      simp only [] at h
      cases hw0 : wsEOL false s j with
      | mk r c =>
        rw [hw0] at h
        cases r with
        | err k => cases h
        | panic q => cases h
        | ok u =>
          have hw := Parsley.Obj.wsEOL_progress false s j hj
          rw [hw0] at hw
          simp only [Parsley.Obj.wsProg] at hw
          obtain ⟨hw1, hw2, -⟩ := hw
          simp only [] at h
          cases hn0 : integerP s c with
          | mk r e' =>
            rw [hn0] at h
            cases r with
            | err k => cases h
            | panic q => cases h
            | ok m =>
              have hn := integerP_loc s c hw2
              rw [hn0] at hn
              obtain ⟨-, hm, hce, -⟩ := hn
              simp only [] at h
              split at h
              · rename_i hu
                have hee : e' = e := by cases h; rfl
                subst hee
                rw [exact_take_ok h0 (by omega)]
                simp only []
                rw [wsEOL_trunc false s j n u c hj hw0 (by omega)]
                simp only []
                rw [integerP_trunc s c n m e' hw2 hn0 he]
                simp only [hu, if_true]
                exact h
              · cases h

/-- **C15 re-parse clause, `StartXrefP`** -/
theorem startXrefP_reparses : Reparses FileParts.startXrefP :=
  reparses_of_succ startXrefP_locS startXrefP_pre startXrefP_trunc.toC

/-- non-vacuity: `startxref\n42` inside a longer buffer (test on a sample) -/
example : FileParts.startXrefP [65, 115, 116, 97, 114, 116, 120, 114, 101, 102, 10, 52, 50, 10, 37] 1 =
    (.ok ⟨42, 1, 13⟩, 13) := by decide
/-- a failure that does not restore the cursor: keyword and white space, then no number -/
example : FileParts.startXrefP [115, 116, 97, 114, 116, 120, 114, 101, 102, 32, 120] 0 = (.err .guard, 10) := by decide

/-! ## 3. `HeaderP` (the `%PDF-x.y` line and the optional binary-marker comment) -/

/-- move every nested location of a header up by `k` (the header is found `k` bytes further on) -/
def _root_.Parsley.FileParts.Header.shift (k : Nat) (h : FileParts.Header) : FileParts.Header :=
  ⟨⟨h.version.val, k + h.version.start, k + h.version.stop⟩,
   h.binary.map fun b => ⟨b.val, k + b.start, k + b.stop⟩⟩

/-- re-base every nested location of a header to a span that starts at `k` -/
def _root_.Parsley.FileParts.Header.rebase (k : Nat) (h : FileParts.Header) : FileParts.Header :=
  ⟨⟨h.version.val, h.version.start - k, h.version.stop - k⟩,
   h.binary.map fun b => ⟨b.val, b.start - k, b.stop - k⟩⟩

theorem header_rebase_shift (k : Nat) (h : FileParts.Header) : (h.shift k).rebase k = h := by
  obtain ⟨⟨vv, vs, ve⟩, b⟩ := h
  cases b with
  | none => simp [FileParts.Header.shift, FileParts.Header.rebase]
  | some b => obtain ⟨bv, bs, be⟩ := b; simp [FileParts.Header.shift, FileParts.Header.rebase]

/-- a comment that fails (the byte under the cursor is not `%`) also fails, at the cursor, on every
    truncation of the buffer -/
theorem comment_fail_take {s : Bytes} {j n : Nat} {k : ErrK} {c : Nat} (h : comment s j = (.err k, c)) :
    comment (s.take n) j = (.err .guard, j) := by
  unfold comment at h ⊢
  split at h
  · rename_i hp
    have : (peek (s.take n) j != some 37) = true := by
      rw [peek_take]
      split
      · exact hp
      · rfl
    rw [if_pos this]
  · simp only [] at h
    split at h <;> cases h

/-- **C15, `HeaderP`**: from a cursor inside the buffer,
    success ⇒ `start` = cursor before, cursor after = `stop`, non-empty, inside the buffer, and the nested
      locations tile the span: the version comment starts at `start`; with a binary-marker comment it
      starts where the version comment stops and stops at `stop`, without one the version comment stops
      at `stop`;
    failure ⇒ the cursor is unmoved;
    no panic. -/
theorem loc_faithful_headerP (s : Bytes) (i : Nat) (hi : i ≤ s.length) :
    match FileParts.headerP s i with
    | (.ok v, c) =>
        v.start = i ∧ c = v.stop ∧ i < v.stop ∧ v.stop ≤ s.length ∧
        v.val.version.start = i ∧ i < v.val.version.stop ∧ v.val.version.stop ≤ v.stop ∧
        (match v.val.binary with
         | some b => b.start = v.val.version.stop ∧ b.start < b.stop ∧ b.stop = v.stop
         | none => v.val.version.stop = v.stop)
    | (.err _, c) => c = i
    | (.panic _, _) => False := by
  unfold FileParts.headerP
  have h1 := Parsley.Obj.comment_prog s i hi
  cases hc1 : comment s i with
  | mk r j =>
    rw [hc1] at h1
    cases r with
    | err k => exact h1
    | panic q => exact h1.elim
    | ok v =>
      obtain ⟨a1, a2, a3, a4⟩ := h1
      have h2 := Parsley.Obj.comment_prog s j a4
      simp only []
      cases hc2 : comment s j with
      | mk r2 k =>
        rw [hc2] at h2
        cases r2 with
        | panic q => exact h2.elim
        | err e =>
          simp only [Parsley.Obj.prog] at h2
          subst h2
          refine ⟨rfl, rfl, ?_, ?_, ?_, ?_, ?_, ?_⟩ <;> dsimp only <;> omega
        | ok b =>
          obtain ⟨b1, b2, b3, b4⟩ := h2
          refine ⟨rfl, rfl, ?_, ?_, ?_, ?_, ?_, ?_⟩ <;> dsimp only <;> omega

theorem headerP_loc : LocOK FileParts.headerP := by
  intro s i hi
  have := loc_faithful_headerP s i hi
  cases hr : FileParts.headerP s i with
  | mk r c =>
    rw [hr] at this
    cases r with
    | ok v => obtain ⟨a, b, c1, d, -⟩ := this; exact ⟨a, b, by omega, d⟩
    | err k => exact this
    | panic q => exact this

theorem headerP_pre : PreV FileParts.Header.shift FileParts.headerP := by
  intro pre s i
  unfold FileParts.headerP
  rw [comment_pre]
  cases h1 : comment s i with
  | mk r j =>
    cases r with
    | err k => simp [shift, shiftV]
    | panic q => simp [shift, shiftV]
    | ok v =>
      simp only [shift]
      rw [comment_pre]
      cases h2 : comment s j with
      | mk r2 k => cases r2 <;> simp [shift, shiftV, FileParts.Header.shift]

theorem headerP_trunc : Trunc FileParts.headerP := by
  intro s i n v e hi h he
  unfold FileParts.headerP at h ⊢
  have p1 := Parsley.Obj.comment_prog s i hi
  cases hc1 : comment s i with
  | mk r j =>
    rw [hc1] at h p1
    cases r with
    | err k => cases h
    | panic q => cases h
    | ok w =>
      obtain ⟨-, -, -, a4⟩ := p1
      have p2 := Parsley.Obj.comment_prog s j a4
      simp only [] at h
      cases hc2 : comment s j with
      | mk r2 k =>
        rw [hc2] at h p2
        cases r2 with
        | panic q => cases h
        | err e' =>
          simp only [Parsley.Obj.prog] at p2
          subst p2
          simp only [Prod.mk.injEq] at h
          obtain ⟨h1, h2⟩ := h
          subst h2
          rw [comment_trunc s i n w k hi hc1 he]
          simp only []
          rw [comment_fail_take hc2]
          simp only [h1]
        | ok b =>
          obtain ⟨-, -, b3, -⟩ := p2
          simp only [Prod.mk.injEq] at h
          obtain ⟨h1, h2⟩ := h
          subst h2
          rw [comment_trunc s i n w j hi hc1 (by omega)]
          simp only []
          rw [comment_trunc s j n b k a4 hc2 he]
          simp only [h1]

/-- **C15 re-parse clause, `HeaderP`**: the span parsed alone yields the same header with all nested
    locations re-based to the span (`Header.rebase v.start`). -/
theorem headerP_reparses : ReparsesV FileParts.Header.rebase FileParts.headerP :=
  reparsesV_of FileParts.Header.shift FileParts.Header.rebase header_rebase_shift
    headerP_loc headerP_pre headerP_trunc.toC

/-- non-vacuity: `%PDF-1.4\n%âã\n` then `1` after one byte of context (test on a sample) -/
example : FileParts.headerP [65, 37, 80, 68, 70, 45, 49, 46, 52, 10, 37, 226, 227, 10, 49] 1 =
    (.ok ⟨⟨⟨[80, 68, 70, 45, 49, 46, 52], 1, 10⟩, some ⟨[226, 227], 10, 14⟩⟩, 1, 14⟩, 14) := by decide
/-- … without a binary marker -/
example : FileParts.headerP [65, 37, 80, 68, 70, 45, 49, 46, 52, 10, 49] 1 =
    (.ok ⟨⟨⟨[80, 68, 70, 45, 49, 46, 52], 1, 10⟩, none⟩, 1, 10⟩, 10) := by decide
/-- … and the span `[1, 14)` of the first, parsed alone, with the locations re-based -/
example : FileParts.headerP (([65, 37, 80, 68, 70, 45, 49, 46, 52, 10, 37, 226, 227, 10, 49].drop 1).take 13) 0 =
    (.ok ⟨FileParts.Header.rebase 1 ⟨⟨[80, 68, 70, 45, 49, 46, 52], 1, 10⟩, some ⟨[226, 227], 10, 14⟩⟩, 0, 13⟩, 13) := by
  decide

/-! ## (d) `SubMessageP`: the 4-byte header and a payload of `length` bytes (the rest of the buffer when
    `length` is 0) -/

/-- **C15, RTPS `SubMessageP`**: from a cursor inside the buffer,
    success ⇒ `start` = cursor before, cursor after = `stop`, the span is the 4-byte header followed by the
      payload and nothing else, inside the buffer;
    failure ⇒ the cursor is at `i` (no header) or after the header at `i + 4` (short payload: the code
      propagates with `?` and does not restore), inside the buffer;
    no panic. -/
theorem loc_faithful_subMsgP (s : Bytes) (i : Nat) (hi : i ≤ s.length) :
    match Rtps.subMsgP s i with
    | (.ok v, c) => v.start = i ∧ c = v.stop ∧ v.stop = i + 4 + v.val.payload.length ∧ v.stop ≤ s.length
    | (.err _, c) => (c = i ∨ c = i + 4) ∧ c ≤ s.length
    | (.panic _, _) => False := by
  by_cases hsh : (s.drop i).length < 4
  · rw [Rtps.subMsgP_short hsh]; exact ⟨Or.inl rfl, hi⟩
  · obtain ⟨a, f, x, y, r, hd⟩ := drop4 (l := s.drop i) (by omega)
    have hlen := Rtps.length_of_drop_eq hd hi
    simp only [List.length_cons] at hlen
    rw [Rtps.subMsgP_cons4 hd]
    by_cases hz : Rtps.val16 (Rtps.msgEndian f) x y = 0
    · rw [if_pos hz]
      exact ⟨rfl, rfl, by simp only; omega, Nat.le_refl _⟩
    · rw [if_neg hz]
      by_cases hr : r.length < (Rtps.val16 (Rtps.msgEndian f) x y).toNat
      · rw [if_pos hr]
        exact ⟨Or.inr rfl, by omega⟩
      · rw [if_neg hr]
        refine ⟨rfl, rfl, ?_, ?_⟩ <;> simp only [List.length_take] <;> omega

theorem subMsgP_locS : LocS Rtps.subMsgP := by
  intro s i hi v c h
  have := loc_faithful_subMsgP s i hi
  rw [h] at this
  obtain ⟨a, b, c1, d⟩ := this
  exact ⟨a, b, by omega, d⟩

/-- **C15 re-parse clause, `SubMessageP`** (also for `length = 0`, where the payload is the rest of the
    buffer: the span then ends at the end of the buffer and its own rest is the same payload) -/
theorem subMsgP_reparses : Reparses Rtps.subMsgP := by
  intro s i hi v c h
  by_cases hsh : (s.drop i).length < 4
  · rw [Rtps.subMsgP_short hsh] at h; cases h
  · obtain ⟨a, f, x, y, r, hd⟩ := drop4 (l := s.drop i) (by omega)
    have hlen := Rtps.length_of_drop_eq hd hi
    simp only [List.length_cons] at hlen
    rw [Rtps.subMsgP_cons4 hd] at h
    -- the span, as a list
    have hspan : ∀ m, (s.drop i).take (4 + m) = a :: f :: x :: y :: r.take m := by
      intro m; rw [hd, Nat.add_comm]; rfl
    split at h
    · rename_i hz
      simp only [Prod.mk.injEq, Res.ok.injEq] at h
      obtain ⟨h1, -⟩ := h
      subst h1
      simp only []
      have e : s.length - i = 4 + r.length := by omega
      have ht : r.take r.length = r := List.take_length
      have hd' : ((s.drop i).take (4 + r.length)).drop 0 = a :: f :: x :: y :: r := by
        rw [List.drop_zero, hspan, ht]
      rw [e, Rtps.subMsgP_cons4 hd', if_pos hz]
      have : ((s.drop i).take (4 + r.length)).length = 4 + r.length := by
        rw [hspan, ht]; simp only [List.length_cons]; omega
      rw [this]
    · rename_i hz
      split at h
      · cases h
      · rename_i hr
        simp only [Prod.mk.injEq, Res.ok.injEq] at h
        obtain ⟨h1, -⟩ := h
        subst h1
        simp only []
        have e : i + 4 + (Rtps.val16 (Rtps.msgEndian f) x y).toNat - i = 4 + (Rtps.val16 (Rtps.msgEndian f) x y).toNat := by
          omega
        have hd' : ((s.drop i).take (4 + (Rtps.val16 (Rtps.msgEndian f) x y).toNat)).drop 0 =
            a :: f :: x :: y :: r.take (Rtps.val16 (Rtps.msgEndian f) x y).toNat := by
          rw [List.drop_zero, hspan]
        have hl : (r.take (Rtps.val16 (Rtps.msgEndian f) x y).toNat).length = (Rtps.val16 (Rtps.msgEndian f) x y).toNat := by
          simp only [List.length_take]; omega
        rw [e, Rtps.subMsgP_cons4 hd', if_neg hz, if_neg (by omega), List.take_take, Nat.min_self]

/-- non-vacuity: a little-endian sub-message of length 2 with trailing bytes, and one of length 0 (test on samples) -/
example : Rtps.subMsgP [9, 0x15, 1, 2, 0, 7, 8, 9] 1 = (.ok ⟨⟨⟨0x15, 1, 2⟩, [7, 8]⟩, 1, 7⟩, 7) := by decide
example : Rtps.subMsgP [9, 0x15, 1, 0, 0, 7, 8, 9] 1 = (.ok ⟨⟨⟨0x15, 1, 0⟩, [7, 8, 9]⟩, 1, 8⟩, 8) := by decide
example : Rtps.subMsgP [9, 0x15, 1, 5, 0, 7, 8, 9] 1 = (.err .eob, 5) := by decide

/-! ## (d) one row of a cross-reference STREAM (`rowP w0 w1 w2 obj`, any field widths) -/

/-- the big-endian accumulation of `parse_usize_with_width` over a window, as a fold -/
def beFold (acc : Nat) (bs : Bytes) : Nat :=
  bs.foldl (fun v b => (v * 256 + b.toNat) % Xref.usizeLim) acc

/-- with `w` bytes left the field reader succeeds and its value is a function of those bytes -/
theorem parseUsizeW_closed (w : Nat) : ∀ (s : Bytes) (c acc : Nat), c + w ≤ s.length →
    Xref.parseUsizeW w s c acc = (.ok (beFold acc ((s.drop c).take w)), c + w) := by
  induction w with
  | zero => intro s c acc _; simp [Xref.parseUsizeW, beFold]
  | succ w ih =>
    intro s c acc h
    have hc : c < s.length := by omega
    have hd : s.drop c = s[c] :: s.drop (c + 1) := List.drop_eq_getElem_cons hc
    have hg : s[c]? = some s[c] := List.getElem?_eq_getElem hc
    simp only [Xref.parseUsizeW, hg]
    rw [ih s (c + 1) _ (by omega), hd, List.take_succ_cons]
    simp only [beFold, List.foldl_cons, Prod.mk.injEq, true_and]
    omega

/-- … the same value wherever the same bytes are found -/
theorem parseUsizeW_pair (w : Nat) (s : Bytes) (c : Nat) (s' : Bytes) (c' : Nat) (hb : c + w ≤ s.length)
    (hb' : c' + w ≤ s'.length) (he : (s'.drop c').take w = (s.drop c).take w) :
    ∃ A, Xref.parseUsizeW w s c 0 = (.ok A, c + w) ∧ Xref.parseUsizeW w s' c' 0 = (.ok A, c' + w) :=
  ⟨beFold 0 ((s.drop c).take w), parseUsizeW_closed w s c 0 hb, by rw [parseUsizeW_closed w s' c' 0 hb', he]⟩

/-- **C15, one cross-reference-stream row**: a success is located at exactly `[i, i + (w0+w1+w2))`, inside
    the buffer, cursor at the end.  (A failure leaves the cursor after the last field read, as for
    `XrefEntP`; `C13.rowP_no_panic` excludes the third outcome.) -/
theorem loc_faithful_rowP (w0 w1 w2 obj : Nat) : LocSW (Xref.rowP w0 w1 w2 obj) (w0 + w1 + w2) := by
  intro s i hi v c h
  unfold Xref.rowP at h
  obtain ⟨t, c0, ht, h⟩ := C13.andThen_eq_ok h
  obtain ⟨f2, c1, hf2, h⟩ := C13.andThen_eq_ok h
  obtain ⟨f3, c2, hf3, h⟩ := C13.andThen_eq_ok h
  have hc0 : c0 = i + w0 ∧ c0 ≤ s.length := by
    by_cases hw0 : w0 = 0
    · simp [hw0] at ht; omega
    · have hne : (w0 == 0) = false := by simp [hw0]
      rw [hne] at ht
      simp only [Bool.false_eq_true, if_false] at ht
      obtain ⟨f, cc, hf, hg⟩ := C13.andThen_eq_ok ht
      have := C13.parseUsizeW_ok w0 s i 0 f cc hf
      split at hg
      · simp at hg
      · simp at hg; omega
  have hc1 : c1 = c0 + w1 ∧ c1 ≤ s.length := by
    have := C13.parseUsizeW_ok w1 s c0 0 f2 c1 hf2
    by_cases hw1 : 0 < w1
    · exact ⟨this.1, this.2 hw1⟩
    · omega
  have hc2 : c2 = c1 + w2 ∧ c2 ≤ s.length := by
    by_cases hw2 : w2 > 0
    · simp only [hw2, if_true] at hf3
      have := C13.parseUsizeW_ok w2 s c1 0 f3 c2 hf3
      exact ⟨this.1, this.2 hw2⟩
    · simp only [hw2, if_false] at hf3
      simp at hf3
      omega
  have hv : v.start = i ∧ v.stop = c2 ∧ c = c2 := by
    split at h <;> simp at h <;> (obtain ⟨h1, h2⟩ := h; subst h1; exact ⟨rfl, rfl, h2.symm⟩)
  omega

/-- **the value of a row is determined by its `w0+w1+w2` bytes** -/
theorem rowP_winDet (w0 w1 w2 obj : Nat) : WinDet (Xref.rowP w0 w1 w2 obj) (w0 + w1 + w2) := by
  intro s i hi v c hp s' i' he
  obtain ⟨l1, l2, l3, l4⟩ := loc_faithful_rowP w0 w1 w2 obj s i hi v c hp
  by_cases hW : w0 + w1 + w2 = 0
  · have z0 : w0 = 0 := by omega
    have z1 : w1 = 0 := by omega
    have z2 : w2 = 0 := by omega
    subst z0 z1 z2
    simp [Xref.rowP, Xref.parseUsizeW, Xref.andThen] at hp ⊢
    obtain ⟨h1, -⟩ := hp
    subst h1
    rfl
  · have hb : i + (w0 + w1 + w2) ≤ s.length := by omega
    have hb' := bound_of_window_eq (by omega) hb he
    have sub : ∀ a b, a + b ≤ w0 + w1 + w2 → (s'.drop (i' + a)).take b = (s.drop (i + a)).take b := by
      intro a b hab
      rw [← C13.window_sub s' i' (w0 + w1 + w2) a b hab, ← C13.window_sub s i (w0 + w1 + w2) a b hab, he]
    obtain ⟨A, a1, a2⟩ := parseUsizeW_pair w0 s i s' i' (by omega) (by omega) (by simpa using sub 0 w0 (by omega))
    obtain ⟨B, b1, b2⟩ := parseUsizeW_pair w1 s (i + w0) s' (i' + w0) (by omega) (by omega) (sub w0 w1 (by omega))
    obtain ⟨C, c1, c2⟩ := parseUsizeW_pair w2 s (i + w0 + w1) s' (i' + w0 + w1) (by omega) (by omega)
      (by have := sub (w0 + w1) w2 (by omega); simpa [Nat.add_assoc] using this)
    have e3 : ∀ k : Nat, k + w0 + w1 + w2 = k + (w0 + w1 + w2) := by intro k; omega
    unfold Xref.rowP at hp ⊢
    by_cases h0 : w0 = 0
    · subst h0
      simp only [Nat.add_zero, Nat.zero_add] at b1 b2 c1 c2 e3 hp ⊢
      simp only [beq_self_eq_true, if_true, C13.andThen_ok, b1, b2] at hp ⊢
      by_cases h2 : w2 > 0
      · simp only [h2, if_true, c1, c2, C13.andThen_ok, Prod.mk.injEq, Res.ok.injEq] at hp ⊢
        obtain ⟨h1, -⟩ := hp
        subst h1
        simp <;> omega
      · have z2 : w2 = 0 := by omega
        subst z2
        simp only [Nat.lt_irrefl, gt_iff_lt, if_false, C13.andThen_ok, Prod.mk.injEq, Res.ok.injEq] at hp ⊢
        obtain ⟨h1, -⟩ := hp
        subst h1
        simp <;> omega
    · have hne : (w0 == 0) = false := by simp [h0]
      simp only [hne, Bool.false_eq_true, if_false, a1, a2, C13.andThen_ok] at hp ⊢
      by_cases hA : A > 2
      · simp [hA, Xref.andThen] at hp
      · simp only [hA, if_false, C13.andThen_ok, b1, b2] at hp ⊢
        have hA3 : A = 0 ∨ A = 1 ∨ A = 2 := by omega
        by_cases h2 : w2 > 0
        · simp only [h2, if_true, c1, c2, C13.andThen_ok] at hp ⊢
          rcases hA3 with rfl | rfl | rfl <;>
            (simp only [Prod.mk.injEq, Res.ok.injEq] at hp ⊢
             obtain ⟨h1, -⟩ := hp
             subst h1
             simp [e3])
        · have z2 : w2 = 0 := by omega
          subst z2
          simp only [Nat.lt_irrefl, gt_iff_lt, if_false, C13.andThen_ok] at hp ⊢
          rcases hA3 with rfl | rfl | rfl <;>
            (simp only [Prod.mk.injEq, Res.ok.injEq] at hp ⊢
             obtain ⟨h1, -⟩ := hp
             subst h1
             simp <;> omega)

/-- **C15 re-parse clause, cross-reference-stream row** -/
theorem rowP_reparses (w0 w1 w2 obj : Nat) : Reparses (Xref.rowP w0 w1 w2 obj) :=
  reparses_of_winDet (loc_faithful_rowP w0 w1 w2 obj) (rowP_winDet w0 w1 w2 obj)

/-- non-vacuity: widths 1 2 1, an in-use row `01 0102 00` (test on a sample) -/
example : Xref.rowP 1 2 1 7 [9, 1, 1, 2, 0, 9] 1 = (.ok ⟨⟨7, 0, .inUse 258⟩, 1, 5⟩, 5) := by decide

/-! ## 6. summary -/

/-- **C15 for the file-level parsers**: faithful locations (exact width where fixed), the cursor after a
    failure, no panic from a cursor inside the buffer, and the re-parse clause, for `XrefEntP`, `StartXrefP`,
    `HeaderP`, the RTPS `HeaderP`, `SubMessageHeaderP`, `SubMessageP`, the RTPS primitives and the
    cross-reference-stream row. -/
theorem loc_faithful_file_parsers :
    -- XrefEntP
    (∀ idx, LocSW (Xref.xrefEntP idx) 20 ∧ WinDet (Xref.xrefEntP idx) 20 ∧ Reparses (Xref.xrefEntP idx) ∧
      ∀ s i q c, Xref.xrefEntP idx s i ≠ (.panic q, c)) ∧
    -- StartXrefP
    ((∀ (s : Bytes) (i : Nat), i ≤ s.length →
        match FileParts.startXrefP s i with
        | (.ok v, c) => v.start = i ∧ c = v.stop ∧ i + 11 ≤ v.stop ∧ v.stop ≤ s.length
        | (.err _, c) => i ≤ c ∧ c ≤ s.length
        | (.panic _, _) => False) ∧
      Reparses FileParts.startXrefP) ∧
    -- HeaderP (pdf_file.rs)
    ((∀ (s : Bytes) (i : Nat), i ≤ s.length →
        match FileParts.headerP s i with
        | (.ok v, c) =>
            v.start = i ∧ c = v.stop ∧ i < v.stop ∧ v.stop ≤ s.length ∧
            v.val.version.start = i ∧ i < v.val.version.stop ∧ v.val.version.stop ≤ v.stop ∧
            (match v.val.binary with
             | some b => b.start = v.val.version.stop ∧ b.start < b.stop ∧ b.stop = v.stop
             | none => v.val.version.stop = v.stop)
        | (.err _, c) => c = i
        | (.panic _, _) => False) ∧
      ReparsesV FileParts.Header.rebase FileParts.headerP) ∧
    -- RTPS HeaderP
    (LocW Rtps.headerP 20 ∧ WinDet Rtps.headerP 20 ∧ Reparses Rtps.headerP) ∧
    -- RTPS SubMessageHeaderP
    (LocW Rtps.subHdrP 4 ∧ WinDet Rtps.subHdrP 4 ∧ Reparses Rtps.subHdrP) ∧
    -- RTPS primitives
    (LocW Rtps.protocolVersionP 2 ∧ WinDet Rtps.protocolVersionP 2 ∧ Reparses Rtps.protocolVersionP) ∧
    (LocW Rtps.vendorIdP 2 ∧ WinDet Rtps.vendorIdP 2 ∧ Reparses Rtps.vendorIdP) ∧
    (LocW Rtps.guidPrefixP 12 ∧ WinDet Rtps.guidPrefixP 12 ∧ Reparses Rtps.guidPrefixP) ∧
    -- RTPS SubMessageP
    ((∀ (s : Bytes) (i : Nat), i ≤ s.length →
        match Rtps.subMsgP s i with
        | (.ok v, c) => v.start = i ∧ c = v.stop ∧ v.stop = i + 4 + v.val.payload.length ∧ v.stop ≤ s.length
        | (.err _, c) => (c = i ∨ c = i + 4) ∧ c ≤ s.length
        | (.panic _, _) => False) ∧
      Reparses Rtps.subMsgP) ∧
    -- cross-reference-stream row
    (∀ w0 w1 w2 obj, LocSW (Xref.rowP w0 w1 w2 obj) (w0 + w1 + w2) ∧
      WinDet (Xref.rowP w0 w1 w2 obj) (w0 + w1 + w2) ∧ Reparses (Xref.rowP w0 w1 w2 obj) ∧
      ∀ s i q c, Xref.rowP w0 w1 w2 obj s i ≠ (.panic q, c)) :=
  ⟨fun idx => ⟨xrefEntP_locSW idx, xrefEntP_winDet idx, xrefEntP_reparses idx, xrefEntP_no_panic idx⟩,
   ⟨loc_faithful_startXrefP, startXrefP_reparses⟩,
   ⟨loc_faithful_headerP, headerP_reparses⟩,
   ⟨loc_faithful_rtpsHeaderP, rtpsHeaderP_winDet, rtpsHeaderP_reparses⟩,
   ⟨loc_faithful_subHdrP, win_winDet subHdrP_win (by omega), subHdrP_reparses⟩,
   loc_faithful_rtpsPrims.1, loc_faithful_rtpsPrims.2.1, loc_faithful_rtpsPrims.2.2,
   ⟨loc_faithful_subMsgP, subMsgP_reparses⟩,
   fun w0 w1 w2 obj => ⟨loc_faithful_rowP w0 w1 w2 obj, rowP_winDet w0 w1 w2 obj, rowP_reparses w0 w1 w2 obj,
     C13.rowP_no_panic w0 w1 w2 obj⟩⟩

end Parsley.C15
