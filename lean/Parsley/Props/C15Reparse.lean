/-
  C15 — the RE-PARSE clause: on success, parsing the reported span alone yields an equal value
  (and consumes the span entirely).

  `Reparses p` is proved for every token parser of Model/Prim.lean and for the tag matcher by
  composing three facts:  faithful locations (`LocOK`, Props/C15.lean),  prefix independence
  (Lemmas/Shift.lean: the bytes before the span do not matter)  and  suffix truncation
  (Lemmas/Trunc.lean: the bytes after the span do not matter, the look-ahead sees the same at
  end-of-buffer).  `StreamContentP` re-parses modulo its absolute `start` field (`ReparsesV scRebase`).
  The object parser `parse_pdf_obj` (number/reference look-ahead, arrays, dictionaries, any depth)
  is at the end of the file, on top of Lemmas/TruncObj.lean.
-/
import Parsley.Lemmas.TruncObj
namespace Parsley.C15
open Parsley Parsley.Prim Parsley.Obj Parsley.Shift Parsley.Trunc Parsley.C02

/-- **The re-parse clause of C15** for a parser `p`: whenever `p` succeeds at any cursor of any buffer,
    parsing the reported span alone (`s[start, stop)`, cursor 0) yields an equal value, located at
    `[0, stop - start)`, and consumes the span entirely. -/
def Reparses {α : Type} (p : P α) : Prop :=
  ∀ (s : Bytes) (i : Nat), i ≤ s.length → ∀ (v : Located α) (c : Nat), p s i = (.ok v, c) →
    p ((s.drop v.start).take (v.stop - v.start)) 0 = (.ok ⟨v.val, 0, v.stop - v.start⟩, v.stop - v.start)

/-- the same with a value that carries absolute positions: `f start` re-bases them to the span -/
def ReparsesV {α : Type} (f : Nat → α → α) (p : P α) : Prop :=
  ∀ (s : Bytes) (i : Nat), i ≤ s.length → ∀ (v : Located α) (c : Nat), p s i = (.ok v, c) →
    p ((s.drop v.start).take (v.stop - v.start)) 0 =
      (.ok ⟨f v.start v.val, 0, v.stop - v.start⟩, v.stop - v.start)

/-- shift of positions by `k`, the value transported by `g` -/
def shiftV {α : Type} (g : α → α) (k : Nat) : Res (Located α) × Nat → Res (Located α) × Nat
  | (.ok v, c) => (.ok ⟨g v.val, k + v.start, k + v.stop⟩, k + c)
  | (.err e, c) => (.err e, k + c)
  | (.panic p, c) => (.panic p, k + c)

theorem shiftV_id {α : Type} (k : Nat) (r : Res (Located α) × Nat) : shiftV (fun x => x) k r = shift k r := by
  obtain ⟨r, c⟩ := r
  cases r <;> rfl

/-- prefix independence (Lemmas/Shift.lean), as a predicate -/
def PreV {α : Type} (g : Nat → α → α) (p : P α) : Prop :=
  ∀ (pre s : Bytes) (i : Nat), p (pre ++ s) (pre.length + i) = shiftV (g pre.length) pre.length (p s i)

def Pre {α : Type} (p : P α) : Prop :=
  ∀ (pre s : Bytes) (i : Nat), p (pre ++ s) (pre.length + i) = shift pre.length (p s i)

/-- **The composition**: faithful locations + prefix independence + truncation at the end
    give the re-parse clause. -/
theorem reparsesV_of {α : Type} {p : P α} (g f : Nat → α → α) (hfg : ∀ k x, f k (g k x) = x)
    (hl : LocOK p) (hp : PreV g p) (ht : TruncC p) : ReparsesV f p := by
  intro s i hi v c h
  have hloc := hl s i hi
  rw [h] at hloc
  obtain ⟨h1, h2, h3, h4⟩ := hloc
  have hlen : (s.take i).length = i := by simp only [List.length_take]; omega
  have hpre := hp (s.take i) (s.drop i) 0
  rw [hlen, Nat.add_zero, List.take_append_drop, h] at hpre
  cases hq : p (s.drop i) 0 with
  | mk r c' =>
    rw [hq] at hpre
    cases r with
    | err e => cases hpre
    | panic q => cases hpre
    | ok w =>
      have hl2 := hl (s.drop i) 0 (Nat.zero_le _)
      rw [hq] at hl2
      obtain ⟨g1, g2, -, -⟩ := hl2
      have htr := ht (s.drop i) 0 w c' (Nat.zero_le _) hq
      simp only [shiftV, Prod.mk.injEq, Res.ok.injEq] at hpre
      obtain ⟨hv, hc⟩ := hpre
      subst hv
      simp only [g1, Nat.add_zero, hfg] at h1 h2 h3 ⊢
      have e1 : i + w.stop - i = w.stop := by omega
      rw [e1, ← g2, htr]
      congr 2
      cases w; simp_all

theorem reparses_of {α : Type} {p : P α} (hl : LocOK p) (hp : Pre p) (ht : TruncC p) : Reparses p := by
  have := reparsesV_of (p := p) (fun _ x => x) (fun _ x => x) (fun _ _ => rfl) hl
    (fun pre s i => by rw [shiftV_id]; exact hp pre s i) ht
  exact this


/-! ## prefix independence of the token parsers not covered by Lemmas/Shift.lean -/

theorem wsNoEOL_pre (e : Bool) : Pre (wsNoEOL e) := by
  intro pre s i
  unfold wsNoEOL
  simp only [allowed_pre, peek_pre]
  split
  · simp [shift]
  · split
    · have hsub : pre.length + (allowed isWsNoEol s i).2 - 1 = pre.length + ((allowed isWsNoEol s i).2 - 1) := by
        rename_i h2
        simp only [Bool.and_eq_true, beq_iff_eq] at h2
        have hs := allowed_snd isWsNoEol s i
        have : 0 < (allowed isWsNoEol s i).1.length := by
          cases hw : (allowed isWsNoEol s i).1 with
          | nil => rw [hw] at h2; simp at h2
          | cons a t => simp
        omega
      have hc : (pre.length + (allowed isWsNoEol s i).2 - 1 == pre.length + i) =
          ((allowed isWsNoEol s i).2 - 1 == i) := by
        rw [hsub, Bool.eq_iff_iff]; simp only [beq_iff_eq]; omega
      rw [hc]
      split
      · simp [shift]
      · simp [shift, hsub]
    · simp [shift]

theorem operatorP_pre : Pre operatorP := by
  intro pre s i
  unfold operatorP
  simp only [untilB_pre]
  have hc : (pre.length + i == pre.length + (untilB isNameTerm s i).2) = (i == (untilB isNameTerm s i).2) := by
    rw [Bool.eq_iff_iff]; simp only [beq_iff_eq]; omega
  rw [hc]
  split
  · simp [shift]
  · split
    · simp [shift]
    · split <;> simp [shift]

theorem tagP_pre (tag : Bytes) : Pre (tagP tag) := by
  intro pre s i
  unfold tagP
  simp only [exact_pre]
  cases h1 : exact tag s i with
  | mk b1 j1 => cases b1 <;> simp [shift]

/-- `StreamContentT.start` is an absolute offset: it moves with the buffer -/
def scShift (k : Nat) (v : StreamContent) : StreamContent := ⟨k + v.start, v.size, v.content⟩
def scRebase (k : Nat) (v : StreamContent) : StreamContent := ⟨v.start - k, v.size, v.content⟩

theorem skipByte_pre (b : UInt8) (pre s : Bytes) (j : Nat) :
    skipByte b (pre ++ s) (pre.length + j) = pre.length + skipByte b s j := by
  unfold skipByte
  rw [peek_pre]
  split <;> omega

theorem streamContentP_pre (len : Nat) (eol : Bool) : PreV scShift (streamContentP len eol) := by
  intro pre s i
  unfold streamContentP
  simp only [exact_pre]
  cases h0 : exact kwStream s i with
  | mk b0 j0 =>
    cases b0 with
    | false => simp [shiftV]
    | true =>
      simp only [skipByte_pre, peek_pre]
      split
      · simp [shiftV]
      · have hl : (pre ++ s).length - (pre.length + skipByte 13 s j0 + 1) = s.length - (skipByte 13 s j0 + 1) := by
          simp only [List.length_append]; omega
        rw [hl]
        split
        · simp [shiftV]
        · have a1 : pre.length + skipByte 13 s j0 + 1 + len = pre.length + (skipByte 13 s j0 + 1 + len) := by omega
          rw [a1]
          simp only [skipByte_pre]
          have hc : (pre.length + (skipByte 13 s j0 + 1 + len) ==
              pre.length + skipByte 10 s (skipByte 13 s (skipByte 13 s j0 + 1 + len))) =
              (skipByte 13 s j0 + 1 + len == skipByte 10 s (skipByte 13 s (skipByte 13 s j0 + 1 + len))) := by
            rw [Bool.eq_iff_iff]; simp only [beq_iff_eq]; omega
          rw [hc]
          split
          · simp [shiftV]
          · simp only [exact_pre]
            cases h3 : exact kwEndstream s (skipByte 10 s (skipByte 13 s (skipByte 13 s j0 + 1 + len))) with
            | mk b3 e3 =>
              cases b3 with
              | false => simp [shiftV]
              | true =>
                have hd : (pre ++ s).drop (pre.length + (skipByte 13 s j0 + 1)) = s.drop (skipByte 13 s j0 + 1) :=
                  drop_pre pre s _
                simp only [shiftV, scShift, Nat.add_assoc, hd]


theorem tagP_loc (tag : Bytes) : LocOK (tagP tag) := by
  intro s i hi
  unfold tagP
  split
  · rename_i j h; have := exact_ok h hi; exact lok (by omega) (by omega)
  · exact lerr

/-! ## the re-parse clause, token by token -/

theorem wsNoEOL_reparses (e : Bool) : Reparses (wsNoEOL e) :=
  reparses_of (wsNoEOL_loc e) (wsNoEOL_pre e) (wsNoEOL_truncC e)
theorem wsEOL_reparses (e : Bool) : Reparses (wsEOL e) :=
  reparses_of (wsEOL_loc e) (fun pre s i => wsEOL_pre pre s i e) (wsEOL_trunc e).toC
theorem comment_reparses : Reparses comment := reparses_of comment_loc comment_pre comment_trunc.toC
theorem boolean_reparses : Reparses boolean := reparses_of boolean_loc boolean_pre boolean_trunc.toC
theorem null_reparses : Reparses null := reparses_of null_loc null_pre null_trunc.toC
theorem integerP_reparses : Reparses integerP := reparses_of integerP_loc integerP_pre integerP_trunc.toC
theorem realP_reparses : Reparses realP := reparses_of realP_loc realP_pre realP_trunc.toC
theorem hexString_reparses : Reparses hexString := reparses_of hexString_loc hexString_pre hexString_trunc.toC
theorem rawLitString_reparses : Reparses rawLitString :=
  reparses_of rawLitString_loc rawLitString_pre rawLitString_trunc.toC
theorem nameP_reparses : Reparses nameP := reparses_of nameP_loc nameP_pre nameP_trunc.toC
theorem operatorP_reparses : Reparses operatorP := reparses_of operatorP_loc operatorP_pre operatorP_trunc.toC
theorem tagP_reparses (tag : Bytes) : Reparses (tagP tag) :=
  reparses_of (tagP_loc tag) (tagP_pre tag) (tagP_trunc tag).toC

/-- `StreamContentP`: the span re-parses to the same content and size; the `start` field (an absolute
    offset of the data inside the buffer) is re-based to the span: `start - span_start`. -/
theorem streamContentP_reparses (len : Nat) (eol : Bool) : ReparsesV scRebase (streamContentP len eol) :=
  reparsesV_of scShift scRebase (fun k x => by cases x; simp [scShift, scRebase])
    (streamContentP_loc len eol) (streamContentP_pre len eol) (streamContentP_trunc len eol).toC

/-- the data offset reported by `StreamContentP` lies inside the reported span, so the re-basing
    `start - span_start` loses nothing -/
theorem streamContentP_start_in_span (len : Nat) (eol : Bool) (s : Bytes) (i : Nat) (v : Located StreamContent)
    (c : Nat) (h : streamContentP len eol s i = (.ok v, c)) :
    v.start ≤ v.val.start ∧ v.val.start + v.val.size ≤ v.stop ∧ v.val.size = len ∧
      v.val.content = (s.drop v.val.start).take len := by
  unfold streamContentP at h
  split at h
  · cases h
  · rename_i j0 h0
    have he := exact_ok_ge h0
    have b1 := skipByte_bound 13 s j0
    simp only at h
    split at h
    · cases h
    · split at h
      · cases h
      · have b2 := skipByte_bound 13 s (skipByte 13 s j0 + 1 + len)
        have b3 := skipByte_bound 10 s (skipByte 13 s (skipByte 13 s j0 + 1 + len))
        split at h
        · cases h
        · split at h
          · cases h
          · rename_i e3 h3
            have g1 := exact_ok_ge h3
            cases h
            exact ⟨by simp only; omega, by simp only; omega, rfl, rfl⟩

/-- **C15, re-parse clause, all token parsers of pdf_prim.rs and the tag matcher.** -/
theorem reparse_tokens :
    (∀ e, Reparses (wsNoEOL e)) ∧ (∀ e, Reparses (wsEOL e)) ∧ Reparses comment ∧ Reparses boolean ∧
    Reparses null ∧ Reparses integerP ∧ Reparses realP ∧ Reparses hexString ∧ Reparses rawLitString ∧
    Reparses nameP ∧ Reparses operatorP ∧ (∀ len eol, ReparsesV scRebase (streamContentP len eol)) ∧
    (∀ tag, Reparses (tagP tag)) :=
  ⟨wsNoEOL_reparses, wsEOL_reparses, comment_reparses, boolean_reparses, null_reparses, integerP_reparses,
   realP_reparses, hexString_reparses, rawLitString_reparses, nameP_reparses, operatorP_reparses,
   streamContentP_reparses, tagP_reparses⟩

/-! non-vacuity: concrete successful parses whose spans re-parse (incl. the `\r` give-back) -/
example : wsNoEOL false [32, 13, 10, 65] 0 = (.ok ⟨(), 0, 1⟩, 1) := by decide
example : wsNoEOL false ([32, 13, 10, 65].take 2) 0 = (.ok ⟨(), 0, 2⟩, 2) := by decide   -- cut after the '\r': not stable
example : integerP [65, 45, 49, 50, 32] 1 = (.ok ⟨-12, 1, 4⟩, 4) := by decide
example : rawLitString [40, 97, 92, 41, 41, 120] 0 = (.ok ⟨[97, 92, 41], 0, 5⟩, 5) := by decide

/-! ## the object parser -/

mutual
theorem skipWs_idem (l : Bytes) : skipWs (l.drop (skipWs l)) = 0 := by
  cases l with
  | nil => simp [skipWs]
  | cons b t =>
    by_cases h1 : isWsEol b = true
    · have : skipWs (b :: t) = skipWs t + 1 := by rw [skipWs]; simp [h1]; omega
      rw [this, List.drop_succ_cons]
      exact skipWs_idem t
    · by_cases h2 : (b == 37) = true
      · have : skipWs (b :: t) = skipComment t + 1 := by rw [skipWs]; simp [h1, h2]; omega
        rw [this, List.drop_succ_cons]
        exact skipComment_idem t
      · have : skipWs (b :: t) = 0 := by rw [skipWs]; simp [h1, h2]
        rw [this, List.drop_zero, this]
theorem skipComment_idem (l : Bytes) : skipWs (l.drop (skipComment l)) = 0 := by
  cases l with
  | nil => simp [skipComment, skipWs]
  | cons b t =>
    by_cases h1 : (b == 10) = true
    · have : skipComment (b :: t) = skipWs t + 1 := by rw [skipComment]; simp [h1]; omega
      rw [this, List.drop_succ_cons]
      exact skipWs_idem t
    · have : skipComment (b :: t) = skipComment t + 1 := by rw [skipComment]; simp [h1]; omega
      rw [this, List.drop_succ_cons]
      exact skipComment_idem t
end

/-- after the whitespace/comment skipper nothing is left to skip -/
theorem wsEOL_idem {s : Bytes} {i st : Nat} {u : Located Unit} (hi : i ≤ s.length)
    (h : wsEOL true s i = (.ok u, st)) : wsEOL true s st = (.ok ⟨(), st, st⟩, st) := by
  have pw := wsEOL_progress true s i hi
  rw [h] at pw
  obtain ⟨-, hst, -⟩ := pw
  rw [wsEOL_ok_iff true s i hi] at h
  obtain ⟨-, -, h3⟩ := h
  rw [wsEOL_ok_iff true s st hst]
  have : skipWs (s.drop st) = 0 := by
    rw [h3, ← List.drop_drop]; exact skipWs_idem _
  rw [this]
  simp

theorem objParse_restart (el : Elem) (cur : Nat) (s : Bytes) (i : Nat) (v : Located Obj) (c cur2 : Nat)
    (hi : i ≤ s.length) (h : objParse el cur s i = ((.ok v, c), cur2)) :
    objParse el cur s v.start = ((.ok v, c), cur2) := by
  unfold objParse at h
  split at h
  · cases h
  · cases h
  · rename_i u st heq
    have hid := wsEOL_idem hi heq
    split at h
    · rename_i o j c2 hI
      cases h
      unfold objParse
      simp only [hid, hI]
    · cases h
    · cases h

/-- the object parser restarted at the reported start of the value (i.e. after the leading
    whitespace and comments it skipped) gives the same result -/
theorem parseObjB_restart (max b cur : Nat) (s : Bytes) (i : Nat) (v : Located Obj) (c cur' : Nat)
    (hi : i ≤ s.length) (h : parseObjB max b cur s i = ((.ok v, c), cur')) :
    parseObjB max b cur s v.start = ((.ok v, c), cur') := by
  cases b with
  | zero => unfold parseObjB at h; split at h <;> cases h
  | succ b =>
    unfold parseObjB at h ⊢
    split at h
    · cases h
    · rename_i hne
      rw [if_neg hne]
      simp only at h ⊢
      cases hO : objParse (parseObjB max b) (cur + 1) s i with
      | mk rk cur2 =>
        obtain ⟨r, k⟩ := rk
        rw [hO] at h
        have h' := h
        unfold leaveObj at h'
        simp only at h'
        split at h'
        · cases h'
        · simp only [Prod.mk.injEq] at h'
          obtain ⟨⟨hr, hk⟩, hcur⟩ := h'
          subst hr
          rw [objParse_restart _ _ _ _ _ _ _ hi hO]
          exact h

/-- **C15, re-parse clause for `parse_pdf_obj`** (scalars, references, arrays, dictionaries, at every
    depth bound): whenever the object parser succeeds at any cursor of any buffer, parsing the
    reported span alone (which starts after the leading whitespace) returns the same value,
    located at `[0, stop - start)`, consumes the span entirely, and leaves the same context. -/
theorem parseObj_reparses (d : Depth) (hd : d.cur ≤ d.max) (s : Bytes) (i : Nat) (hi : i ≤ s.length)
    (v : Located Obj) (c : Nat) (d' : Depth) (h : parseObj d s i = ((.ok v, c), d')) :
    parseObj d ((s.drop v.start).take (v.stop - v.start)) 0 =
      ((.ok ⟨v.val, 0, v.stop - v.start⟩, v.stop - v.start), d') := by
  unfold parseObj at h ⊢
  cases hB : parseObjB d.max (d.max - d.cur) d.cur s i with
  | mk rk cur' =>
    obtain ⟨r, k⟩ := rk
    rw [hB] at h
    simp only [Prod.mk.injEq] at h
    obtain ⟨⟨hr, hk⟩, hd'⟩ := h
    subst hr hk
    have hg := parseObjB_good d.max (d.max - d.cur) d.cur s i hi hd (Nat.le_refl _)
    rw [hB] at hg
    obtain ⟨g1, g2, g3, g4, g5, g6⟩ := hg
    -- 1. restart at the start of the value
    have h1 := parseObjB_restart _ _ _ _ _ _ _ _ hi hB
    -- 2. drop the bytes before the span
    have hlen : (s.take v.start).length = v.start := by simp only [List.length_take]; omega
    have h2 := parseObjB_pre (s.take v.start) d.max (d.max - d.cur) d.cur (s.drop v.start) 0
    rw [hlen, Nat.add_zero, List.take_append_drop, h1] at h2
    cases hQ : parseObjB d.max (d.max - d.cur) d.cur (s.drop v.start) 0 with
    | mk rk2 cur2 =>
      obtain ⟨r2, k2⟩ := rk2
      rw [hQ] at h2
      cases r2 with
      | err e => simp [shiftR, shift] at h2
      | panic q => simp [shiftR, shift] at h2
      | ok w =>
        simp only [shiftR, shift, Prod.mk.injEq, Res.ok.injEq] at h2
        obtain ⟨⟨hv, hk⟩, hcur⟩ := h2
        have hg2 := parseObjB_good d.max (d.max - d.cur) d.cur (s.drop v.start) 0 (Nat.zero_le _) hd (Nat.le_refl _)
        rw [hQ] at hg2
        obtain ⟨q1, q2, q3, q4, q5, q6⟩ := hg2
        have hw0 : w.start = 0 := by
          have := congrArg Located.start hv; simp only at this; omega
        have hws : w.stop = v.stop - v.start := by
          have := congrArg Located.stop hv; simp only at this; omega
        -- 3. cut the bytes after the span
        have h3 := parseObjB_trunc d.max (d.max - d.cur) d.cur (s.drop v.start) 0 k2 w k2 cur2 (Nat.zero_le _)
          (by omega) hd (Nat.le_refl _) hQ ⟨Nat.le_refl _, Or.inl rfl⟩
        rw [← hws, ← q4, h3, ← hd', ← hcur]
        have hvv : v.val = w.val := by rw [hv]
        simp only
        rw [hvv, ← hw0, q4]

/-- non-vacuity: a nested value with a reference look-ahead inside, leading whitespace and a trailing
    context whose first byte would change the meaning of a cut `R` -/
example : (parseObj ⟨0, 5⟩ [32, 91, 49, 32, 50, 32, 82, 40, 65, 41, 93, 82, 120] 0).1.2 = 11 := by decide


/-- … and its reported span `[1, 11)`, parsed alone, is consumed entirely (`parseObj_reparses` on this instance) -/
example : (parseObj ⟨0, 5⟩ (([32, 91, 49, 32, 50, 32, 82, 40, 65, 41, 93, 82, 120].drop 1).take 10) 0).1.2 = 10 := by
  decide

/-- the side condition of the truncation lemma is necessary: a cut immediately after an `R` that the
    full buffer rejects (a regular character follows) turns the integer into a reference -/
example : (numberOrRef [49, 32, 50, 32, 82, 120] 0).2 = 1 ∧
    (numberOrRef ([49, 32, 50, 32, 82, 120].take 5) 0).2 = 5 := by decide

end Parsley.C15
