/-
  C15 - witness of the known finding C15-stream-parser-location.

  The location reported by the two stream parsers of pdf_streams.rs is not a span of the buffer they are given
  (model: Model/StreamLoc.lean, tied to the code by the `os:` / `xsh:` cases of the C15 correspondence run):

  * `ObjStreamP` parses its members in views and never moves the buffer's own cursor: it reports
    (cursor, cursor) - an empty span, which re-parsed alone is rejected - whatever it extracted;
  * `XrefStreamP` behind a /Filter takes `start` from the encoded buffer and `end` from the decoded one, and
    leaves the cursor of the buffer it was given: `cursor ≠ end`, and `start > end` is possible.

  All statements are evaluations of the model on concrete inputs (`decide`): tests of the model, labelled as such.
-/
import Parsley.Model.StreamLoc
namespace Parsley.C15
open Parsley

/-- `/Type /XRef /Size n /W [0 1 0] /Filter /ASCIIHexDecode` -/
def hexXrefDict (n : Nat) : Xref.Dict :=
  [(Xref.kType, .atom (.name Xref.nXRef)), (Xref.kSize, .atom (.int n)),
   (Xref.kW, .arr [.int 0, .int 1, .int 0]), (Xref.kFilter, .atom (.name StreamLoc.asciiHexName))]

/-- object stream `1 0 5` (/N 1 /First 4): one member, reported location (0, 0), cursor 0 -/
def objStmOutcome : Bool :=
  match StreamLoc.objStreamP 5 1 4 [49, 32, 48, 32, 53] 0 with
  | (.ok v, c) => v.val.length == 1 && v.start == 0 && v.stop == 0 && c == 0
  | _ => false

/-- the reported (empty) span alone is rejected -/
def objStmEmptySpanRejected : Bool :=
  match StreamLoc.objStreamP 5 1 4 [] 0 with
  | (.ok _, _) => false
  | _ => true

/-- hex text `35c5>` (rows 0x35, 0xc5) at cursor 0: two entries, start 0, end 2 = cursor of the DECODED buffer,
    cursor of the given buffer still 0 -/
def xrefHexOutcome : Bool :=
  match StreamLoc.xrefStreamLocP (hexXrefDict 2) [51, 53, 99, 53, 62] 0 with
  | (.ok v, c) => v.val.length == 2 && v.start == 0 && v.stop == 2 && c == 0
  | _ => false

/-- four junk bytes, then `e0eb 38>` read from cursor 4: start 4 (encoded buffer) > end 3 (decoded buffer) -/
def xrefHexStartAfterEnd : Bool :=
  match StreamLoc.xrefStreamLocP (hexXrefDict 3) [0, 1, 0, 1, 101, 48, 101, 98, 32, 51, 56, 62, 0] 4 with
  | (.ok v, c) => v.val.length == 3 && v.start == 4 && v.stop == 3 && c == 4
  | _ => false

/-- **Witness (known finding C15-stream-parser-location)**: on these inputs the stream parsers succeed and report a
    location that violates C15: an empty span for a non-empty value whose re-parse fails; `cursor ≠ end`;
    `start > end`. -/
theorem stream_location_witness :
    objStmOutcome = true ∧ objStmEmptySpanRejected = true ∧ xrefHexOutcome = true ∧ xrefHexStartAfterEnd = true := by
  refine ⟨by decide, by decide, by decide +kernel, by decide +kernel⟩

end Parsley.C15
