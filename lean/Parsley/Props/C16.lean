/-
  C16 — Object nesting is bounded by the configured depth.

  Proved for ALL inputs, cursors and contexts (`cur ≤ max`):
   * `accepted_depth_le`  an accepted object has nesting depth ≤ max − cur
   * `depth_restored`     the context's current depth is unchanged by any parse, whatever its outcome
   * `parse_never_panics` no panic site of the model is reachable: `leave_obj`'s assert, the nesting
                          budget (= max − cur activations suffice: recursion depth is bounded by the
                          configured depth, not by the input), and the element-loop fuel (≤ |input|+1)
   * `obj_loc`            (C15 for the object parser) success ⇒ cursor-before ≤ start < end = cursor ≤ size
  `within_bound_accepted` (every valid spelling within the bound is accepted) is C02's `spell_parse`.
-/
import Parsley.Lemmas.Obj
namespace Parsley.C16
open Parsley Parsley.Prim Parsley.Obj

theorem parseObj_good (c : Depth) (s : Bytes) (i : Nat) (hi : i ≤ s.length) (hc : c.cur ≤ c.max) :
    good c.max c.cur s.length i (parseObjB c.max (c.max - c.cur) c.cur s i) :=
  parseObjB_good c.max (c.max - c.cur) c.cur s i hi hc (Nat.le_refl _)

/-- **C16.**  After any parse, successful or not, the context's depth is what it was. -/
theorem depth_restored (c : Depth) (s : Bytes) (i : Nat) (hi : i ≤ s.length) (hc : c.cur ≤ c.max) :
    (parseObj c s i).2 = c := by
  have h := parseObj_good c s i hi hc
  unfold parseObj
  revert h
  generalize parseObjB c.max (c.max - c.cur) c.cur s i = r
  obtain ⟨⟨r, k⟩, cur'⟩ := r
  cases r with
  | ok v => intro h; simp [h.1]
  | err e => intro h; simp [show cur' = c.cur from h]
  | panic p => intro h; exact h.elim

/-- **C16.**  An object is accepted only if its nesting depth does not exceed the bound
    (counted from the context's current depth). -/
theorem accepted_depth_le (c : Depth) (s : Bytes) (i : Nat) (hi : i ≤ s.length) (hc : c.cur ≤ c.max)
    (v : Located Obj) (k : Nat) (h : (parseObj c s i).1 = (.ok v, k)) : c.cur + depth v.val ≤ c.max := by
  have hg := parseObj_good c s i hi hc
  unfold parseObj at h
  revert hg h
  generalize parseObjB c.max (c.max - c.cur) c.cur s i = r
  obtain ⟨⟨r, k'⟩, cur'⟩ := r
  intro h hg
  dsimp only at h
  cases h
  exact hg.2.2.2.2.2

/-- **C16 / C01.**  No panic site is reachable: the nesting budget `max − cur` and the loop fuel
    `|s| + 1 − i` always suffice, and `leave_obj`'s assertion never fires. -/
theorem parse_never_panics (c : Depth) (s : Bytes) (i : Nat) (hi : i ≤ s.length) (hc : c.cur ≤ c.max) :
    (parseObj c s i).1.1.isPanic = false := by
  have hg := parseObj_good c s i hi hc
  unfold parseObj
  revert hg
  generalize parseObjB c.max (c.max - c.cur) c.cur s i = r
  obtain ⟨⟨r, k'⟩, cur'⟩ := r
  cases r with
  | ok v => intro _; rfl
  | err e => intro _; rfl
  | panic p => intro h; exact h.elim

/-- **C15 (object parser).**  On success the reported span lies inside the buffer after the
    cursor, is non-empty, and the cursor equals its end. -/
theorem obj_loc (c : Depth) (s : Bytes) (i : Nat) (hi : i ≤ s.length) (hc : c.cur ≤ c.max)
    (v : Located Obj) (k : Nat) (h : (parseObj c s i).1 = (.ok v, k)) :
    i ≤ v.start ∧ v.start < v.stop ∧ k = v.stop ∧ v.stop ≤ s.length := by
  have hg := parseObj_good c s i hi hc
  unfold parseObj at h
  revert hg h
  generalize parseObjB c.max (c.max - c.cur) c.cur s i = r
  obtain ⟨⟨r, k'⟩, cur'⟩ := r
  intro h hg
  dsimp only at h
  cases h
  exact ⟨hg.2.1, hg.2.2.1, hg.2.2.2.1, hg.2.2.2.2.1⟩

/-- A context that is already at its bound rejects everything (the `enter_obj` failure). -/
theorem at_bound_rejects (m : Nat) (s : Bytes) (i : Nat) :
    (parseObj ⟨m, m⟩ s i).1 = (.err .guard, i) := by
  unfold parseObj parseObjB
  simp

/-! Non-vacuity: `[[7]]` (depth 3) is accepted at bound 3 and rejected at bound 2, and the
    depth of the accepted value is 3. -/
def nested : Bytes := [91, 91, 55, 93, 93]
example : ((parseObj ⟨0, 3⟩ nested 0).1.1.isOk = true) ∧ ((parseObj ⟨0, 2⟩ nested 0).1.1.isOk = false) := by
  decide
example : depth (.arr [.arr [.int 7]]) = 3 := by decide

end Parsley.C16
