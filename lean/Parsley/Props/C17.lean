/-
  C17 — A buffer view behaves like an independent copy of its window.

  `Sys` (Model/Buffer.lean) is the Rust representation: allocations, `ParseBuffer{buf,start,end,ofs}`
  with an absolute cursor, `Rc` counts.  `ASys` (Spec/Buffer.lean) is the statement's reading: every
  live buffer is a private copy of its window with a relative cursor.  `abs` maps one to the other.

  Main theorems (all for ARBITRARY well-formed systems — any number of allocations, views of views,
  any sharing — and arbitrary operation sequences with arbitrary arguments):

    view_step_refines              one step: same output, `abs` commutes, WF preserved
    view_refines_copy              any operation sequence (forward simulation, by induction)
    wf_preserved                   start ≤ ofs ≤ end ≤ |storage| is invariant
    no_byte_outside_window         results do not depend on bytes outside the window (non-interference)
    failed_request_keeps_cursor    an `Err` leaves every buffer and the storage unchanged
    shared_refuses_mutation        drop/append return false while another live view shares the storage
    panics_only_where_copy_panics  the only panics: *_unsafe out of range, empty scan tag
    *_orig_witness                 the three defects of the pre-fix code, on concrete inputs
-/
import Parsley.Lemmas.Buffer
namespace Parsley.C17
open Parsley Parsley.Buffer Parsley.BufferSpec

/-- every live buffer points to an existing allocation and satisfies `start ≤ ofs ≤ end ≤ |storage|` -/
def WF (s : Sys) : Prop :=
  ∀ p, some p ∈ s.views → ∃ b, s.heap[p.store]? = some b ∧ WFV b p

def absView (heap : List Bytes) (p : PB) : AView := absV (heap[p.store]?.getD []) p

/-- the abstraction function: forget storage, `start` and absolute offsets -/
def abs (s : Sys) : ASys :=
  { ngrp := s.heap.length, views := s.views.map (Option.map (absView s.heap)) }

/-! ### bookkeeping lemmas -/

theorem get_some {s : Sys} {i : Nat} {p : PB} (h : s.get i = some p) : s.views[i]? = some (some p) := by
  unfold Sys.get at h
  split at h
  · rename_i q hq; cases h; exact hq
  · cases h

theorem get_mem {s : Sys} {i : Nat} {p : PB} (h : s.get i = some p) : some p ∈ s.views :=
  List.mem_iff_getElem?.mpr ⟨i, get_some h⟩

theorem get_lt {s : Sys} {i : Nat} {p : PB} (h : s.get i = some p) : i < s.views.length := by
  have := get_some h
  exact (List.getElem?_eq_some_iff.mp this).1

theorem abs_get (s : Sys) (i : Nat) : (abs s).get i = (s.get i).map (absView s.heap) := by
  unfold ASys.get Sys.get abs
  simp only [List.getElem?_map]
  cases h : s.views[i]? with
  | none => rfl
  | some o => cases o <;> rfl

theorem abs_keys (s : Sys) : (abs s).keys = s.keys := by
  unfold ASys.keys Sys.keys abs
  simp only [List.map_map]
  apply List.map_congr_left
  intro o _
  cases o <;> rfl

theorem absView_of {heap : List Bytes} {p : PB} {b : Bytes} (h : heap[p.store]? = some b) :
    absView heap p = absV b p := by
  simp [absView, h]

theorem set_same {α : Type} {l : List α} {i : Nat} {a : α} (h : l[i]? = some a) : l.set i a = l := by
  obtain ⟨hi, e⟩ := List.getElem?_eq_some_iff.mp h
  subst e
  exact List.set_getElem_self hi

theorem sharers_eq_count (keys : List (Option Nat)) (g : Nat) : sharers keys g = keys.count (some g) := by
  unfold sharers; rw [List.count_eq_length_filter]

/-- if the allocation of the live buffer in slot `i` has strong count 1, no other live buffer is on it -/
theorem unique_of_strong_one {s : Sys} {i : Nat} {p : PB} (hp : s.get i = some p)
    (h1 : s.strong p.store = 1) {q : PB} {j : Nat} (hq : s.views[j]? = some (some q)) (hne : j ≠ i) :
    q.store ≠ p.store := by
  intro e
  have hi := get_lt hp
  have hpi := get_some hp
  unfold Sys.strong at h1
  rw [sharers_eq_count] at h1
  have hki : s.keys[i]? = some (some p.store) := by simp [Sys.keys, hpi]
  have hkj : s.keys[j]? = some (some p.store) := by simp [Sys.keys, hq, e]
  have hlen : i < s.keys.length := by simp [Sys.keys]; exact hi
  have hc := List.count_set (a := (none : Option Nat)) (b := some p.store) (l := s.keys) hlen
  have hgi : s.keys[i] = some p.store := by
    have := List.getElem?_eq_some_iff.mp hki
    exact this.2
  rw [hgi] at hc
  simp only [beq_self_eq_true, if_true, h1] at hc
  have hmem : some p.store ∈ s.keys.set i none := by
    apply List.mem_iff_getElem?.mpr
    exact ⟨j, by rw [List.getElem?_set_ne (Ne.symm hne)]; exact hkj⟩
  have := List.count_pos_iff.mpr hmem
  simp at hc
  omega

/-- two live buffers on one allocation: the strong count is not 1 -/
theorem strong_ne_one_of_shared {s : Sys} {i j : Nat} {p q : PB} (hp : s.get i = some p)
    (hq : s.get j = some q) (hne : j ≠ i) (hst : q.store = p.store) : s.strong p.store ≠ 1 := by
  intro h1
  exact unique_of_strong_one hp h1 (get_some hq) hne hst

theorem init_wf (bs : Bytes) : WF (Sys.init bs) := by
  intro p hp
  simp [Sys.init] at hp
  subst hp
  exact ⟨bs, by simp [Sys.init], by simp [WFV]⟩

theorem init_abs (bs : Bytes) : abs (Sys.init bs) = ASys.init bs := by
  simp [abs, Sys.init, ASys.init, absView, absV, win]

/-- what one step must satisfy -/
structure Sim (s : Sys) (op : Op) : Prop where
  out : (step s op).1 = (astep (abs s) op).1
  abs : abs (step s op).2 = (astep (abs s) op).2
  wf : WF (step s op).2

theorem abs_get_none {s : Sys} {i : Nat} (hg : s.get i = none) : (abs s).get i = none := by
  rw [abs_get, hg]; rfl

theorem abs_get_some {s : Sys} {i : Nat} {p : PB} {b : Bytes} (hg : s.get i = some p)
    (hb : s.heap[p.store]? = some b) : (abs s).get i = some (absV b p) := by
  rw [abs_get, hg]; simp [absView_of hb]

theorem wf_set {s : Sys} (h : WF s) (i : Nat) (o : Option PB)
    (ho : ∀ p, o = some p → ∃ b, s.heap[p.store]? = some b ∧ WFV b p) :
    WF { s with views := s.views.set i o } := by
  intro p hp
  rcases List.mem_or_eq_of_mem_set hp with h1 | h1
  · exact h p h1
  · exact ho p h1.symm

theorem wf_push {s : Sys} (h : WF s) (o : Option PB)
    (ho : ∀ p, o = some p → ∃ b, s.heap[p.store]? = some b ∧ WFV b p) :
    WF { s with views := s.views ++ [o] } := by
  intro p hp
  simp only [List.mem_append, List.mem_singleton] at hp
  rcases hp with h1 | h1
  · exact h p h1
  · exact ho p h1.symm

theorem abs_set (s : Sys) (i : Nat) (o : Option PB) :
    abs { s with views := s.views.set i o } =
      { abs s with views := (abs s).views.set i (o.map (absView s.heap)) } := by
  simp [abs, List.map_set]

theorem abs_push (s : Sys) (o : Option PB) :
    abs { s with views := s.views ++ [o] } =
      { abs s with views := (abs s).views ++ [o.map (absView s.heap)] } := by
  simp [abs]

theorem sim_meth (s : Sys) (h : WF s) (i : Nat) (m : Meth) : Sim s (.meth i m) := by
  cases hg : s.get i with
  | none =>
    have ha := abs_get_none hg
    constructor
    · simp [step, astep, hg, ha]
    · simp [step, astep, hg, ha]
    · simpa [step, hg] using h
  | some p =>
    obtain ⟨b, hb, hwf⟩ := h p (get_mem hg)
    have ha := abs_get_some hg hb
    have R := run_refines m b p hwf
    have hb' : s.heap[(run m b p).2.store]? = some b := by rw [R.store]; exact hb
    constructor
    · simp [step, astep, hg, ha, hb, R.out]
    · simp only [step, astep, hg, ha, hb]
      rw [abs_set]
      simp only [Option.map, absView_of hb', R.abs]
    · simp only [step, hg, hb]
      apply wf_set h
      intro q hq
      cases hq
      exact ⟨b, hb', R.wf⟩

theorem sim_release (s : Sys) (h : WF s) (i : Nat) : Sim s (.release i) := by
  cases hg : s.get i with
  | none =>
    have ha := abs_get_none hg
    constructor
    · simp [step, astep, hg, ha]
    · simp [step, astep, hg, ha]
    · simpa [step, hg] using h
  | some p =>
    obtain ⟨b, hb, hwf⟩ := h p (get_mem hg)
    have ha := abs_get_some hg hb
    constructor
    · simp [step, astep, hg, ha]
    · simp only [step, astep, hg, ha]; rw [abs_set]; rfl
    · simp only [step, hg]
      exact wf_set h i none (by intro q hq; cases hq)

theorem sim_new (s : Sys) (h : WF s) (bs : Bytes) : Sim s (.new bs) := by
  constructor
  · simp [step, astep]
  · simp only [step, astep, abs, List.map_append, List.length_append, List.length_singleton,
      List.map_cons, List.map_nil, Option.map]
    congr 1
    congr 1
    · apply List.map_congr_left
      intro o ho
      cases o with
      | none => rfl
      | some p =>
        obtain ⟨b, hb, _⟩ := h p ho
        have hlt : p.store < s.heap.length := (List.getElem?_eq_some_iff.mp hb).1
        simp [absView, List.getElem?_append_left hlt]
    · simp [absView, absV, win]
  · intro p hp
    simp only [step, List.mem_append, List.mem_singleton] at hp
    rcases hp with h1 | h1
    · obtain ⟨b, hb, hw⟩ := h p h1
      have hlt : p.store < s.heap.length := (List.getElem?_eq_some_iff.mp hb).1
      exact ⟨b, by simp only [step]; rw [List.getElem?_append_left hlt]; exact hb, hw⟩
    · cases h1
      exact ⟨bs, by simp [step], by simp [WFV]⟩

theorem newView_ok {b : Bytes} {p : PB} (hwf : WFV b p) {st n : Nat} (hle : st + n ≤ p.stop - p.start) :
    newView p st n = .ok { store := p.store, start := p.start + st, ofs := p.start + st, stop := p.start + st + n } := by
  simp [newView, size_ok hwf, hle]

theorem absV_newView {b : Bytes} {p : PB} (hwf : WFV b p) {st n : Nat} (hle : st + n ≤ p.stop - p.start) :
    absV b { store := p.store, start := p.start + st, ofs := p.start + st, stop := p.start + st + n }
      = ⟨((win b p).drop st).take n, 0, p.store⟩ := by
  obtain ⟨h1, h2, h3⟩ := hwf
  simp only [absV, win, AView.mk.injEq, Nat.sub_self, and_true]
  rw [List.drop_take, List.drop_drop, List.take_take]
  congr 1; omega

theorem sim_view (s : Sys) (h : WF s) (i st n : Nat) : Sim s (.view i st n) := by
  cases hg : s.get i with
  | none =>
    have ha := abs_get_none hg
    constructor
    · simp [step, astep, hg, ha]
    · simp [step, astep, hg, ha]
    · simpa [step, hg] using h
  | some p =>
    obtain ⟨b, hb, hwf⟩ := h p (get_mem hg)
    have ha := abs_get_some hg hb
    have hw := win_length hwf
    by_cases hle : st + n ≤ p.stop - p.start
    · have hc : n ≤ p.stop - p.start ∧ st ≤ p.stop - p.start - n := by omega
      have hrv : restrictView p st n = .ok { store := p.store, start := p.start + st, ofs := p.start + st, stop := p.start + st + n } := by
        simp only [restrictView, size_ok hwf, hc, and_self, if_true]; exact newView_ok hwf hle
      have hle' : st + n ≤ (absV b p).win.length := by simp [absV, hw]; exact hle
      constructor
      · simp [step, astep, hg, ha, hrv, hle']
      · simp only [step, astep, hg, ha, hrv, hle', if_true]
        rw [abs_push]
        simp only [Option.map]
        rw [absView_of (p := { store := p.store, start := p.start + st, ofs := p.start + st, stop := p.start + st + n }) hb,
          absV_newView hwf hle]
        rfl
      · simp only [step, hg, hrv]
        apply wf_push h
        intro q hq
        cases hq
        obtain ⟨h1, h2, h3⟩ := hwf
        exact ⟨b, hb, by simp only [WFV]; omega⟩
    · have hc : ¬ (n ≤ p.stop - p.start ∧ st ≤ p.stop - p.start - n) := by omega
      have hrv : restrictView p st n = .err .bounds := by
        simp only [restrictView, size_ok hwf, hc, if_false]
      have hle' : ¬ (st + n ≤ (absV b p).win.length) := by simp [absV, hw]; omega
      constructor
      · simp [step, astep, hg, ha, hrv, hle']
      · simp only [step, astep, hg, ha, hrv, hle', if_false]
        rw [abs_push]; rfl
      · simp only [step, hg, hrv]
        exact wf_push h none (by intro q hq; cases hq)

theorem sim_viewFrom (s : Sys) (h : WF s) (i st : Nat) : Sim s (.viewFrom i st) := by
  cases hg : s.get i with
  | none =>
    have ha := abs_get_none hg
    constructor
    · simp [step, astep, hg, ha]
    · simp [step, astep, hg, ha]
    · simpa [step, hg] using h
  | some p =>
    obtain ⟨b, hb, hwf⟩ := h p (get_mem hg)
    have ha := abs_get_some hg hb
    have hw := win_length hwf
    by_cases hlt : st < p.stop - p.start
    · have hle : st + (p.stop - p.start - st) ≤ p.stop - p.start := by omega
      have hrv : restrictViewFrom p st = .ok { store := p.store, start := p.start + st, ofs := p.start + st, stop := p.start + st + (p.stop - p.start - st) } := by
        simp only [restrictViewFrom, size_ok hwf, hlt, if_true]; exact newView_ok hwf hle
      have hlt' : st < (absV b p).win.length := by simp [absV, hw]; exact hlt
      have htk : ((win b p).drop st).take (p.stop - p.start - st) = (win b p).drop st := by
        apply List.take_of_length_le; rw [List.length_drop, hw]; omega
      constructor
      · simp [step, astep, hg, ha, hrv, hlt']
      · simp only [step, astep, hg, ha, hrv, hlt', if_true]
        rw [abs_push]
        simp only [Option.map]
        rw [absView_of (p := { store := p.store, start := p.start + st, ofs := p.start + st, stop := p.start + st + (p.stop - p.start - st) }) hb,
          absV_newView hwf hle, htk]
        rfl
      · simp only [step, hg, hrv]
        apply wf_push h
        intro q hq
        cases hq
        obtain ⟨h1, h2, h3⟩ := hwf
        exact ⟨b, hb, by simp only [WFV]; omega⟩
    · have hrv : restrictViewFrom p st = .err .bounds := by
        simp only [restrictViewFrom, size_ok hwf, hlt, if_false]
      have hlt' : ¬ (st < (absV b p).win.length) := by simp [absV, hw]; omega
      constructor
      · simp [step, astep, hg, ha, hrv, hlt']
      · simp only [step, astep, hg, ha, hrv, hlt', if_false]
        rw [abs_push]; rfl
      · simp only [step, hg, hrv]
        exact wf_push h none (by intro q hq; cases hq)

/-- mutation of the storage of an unshared buffer: the other buffers keep their abstraction -/
theorem abs_mutate {s : Sys} (h : WF s) {i : Nat} {p : PB} (hg : s.get i = some p)
    (h1 : s.strong p.store = 1) (b' : Bytes) (p' : PB) :
    abs { heap := s.heap.set p.store b', views := s.views.set i (some p') } =
      { abs s with views := (abs s).views.set i (some (absView (s.heap.set p.store b') p')) } := by
  have hi := get_lt hg
  simp only [abs, List.length_set, ASys.mk.injEq, true_and]
  apply List.ext_getElem?
  intro j
  by_cases hj : j = i
  · subst hj
    simp [List.getElem?_set_self, hi]
  · rw [List.getElem?_set_ne (Ne.symm hj), List.getElem?_map, List.getElem?_map,
      List.getElem?_set_ne (Ne.symm hj)]
    cases hv : s.views[j]? with
    | none => rfl
    | some o =>
      cases o with
      | none => rfl
      | some q =>
        have hne := unique_of_strong_one hg h1 hv hj
        simp [absView, List.getElem?_set_ne (Ne.symm hne)]

theorem wf_mutate {s : Sys} (h : WF s) {i : Nat} {p : PB} (hg : s.get i = some p)
    (h1 : s.strong p.store = 1) (b' : Bytes) (p' : PB) (hst : p'.store = p.store) (hw : WFV b' p') :
    WF { heap := s.heap.set p.store b', views := s.views.set i (some p') } := by
  obtain ⟨b, hb, _⟩ := h p (get_mem hg)
  have hlt : p.store < s.heap.length := (List.getElem?_eq_some_iff.mp hb).1
  intro q hq
  obtain ⟨j, hj⟩ := List.mem_iff_getElem?.mp hq
  by_cases hji : j = i
  · subst hji
    rw [List.getElem?_set_self (get_lt hg)] at hj
    cases hj
    exact ⟨b', by rw [hst]; simp [List.getElem?_set_self, hlt], hw⟩
  · rw [List.getElem?_set_ne (Ne.symm hji)] at hj
    have hne := unique_of_strong_one hg h1 hj hji
    obtain ⟨bq, hbq, hwq⟩ := h q (List.mem_iff_getElem?.mpr ⟨j, hj⟩)
    exact ⟨bq, by simp only; rw [List.getElem?_set_ne (Ne.symm hne)]; exact hbq, hwq⟩

theorem sim_append (s : Sys) (h : WF s) (i : Nat) (bs : Bytes) : Sim s (.append i bs) := by
  cases hg : s.get i with
  | none =>
    have ha := abs_get_none hg
    constructor
    · simp [step, astep, hg, ha]
    · simp [step, astep, hg, ha]
    · simpa [step, hg] using h
  | some p =>
    obtain ⟨b, hb, hwf⟩ := h p (get_mem hg)
    have ha := abs_get_some hg hb
    have hk : sharers (abs s).keys (absV b p).grp = s.strong p.store := by
      rw [abs_keys]; rfl
    by_cases h1 : s.strong p.store = 1
    · have hlt : p.store < s.heap.length := (List.getElem?_eq_some_iff.mp hb).1
      obtain ⟨w1, w2, w3⟩ := hwf
      have hwf : WFV b p := ⟨w1, w2, w3⟩
      have hl1 : (b.take p.stop).length = p.stop := by rw [List.length_take]; omega
      have hwin : win (b.take p.stop ++ bs) { p with stop := p.stop + bs.length } = win b p ++ bs := by
        simp only [win]
        rw [List.drop_append_of_le_length (by omega), List.take_append, List.length_drop, hl1,
          List.drop_take]
        have e1 : p.stop + bs.length - p.start - (p.stop - p.start) = bs.length := by omega
        rw [e1, List.take_length, List.take_take]
        congr 2
        omega
      have hav : absView (s.heap.set p.store (b.take p.stop ++ bs)) { p with stop := p.stop + bs.length }
          = { absV b p with win := (absV b p).win ++ bs } := by
        simp only [absView, List.getElem?_set_self hlt, Option.getD, absV, hwin]
      constructor
      · simp [step, astep, hg, ha, hk, h1, hb, appendUnshared]
      · simp only [step, astep, hg, ha, hk, h1, hb, appendUnshared, ne_eq, not_true_eq_false, if_false]
        rw [abs_mutate h hg h1, hav]
      · simp only [step, hg, h1, hb, appendUnshared, ne_eq, not_true_eq_false, if_false]
        refine wf_mutate h hg h1 _ { p with stop := p.stop + bs.length } rfl ?_
        simp only [WFV, List.length_append, hl1]; omega
    · constructor
      · simp [step, astep, hg, ha, hk, h1]
      · simp [step, astep, hg, ha, hk, h1]
      · simpa [step, hg, h1] using h

theorem sim_drop (s : Sys) (h : WF s) (i n : Nat) : Sim s (.drop i n) := by
  cases hg : s.get i with
  | none =>
    have ha := abs_get_none hg
    constructor
    · simp [step, astep, hg, ha]
    · simp [step, astep, hg, ha]
    · simpa [step, hg] using h
  | some p =>
    obtain ⟨b, hb, hwf⟩ := h p (get_mem hg)
    have ha := abs_get_some hg hb
    have hk : sharers (abs s).keys (absV b p).grp = s.strong p.store := by
      rw [abs_keys]; rfl
    by_cases h1 : s.strong p.store = 1
    · have hlt : p.store < s.heap.length := (List.getElem?_eq_some_iff.mp hb).1
      obtain ⟨w1, w2, w3⟩ := hwf
      have hwf : WFV b p := ⟨w1, w2, w3⟩
      by_cases hc : p.ofs - p.start < n
      · -- would cross the cursor: refused, nothing changes
        have hd : dropUnshared b p n = .ok (false, b, p) := by
          simp [dropUnshared, getCursor_ok hwf, hc]
        have hc' : (absV b p).cur < n := hc
        have hs : ({ heap := s.heap.set p.store b, views := s.views.set i (some p) } : Sys) = s := by
          rw [set_same hb, set_same (get_some hg)]
        constructor
        · simp [step, astep, hg, ha, hk, h1, hb, hd, hc']
        · simp only [step, astep, hg, ha, hk, h1, hb, hd, hc', ne_eq, not_true_eq_false, if_false, if_true, hs]
        · simp only [step, hg, h1, hb, hd, ne_eq, not_true_eq_false, if_false, hs]; exact h
      · have hl1 : (b.take p.stop).length = p.stop := by rw [List.length_take]; omega
        have hd : dropUnshared b p n = .ok (true, (b.take p.stop).drop (p.start + n),
            { p with start := 0, ofs := p.ofs - (p.start + n), stop := ((b.take p.stop).drop (p.start + n)).length }) := by
          have a1 : p.start + n ≤ p.stop := by omega
          have a2 : p.start + n ≤ p.ofs := by omega
          simp [dropUnshared, getCursor_ok hwf, hc, hl1, a1, a2]
        have hc' : ¬ ((absV b p).cur < n) := hc
        have hl2 : ((b.take p.stop).drop (p.start + n)).length = p.stop - (p.start + n) := by
          rw [List.length_drop, hl1]
        have hwin : (b.take p.stop).drop (p.start + n) = (win b p).drop n := by
          simp only [win]
          rw [List.drop_take, List.drop_take, List.drop_drop]
          congr 1; omega
        have hav : absView (s.heap.set p.store ((b.take p.stop).drop (p.start + n)))
              { p with start := 0, ofs := p.ofs - (p.start + n), stop := ((b.take p.stop).drop (p.start + n)).length }
            = { absV b p with win := (absV b p).win.drop n, cur := (absV b p).cur - n } := by
          simp only [absView, List.getElem?_set_self hlt, Option.getD, absV, win, List.drop_zero,
            Nat.sub_zero, List.take_length]
          rw [hwin]
          simp only [win, AView.mk.injEq, true_and, and_true]
          omega
        constructor
        · simp [step, astep, hg, ha, hk, h1, hb, hd, hc']
        · simp only [step, astep, hg, ha, hk, h1, hb, hd, hc', ne_eq, not_true_eq_false, if_false]
          rw [abs_mutate h hg h1, hav]
        · simp only [step, hg, h1, hb, hd, ne_eq, not_true_eq_false, if_false]
          refine wf_mutate h hg h1 _ { p with start := 0, ofs := p.ofs - (p.start + n), stop := ((b.take p.stop).drop (p.start + n)).length } rfl ?_
          simp only [WFV, hl2]; omega
    · constructor
      · simp [step, astep, hg, ha, hk, h1]
      · simp [step, astep, hg, ha, hk, h1]
      · simpa [step, hg, h1] using h

/-- **One step.**  On a well-formed system every operation returns exactly what the copy machine
    returns on the abstraction, the abstraction commutes with the step, and the result is
    well-formed again. -/
theorem view_step_refines (s : Sys) (h : WF s) (op : Op) :
    (step s op).1 = (astep (abs s) op).1 ∧ abs (step s op).2 = (astep (abs s) op).2 ∧ WF (step s op).2 := by
  have S : Sim s op := by
    cases op with
    | new bs => exact sim_new s h bs
    | view i st n => exact sim_view s h i st n
    | viewFrom i st => exact sim_viewFrom s h i st
    | release i => exact sim_release s h i
    | meth i m => exact sim_meth s h i m
    | drop i n => exact sim_drop s h i n
    | append i bs => exact sim_append s h i bs
  exact ⟨S.out, S.abs, S.wf⟩

example : WF (Sys.init [1, 2, 3]) ∧ (step (Sys.init [1, 2, 3]) (.view 0 1 2)).1 = .ok .created :=
  ⟨init_wf _, by decide⟩

/-- **Any operation sequence** (the C17 statement): from a well-formed system, the outputs of every
    finite sequence of operations are those of the copy machine, and the final states correspond. -/
theorem view_refines_copy (ops : List Op) (s : Sys) (h : WF s) :
    (runOps s ops).1 = (arunOps (abs s) ops).1 ∧ abs (runOps s ops).2 = (arunOps (abs s) ops).2
      ∧ WF (runOps s ops).2 := by
  induction ops generalizing s with
  | nil => exact ⟨rfl, rfl, h⟩
  | cons op ops ih =>
    obtain ⟨e1, e2, e3⟩ := view_step_refines s h op
    by_cases hp : (step s op).1.isPanic = true
    · have hp' : (astep (abs s) op).1.isPanic = true := by rw [← e1]; exact hp
      simp only [runOps, arunOps, hp, hp', if_true]
      exact ⟨by rw [e1], e2, e3⟩
    · have hp' : ¬ (astep (abs s) op).1.isPanic = true := by rw [← e1]; exact hp
      obtain ⟨i1, i2, i3⟩ := ih (step s op).2 e3
      rw [e2] at i1 i2
      simp only [runOps, arunOps, hp, hp', Bool.false_eq_true, if_false]
      exact ⟨by rw [e1, i1], i2, i3⟩

/-- the statement as worded: a fresh buffer, any history -/
theorem view_refines_copy_init (bs : Bytes) (ops : List Op) :
    (runOps (Sys.init bs) ops).1 = (arunOps (ASys.init bs) ops).1 := by
  rw [← init_abs]; exact (view_refines_copy ops _ (init_wf bs)).1

/-- **Invariant.**  `start ≤ ofs ≤ end ≤ |storage|` holds after every history, so no `remaining()`
    assert, slice bound or `usize` subtraction in the buffer code can fire. -/
theorem wf_preserved (ops : List Op) (s : Sys) (h : WF s) : WF (runOps s ops).2 :=
  (view_refines_copy ops s h).2.2

example : WF (runOps (Sys.init [1, 2, 3]) [.view 0 1 2, .release 0, .drop 1 0]).2 :=
  wf_preserved _ _ (init_wf _)

/-! ### consequences -/

/-- the fresh buffer holding a copy of just the viewed bytes (`ParseBuffer::new(window)`, cursor moved
    to the same relative position) -/
def copyOf (b : Bytes) (p : PB) : PB :=
  { store := p.store, start := 0, stop := (win b p).length, ofs := p.ofs - p.start }

theorem copyOf_wf {b : Bytes} {p : PB} (h : WFV b p) : WFV (win b p) (copyOf b p) := by
  have hw := win_length h
  obtain ⟨h1, h2, h3⟩ := h
  simp only [WFV, copyOf, hw]; omega

theorem copyOf_abs (b : Bytes) (p : PB) : absV (win b p) (copyOf b p) = absV b p := by
  simp only [absV, copyOf, win, List.drop_zero, Nat.sub_zero, List.take_length]

/-- **No byte outside the window is observable** (non-interference, stated on the model alone):
    every method returns on the view what it returns on a fresh buffer that holds only the viewed
    bytes, and leaves the same relative cursor — whatever the storage contains outside the window. -/
theorem no_byte_outside_window (m : Meth) (b : Bytes) (p : PB) (h : WFV b p) :
    (run m b p).1 = (run m (win b p) (copyOf b p)).1 ∧
    (run m b p).2.ofs - p.start = (run m (win b p) (copyOf b p)).2.ofs := by
  have R := run_refines m b p h
  have R' := run_refines m (win b p) (copyOf b p) (copyOf_wf h)
  have o' := R'.out
  have a' := R'.abs
  rw [copyOf_abs] at o' a'
  refine ⟨by rw [R.out, o'], ?_⟩
  have e := R.abs.trans a'.symm
  have e2 := congrArg AView.cur e
  simp only [absV, R.start, R'.start] at e2
  simpa [copyOf] using e2

example : WFV [1, 2, 3, 4, 5] ⟨0, 1, 4, 2⟩ ∧ win [1, 2, 3, 4, 5] ⟨0, 1, 4, 2⟩ = [2, 3, 4] :=
  ⟨by simp [WFV], by decide⟩

theorem arun_err {m : Meth} {a : AView} {e : ErrK} (h : (arun m a).1 = .err e) : (arun m a).2 = a := by
  cases m with
  | scan t =>
    by_cases ht : t.length = 0
    · simp [arun, ht] at h
    · simp only [arun, ht, if_false] at h ⊢
      split at h
      · cases h
      · rename_i hf; simp only [hf]
  | bscan t =>
    by_cases ht : t.length = 0
    · simp [arun, ht] at h
    · simp only [arun, ht, if_false] at h ⊢
      split at h
      · cases h
      · rename_i hf; simp only [hf]
  | _ => simp only [arun] at h ⊢ <;> (repeat' split) <;> simp_all

/-- a method that returns `Err` leaves the buffer exactly as it was -/
theorem run_err_unchanged {m : Meth} {b : Bytes} {p : PB} (hw : WFV b p) {e : ErrK}
    (h : (run m b p).1 = .err e) : (run m b p).2 = p := by
  have R := run_refines m b p hw
  rw [R.out] at h
  have e1 := R.abs.trans (arun_err h)
  have e2 := congrArg AView.cur e1
  simp only [absV, R.start] at e2
  have w1 := R.wf.1
  rw [R.start] at w1
  have := hw.1
  have ho : (run m b p).2.ofs = p.ofs := by omega
  have hs := R.store; have ht := R.start; have hp := R.stop
  cases hr : (run m b p).2 with
  | mk a b' c d =>
    rw [hr] at ho hs ht hp
    simp only at ho hs ht hp
    subst ho hs ht hp
    rfl

/-- **Failed requests do not move anything**: if an operation reports an error, the storage and
    every buffer that existed before are unchanged (a failed view transformation only adds an empty
    slot). -/
theorem failed_request_keeps_cursor (s : Sys) (h : WF s) (op : Op) (e : ErrK)
    (herr : (step s op).1 = .err e) :
    (step s op).2.heap = s.heap ∧ ∀ j, j < s.views.length → (step s op).2.views[j]? = s.views[j]? := by
  cases op with
  | new bs => simp [step] at herr
  | release i => simp only [step] at herr; split at herr <;> cases herr
  | append i bs =>
    simp only [step] at herr
    split at herr
    · cases herr
    · split at herr
      · cases herr
      · split at herr <;> simp at herr
  | view i st n =>
    simp only [step] at herr ⊢
    split at herr
    · cases herr
    · split at herr
      · cases herr
      · exact ⟨rfl, fun j hj => List.getElem?_append_left hj⟩
      · cases herr
  | viewFrom i st =>
    simp only [step] at herr ⊢
    split at herr
    · cases herr
    · split at herr
      · cases herr
      · exact ⟨rfl, fun j hj => List.getElem?_append_left hj⟩
      · cases herr
  | drop i n =>
    cases hg : s.get i with
    | none => simp [step, hg] at herr
    | some p =>
      by_cases h1 : s.strong p.store = 1
      · cases hb : s.heap[p.store]? with
        | none => simp [step, hg, h1, hb] at herr
        | some b =>
          cases hd : dropUnshared b p n with
          | ok v => obtain ⟨r, b', p'⟩ := v; simp [step, hg, h1, hb, hd] at herr
          | err e' => simp [step, hg, h1, hb, hd]
          | panic x => simp [step, hg, h1, hb, hd] at herr
      · simp [step, hg, h1] at herr
  | meth i m =>
    cases hg : s.get i with
    | none => simp [step, hg] at herr
    | some p =>
      obtain ⟨b, hb, hwf⟩ := h p (get_mem hg)
      cases hr : run m b p with
      | mk r p' =>
        simp only [step, hg, hb, hr] at herr ⊢
        have hu := run_err_unchanged (m := m) hwf (e := e) (by rw [hr]; exact herr)
        rw [hr] at hu
        simp only at hu
        subst hu
        rw [set_same (get_some hg)]
        exact ⟨trivial, fun j _ => rfl⟩

example : (step (Sys.init [1, 2, 3]) (.meth 0 (.setCursor 4))).1 = .err .eob := by decide

/-- **drop and append are refused while the storage is shared**: if another live buffer is on the
    same allocation, both return `false` and change nothing. -/
theorem shared_refuses_mutation (s : Sys) (i j : Nat) (p q : PB) (hp : s.get i = some p)
    (hq : s.get j = some q) (hne : j ≠ i) (hst : q.store = p.store) :
    (∀ n, step s (.drop i n) = (.ok (.bool false), s)) ∧
    (∀ bs, step s (.append i bs) = (.ok (.bool false), s)) := by
  have h1 := strong_ne_one_of_shared hp hq hne hst
  exact ⟨fun n => by simp [step, hp, h1], fun bs => by simp [step, hp, h1]⟩

example : (Sys.init [1, 2, 3]).get 0 = some ⟨0, 0, 3, 0⟩ ∧
    (step (Sys.init [1, 2, 3]) (.view 0 1 2)).2.get 1 = some ⟨0, 1, 3, 1⟩ := by decide

/-- the calls that assert instead of reporting: `*_unsafe` cursor moves and scans for the empty tag -/
def asserting : Meth → Bool
  | .setCursorU _ | .incrU | .decrU => true
  | .scan t | .bscan t => t.length == 0
  | _ => false

theorem arun_panic {m : Meth} {a : AView} {x : String} (h : (arun m a).1 = .panic x) :
    asserting m = true := by
  cases m <;> simp only [arun] at h <;> (try split at h) <;> (try split at h) <;> simp_all [asserting]

/-- **The only panics** reachable from a well-formed system are the asserting `*_unsafe` calls out of
    range and `scan`/`backward_scan` with the empty tag (`windows(0)`), and they occur on the view
    exactly when they occur on the copy (by `view_step_refines`).  In particular no slice bound, index,
    `remaining()` assert or `usize` overflow/underflow in the buffer code is reachable. -/
theorem panics_only_where_copy_panics (s : Sys) (h : WF s) (op : Op) (x : String)
    (hp : (step s op).1 = .panic x) : ∃ i m, op = .meth i m ∧ asserting m = true := by
  rw [(view_step_refines s h op).1] at hp
  cases op with
  | new bs => simp [astep] at hp
  | release i => simp only [astep] at hp; split at hp <;> cases hp
  | view i st n =>
    simp only [astep] at hp
    split at hp
    · cases hp
    · split at hp <;> cases hp
  | viewFrom i st =>
    simp only [astep] at hp
    split at hp
    · cases hp
    · split at hp <;> cases hp
  | drop i n =>
    simp only [astep] at hp
    split at hp
    · cases hp
    · split at hp
      · cases hp
      · split at hp <;> cases hp
  | append i bs =>
    simp only [astep] at hp
    split at hp
    · cases hp
    · split at hp <;> cases hp
  | meth i m =>
    refine ⟨i, m, rfl, ?_⟩
    simp only [astep] at hp
    split at hp
    · cases hp
    · exact arun_panic hp

example : (step (Sys.init [1, 2, 3]) (.meth 0 (.scan []))).1 = .panic "windows(0)" := by decide

/-! ### the defects of the pre-fix code (commit 666c934), on concrete inputs

  `runOpsOrig` runs the method bodies as they were (Model/Buffer.lean, `…Orig`; the correspondence run
  with tag `oops` showed them equal to the unfixed Rust code on every generated case).  Each witness
  is a history on which the old code differs from the copy machine; after fixes C17-01/C17-02 the
  same histories are instances of `view_refines_copy`. -/

def digits : Bytes := [0x30, 0x31, 0x32, 0x33, 0x34, 0x35, 0x36, 0x37, 0x38, 0x39]

/-- DESIGN §4 #5: unshared view `[3,7)` of `0123456789`, cursor 2, `drop(1)`: the old code reports
    size 6 and cursor 4 (and the bytes `456789`); a copy has size 3, cursor 1, bytes `456`. -/
theorem drop_orig_witness :
    (runOpsOrig (Sys.init digits)
        [.view 0 3 4, .release 0, .meth 1 (.setCursor 2), .drop 1 1, .meth 1 .size, .meth 1 .getCursor]).1
      = [.ok .created, .ok .unit, .ok .unit, .ok (.bool true), .ok (.nat 6), .ok (.nat 4)]
    ∧ (arunOps (ASys.init digits)
        [.view 0 3 4, .release 0, .meth 1 (.setCursor 2), .drop 1 1, .meth 1 .size, .meth 1 .getCursor]).1
      = [.ok .created, .ok .unit, .ok .unit, .ok (.bool true), .ok (.nat 3), .ok (.nat 1)]
    ∧ (runOps (Sys.init digits)
        [.view 0 3 4, .release 0, .meth 1 (.setCursor 2), .drop 1 1, .meth 1 .size, .meth 1 .getCursor]).1
      = [.ok .created, .ok .unit, .ok .unit, .ok (.bool true), .ok (.nat 3), .ok (.nat 1)] := by
  decide

/-- `append("XY")` on the same view: the old code exposes `78` (bytes after the window) instead of `XY`. -/
theorem append_orig_witness :
    (runOpsOrig (Sys.init digits)
        [.view 0 3 4, .release 0, .append 1 [0x58, 0x59], .meth 1 (.setCursor 4), .meth 1 .buf]).1
      = [.ok .created, .ok .unit, .ok (.bool true), .ok .unit, .ok (.bytes [0x37, 0x38])]
    ∧ (arunOps (ASys.init digits)
        [.view 0 3 4, .release 0, .append 1 [0x58, 0x59], .meth 1 (.setCursor 4), .meth 1 .buf]).1
      = [.ok .created, .ok .unit, .ok (.bool true), .ok .unit, .ok (.bytes [0x58, 0x59])]
    ∧ (runOps (Sys.init digits)
        [.view 0 3 4, .release 0, .append 1 [0x58, 0x59], .meth 1 (.setCursor 4), .meth 1 .buf]).1
      = [.ok .created, .ok .unit, .ok (.bool true), .ok .unit, .ok (.bytes [0x58, 0x59])] := by
  decide

/-- `set_cursor(usize::MAX)` on a view with `start > 0`: the old `self.start + ofs` overflows (panic in a
    debug build, wrap-around in release); a copy reports end-of-buffer. -/
theorem set_cursor_orig_witness :
    (runOpsOrig (Sys.init digits) [.view 0 3 4, .meth 1 (.setCursor usizeMax)]).1
      = [.ok .created, .panic "set_cursor: add with overflow"]
    ∧ (arunOps (ASys.init digits) [.view 0 3 4, .meth 1 (.setCursor usizeMax)]).1
      = [.ok .created, .err .eob]
    ∧ (runOps (Sys.init digits) [.view 0 3 4, .meth 1 (.setCursor usizeMax)]).1
      = [.ok .created, .err .eob] := by
  decide

/-! ### what the copy machine's scans mean (sanity of the spec: least / greatest match) -/

/-- `scan` on a copy: the tag is at distance `k` after the cursor and at no smaller distance -/
theorem scan_least (t : Bytes) (a : AView) (k : Nat) (a' : AView)
    (h : arun (.scan t) a = (.ok (.nat k), a')) :
    t.isPrefixOf ((a.win.drop a.cur).drop k) = true ∧ a'.cur = a.cur + k ∧ a'.win = a.win
      ∧ ∀ j, j < k → t.isPrefixOf ((a.win.drop a.cur).drop j) = false := by
  by_cases ht : t.length = 0
  · simp [arun, ht] at h
  · simp only [arun, ht, if_false] at h
    split at h
    · rename_i k' hf
      simp only [Prod.mk.injEq, Res.ok.injEq, Out.nat.injEq] at h
      obtain ⟨rfl, rfl⟩ := h
      rw [List.find?_range_eq_some] at hf
      refine ⟨hf.1, rfl, rfl, ?_⟩
      intro j hj
      have := hf.2.2 j hj
      simpa using this
    · simp at h

example : arun (.scan [2, 3]) ⟨[1, 2, 3, 2, 3], 0, 0⟩ = (.ok (.nat 1), ⟨[1, 2, 3, 2, 3], 1, 0⟩) := by decide

theorem find?_rev_range {p : Nat → Bool} {n j : Nat} (h : (List.range n).reverse.find? p = some j) :
    p j = true ∧ j < n ∧ ∀ i, j < i → i < n → p i = false := by
  induction n with
  | zero => simp at h
  | succ n ih =>
    rw [List.range_succ, List.reverse_append] at h
    simp only [List.reverse_cons, List.reverse_nil, List.nil_append, List.cons_append, List.find?_cons] at h
    cases hp : p n with
    | true =>
      simp only [hp] at h
      cases h
      exact ⟨hp, by omega, fun i h1 h2 => by omega⟩
    | false =>
      simp only [hp] at h
      obtain ⟨a, b, c⟩ := ih h
      refine ⟨a, by omega, fun i h1 h2 => ?_⟩
      by_cases hi : i = n
      · subst hi; exact hp
      · exact c i h1 (by omega)

/-- `backward_scan` on a copy: the new cursor is the greatest position at which the tag lies entirely
    before the old cursor -/
theorem bscan_greatest (t : Bytes) (a : AView) (d : Nat) (a' : AView)
    (h : arun (.bscan t) a = (.ok (.nat d), a')) :
    a'.cur + t.length ≤ a.cur ∧ d = a.cur - a'.cur ∧ a'.win = a.win
      ∧ t.isPrefixOf ((a.win.take a.cur).drop a'.cur) = true
      ∧ ∀ i, a'.cur < i → i + t.length ≤ a.cur → t.isPrefixOf ((a.win.take a.cur).drop i) = false := by
  by_cases ht : t.length = 0
  · simp [arun, ht] at h
  · simp only [arun, ht, if_false] at h
    split at h
    · rename_i j hf
      simp only [Prod.mk.injEq, Res.ok.injEq, Out.nat.injEq] at h
      obtain ⟨rfl, rfl⟩ := h
      obtain ⟨h1, h2, h3⟩ := find?_rev_range hf
      refine ⟨by simp only; omega, rfl, rfl, h1, ?_⟩
      intro i hi1 hi2
      exact h3 i hi1 (by omega)
    · simp at h

example : arun (.bscan [2, 3]) ⟨[1, 2, 3, 2, 3], 4, 0⟩ = (.ok (.nat 3), ⟨[1, 2, 3, 2, 3], 1, 0⟩) := by decide

example : (runOps (Sys.init digits) [.view 0 3 4, .view 1 1 2, .release 0, .meth 2 (.scan [0x35])]).1
    = [.ok .created, .ok .created, .ok .unit, .ok (.nat 1)] := by decide

end Parsley.C17
