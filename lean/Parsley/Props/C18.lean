/-
  C18 — Combinators implement ordered-choice backtracking semantics.

  Model  : Parsley.Comb.run   (src/pcore/prim_combinators.rs + prim_ascii.rs, line by line)
  Spec   : Parsley.Peg.Peg    (textbook PEG big-step relation on the remaining input)

  Theorems (all full strength, none partial):
    run_eq_peg                      model outcome = textbook outcome (value structure, consumed length / failure)
    peg_deterministic, pegEval_sound, pegEval_total, pegEval_eq_peg, run_eq_pegEval   (spec and oracle)
    success_span_and_cursor         span = [i, cursor), inside the buffer
    failure_restores_cursor         every failing combinator leaves the cursor at i (any operands, any fuel)
    spans_nest (+ nest_le, nest_pair, nest_alt, tiles_mem, tiles_adjacent)   children tile the parent span in order
    star_always_succeeds_longest, star_never_fails, peg_star_longest
    not_never_consumes
    run_never_panics_or_hangs, run_fuel_sufficient
    run_nonterminating_without_hyp, peg_star_nonconsuming_diverges   the side condition is necessary …
    run_returns_peg_any, run_never_panics_any                        … but only for termination

  All theorems are for ALL expressions / buffers / cursors (no size bound).
  Hypotheses that appear:
    `StarBodiesConsume e`  – the property's own domain ("repetition applied to operands
                             that consume input"); `run_nonterminating_without_hyp` shows it
                             cannot be dropped.
    `i ≤ s.length`         – the `ParseBuffer` invariant `ofs ≤ end` (C17 `wf_preserved`).
    `s.length - i < fuel`  – enough loop budget; `run_fuel_sufficient` shows the result does
                             not depend on the fuel beyond that.
-/
import Parsley.Model.Comb
import Parsley.Spec.Peg
namespace Parsley.C18
open Parsley Parsley.Peg Parsley.Comb

/-! ## Spec-side facts: the relation is a function, and the oracle computes it -/

/-- The textbook semantics assigns at most one outcome. -/
theorem peg_deterministic {e : E} {x : Bytes} {r₁ r₂ : Outcome}
    (h₁ : Peg e x r₁) (h₂ : Peg e x r₂) : r₁ = r₂ := by
  induction h₁ generalizing r₂ with
  | chr_ok hc => cases h₂ with
    | chr_ok _ => rfl
    | chr_rej hc' => simp [hc] at hc'
  | chr_rej hc => cases h₂ with
    | chr_ok hc' => simp [hc] at hc'
    | chr_rej _ => rfl
  | chr_eof => cases h₂; rfl
  | seq_ok _ _ iha ihb => cases h₂ with
    | seq_ok ha' hb' =>
      have := iha ha'; simp only [Option.some.injEq, Prod.mk.injEq] at this
      obtain ⟨rfl, rfl⟩ := this
      have := ihb hb'; simp only [Option.some.injEq, Prod.mk.injEq] at this
      obtain ⟨rfl, rfl⟩ := this
      rfl
    | seq_fail1 ha' => cases iha ha'
    | seq_fail2 ha' hb' =>
      have := iha ha'; simp only [Option.some.injEq, Prod.mk.injEq] at this
      obtain ⟨rfl, rfl⟩ := this
      cases ihb hb'
  | seq_fail1 _ iha => cases h₂ with
    | seq_ok ha' _ => cases iha ha'
    | seq_fail1 _ => rfl
    | seq_fail2 _ _ => rfl
  | seq_fail2 _ _ iha ihb => cases h₂ with
    | seq_ok ha' hb' =>
      have := iha ha'; simp only [Option.some.injEq, Prod.mk.injEq] at this
      obtain ⟨rfl, rfl⟩ := this
      cases ihb hb'
    | seq_fail1 _ => rfl
    | seq_fail2 _ _ => rfl
  | alt_left _ iha => cases h₂ with
    | alt_left ha' =>
      have := iha ha'; simp only [Option.some.injEq, Prod.mk.injEq] at this
      obtain ⟨rfl, rfl⟩ := this; rfl
    | alt_right ha' _ => cases iha ha'
    | alt_fail ha' _ => cases iha ha'
  | alt_right _ _ iha ihb => cases h₂ with
    | alt_left ha' => cases iha ha'
    | alt_right _ hb' =>
      have := ihb hb'; simp only [Option.some.injEq, Prod.mk.injEq] at this
      obtain ⟨rfl, rfl⟩ := this; rfl
    | alt_fail _ hb' => cases ihb hb'
  | alt_fail _ _ iha ihb => cases h₂ with
    | alt_left ha' => cases iha ha'
    | alt_right _ hb' => cases ihb hb'
    | alt_fail _ _ => rfl
  | star_stop _ iha => cases h₂ with
    | star_stop _ => rfl
    | star_step ha' _ => cases iha ha'
  | star_step _ _ iha ihs => cases h₂ with
    | star_stop ha' => cases iha ha'
    | star_step ha' hs' =>
      have := iha ha'; simp only [Option.some.injEq, Prod.mk.injEq] at this
      obtain ⟨rfl, rfl⟩ := this
      have := ihs hs'
      simp only [Option.some.injEq, Prod.mk.injEq, Shape.list.injEq] at this
      obtain ⟨rfl, rfl⟩ := this; rfl
  | not_ok _ iha => cases h₂ with
    | not_ok _ => rfl
    | not_fail ha' => cases iha ha'
  | not_fail _ iha => cases h₂ with
    | not_ok ha' => cases iha ha'
    | not_fail _ => rfl

example : Peg (.seq (.chr (.eq 97)) (.star (.chr (.eq 98)))) [97, 98, 98, 99]
    (some (.pair (.ch 97) (.list [.ch 98, .ch 98]), 3)) :=
  .seq_ok (n := 1) (m := 2) (.chr_ok (by decide))
    (.star_step (n := 1) (m := 1) (.chr_ok (by decide))
      (.star_step (n := 1) (m := 0) (.chr_ok (by decide)) (.star_stop (.chr_rej (by decide)))))

theorem starEval_sound {a : E} {p : Bytes → Option Outcome}
    (hp : ∀ x r, p x = some r → Peg a x r) :
    ∀ (k : Nat) (x : Bytes) (vs : List Shape) (m : Nat),
      starEval p k x = some (vs, m) → Peg (.star a) x (some (.list vs, m)) := by
  intro k
  induction k with
  | zero => intro x vs m h; simp [starEval] at h
  | succ k ih =>
    intro x vs m h
    unfold starEval at h
    cases hpx : p x with
    | none => simp [hpx] at h
    | some r =>
      cases r with
      | none =>
        simp only [hpx, Option.some.injEq, Prod.mk.injEq] at h
        obtain ⟨rfl, rfl⟩ := h
        exact .star_stop (hp x none hpx)
      | some vn =>
        obtain ⟨v, n⟩ := vn
        simp only [hpx] at h
        by_cases hn : n = 0
        · simp [hn] at h
        · simp only [hn, if_false] at h
          cases hrec : starEval p k (x.drop n) with
          | none => simp [hrec] at h
          | some q =>
            obtain ⟨vs', m'⟩ := q
            simp only [hrec, Option.some.injEq, Prod.mk.injEq] at h
            obtain ⟨rfl, rfl⟩ := h
            exact .star_step (hp x _ hpx) (ih _ _ _ hrec)

/-- Whenever the oracle answers, its answer is the outcome the textbook relation assigns
    (and by `peg_deterministic` the only one). -/
theorem pegEval_sound {e : E} : ∀ {x : Bytes} {r : Outcome}, pegEval e x = some r → Peg e x r := by
  induction e with
  | chr g w =>
    intro x r h
    cases x with
    | nil => simp only [pegEval, Option.some.injEq] at h; subst h; exact .chr_eof
    | cons c x =>
      simp only [pegEval] at h
      by_cases hc : g.accepts c = true
      · simp only [hc, if_true, Option.some.injEq] at h; subst h; exact .chr_ok hc
      · have hc' : g.accepts c = false := by simpa using hc
        simp only [hc', Bool.false_eq_true, if_false, Option.some.injEq] at h
        subst h; exact .chr_rej hc'
  | seq a b iha ihb =>
    intro x r h
    simp only [pegEval] at h
    cases ha : pegEval a x with
    | none => simp [ha] at h
    | some ra =>
      cases ra with
      | none => simp only [ha, Option.some.injEq] at h; subst h; exact .seq_fail1 (iha ha)
      | some vn =>
        obtain ⟨va, n⟩ := vn
        simp only [ha] at h
        cases hb : pegEval b (x.drop n) with
        | none => simp [hb] at h
        | some rb =>
          cases rb with
          | none => simp only [hb, Option.some.injEq] at h; subst h; exact .seq_fail2 (iha ha) (ihb hb)
          | some wm =>
            obtain ⟨vb, m⟩ := wm
            simp only [hb, Option.some.injEq] at h; subst h
            exact .seq_ok (iha ha) (ihb hb)
  | alt a b iha ihb =>
    intro x r h
    simp only [pegEval] at h
    cases ha : pegEval a x with
    | none => simp [ha] at h
    | some ra =>
      cases ra with
      | some vn =>
        obtain ⟨va, n⟩ := vn
        simp only [ha, Option.some.injEq] at h; subst h; exact .alt_left (iha ha)
      | none =>
        simp only [ha] at h
        cases hb : pegEval b x with
        | none => simp [hb] at h
        | some rb =>
          cases rb with
          | none => simp only [hb, Option.some.injEq] at h; subst h; exact .alt_fail (iha ha) (ihb hb)
          | some wm =>
            obtain ⟨vb, m⟩ := wm
            simp only [hb, Option.some.injEq] at h; subst h
            exact .alt_right (iha ha) (ihb hb)
  | star a iha =>
    intro x r h
    simp only [pegEval] at h
    cases hs : starEval (pegEval a) (x.length + 1) x with
    | none => simp [hs] at h
    | some q =>
      obtain ⟨vs, m⟩ := q
      simp only [hs, Option.some.injEq] at h; subst h
      exact starEval_sound (fun x r h => iha h) _ _ _ _ hs
  | not a iha =>
    intro x r h
    simp only [pegEval] at h
    cases ha : pegEval a x with
    | none => simp [ha] at h
    | some ra =>
      cases ra with
      | none => simp only [ha, Option.some.injEq] at h; subst h; exact .not_ok (iha ha)
      | some vn =>
        obtain ⟨v, n⟩ := vn
        simp only [ha, Option.some.injEq] at h; subst h; exact .not_fail (iha ha)

example : pegEval (.alt (.seq (.chr (.eq 97)) (.chr (.eq 98))) (.star (.chr (.eq 97)))) [97, 97, 99]
    = some (some (.right (.list [.ch 97, .ch 97]), 2)) := by rfl

/-! ## Model-side lemmas: buffer primitives and the byte parser -/

theorem setCursor_ok {s : Bytes} {j : Nat} (h : j ≤ s.length) : setCursor s j = some j := by
  simp [setCursor, h]

theorem restore_ok {s : Bytes} {i : Nat} (k : ErrK) (cur : Nat) (h : i ≤ s.length) :
    restore s i k cur = (.err k, i) := by
  simp [restore, setCursor, h]

theorem drop_add (s : Bytes) (i n : Nat) : (s.drop i).drop n = s.drop (i + n) := by
  rw [List.drop_drop]

theorem lt_of_drop_cons {s : Bytes} {i : Nat} {c : UInt8} {x : Bytes} (hd : s.drop i = c :: x) :
    i < s.length := by
  have := congrArg List.length hd
  simp at this; omega

/-- `AsciiChar::parse` at the end of the buffer: end-of-buffer, cursor unmoved. -/
theorem asciiChar_nil {g : Guard} {s : Bytes} {i : Nat} (hi : i ≤ s.length) (hd : s.drop i = []) :
    asciiChar g s i = (.err .eob, i) := by
  have : ¬ i > s.length := by omega
  simp [asciiChar, parsePrim, this, hd, asciiPrim]

/-- `AsciiChar::parse` on a byte: accepted iff ASCII and the guard holds; one byte consumed,
    span `[i, i+1)`; otherwise an error with the cursor unmoved. -/
theorem asciiChar_cons {g : Guard} {s : Bytes} {i : Nat} {c : UInt8} {x : Bytes}
    (hd : s.drop i = c :: x) :
    asciiChar g s i =
      if g.accepts c = true then (.ok (.ch c i (i + 1)), i + 1)
      else (.err (if c.toNat ≥ 128 then .prim else .guard), i) := by
  have hlt := lt_of_drop_cons hd
  have h1 : ¬ i > s.length := by omega
  have h2 : i + 1 ≤ s.length := by omega
  by_cases hc : c.toNat ≥ 128
  · have : ¬ c.toNat < 128 := by omega
    simp [asciiChar, parsePrim, h1, hd, asciiPrim, hc, Guard.accepts, this]
  · have hc' : c.toNat < 128 := by omega
    by_cases hg : g.holds c = true
    · simp [asciiChar, parsePrim, h1, hd, asciiPrim, hc, Guard.accepts, hc', hg, setCursor, h2]
    · have hg' : g.holds c = false := by simpa using hg
      simp [asciiChar, parsePrim, h1, hd, asciiPrim, hc, Guard.accepts, hc', hg']

/-- the raw operand at the end of the buffer -/
theorem rawChar_nil {g : Guard} {s : Bytes} {i : Nat} (hi : i ≤ s.length) (hd : s.drop i = []) :
    rawChar g s i = (.err .eob, i) := by
  have : ¬ i > s.length := by omega
  simp [rawChar, parsePrim, this, hd, asciiPrim]

/-- the raw operand on a byte: same acceptance as `AsciiChar`, but a guard rejection leaves the
    cursor *after* the byte -/
theorem rawChar_cons {g : Guard} {s : Bytes} {i : Nat} {c : UInt8} {x : Bytes}
    (hd : s.drop i = c :: x) :
    rawChar g s i =
      if g.accepts c = true then (.ok (.ch c i (i + 1)), i + 1)
      else if c.toNat ≥ 128 then (.err .prim, i) else (.err .guard, i + 1) := by
  have hany : Guard.holds .any c = true := rfl
  have hlt := lt_of_drop_cons hd
  have h1 : ¬ i > s.length := by omega
  have h2 : i + 1 ≤ s.length := by omega
  by_cases hc : c.toNat ≥ 128
  · have : ¬ c.toNat < 128 := by omega
    simp [rawChar, parsePrim, h1, hd, asciiPrim, hc, Guard.accepts, this]
  · have hc' : c.toNat < 128 := by omega
    by_cases hg : g.holds c = true
    · simp [rawChar, parsePrim, h1, hd, asciiPrim, hc, Guard.accepts, hc', hg, setCursor, h2, hany]
    · have hg' : g.holds c = false := by simpa using hg
      simp [rawChar, parsePrim, h1, hd, asciiPrim, hc, Guard.accepts, hc', hg', setCursor, h2, hany]

/-! ## The invariant every `parse` call of the model satisfies -/

/-- What a call of the parser for `e` at cursor `i` returns: on success a value whose span is
    `[i, j)`, whose spans nest, whose structure and consumed length are the textbook outcome, and
    the cursor is at the end of the span; on failure the cursor is back at `i` and the textbook
    outcome is failure (a bare raw operand may leave the cursor elsewhere – every combinator puts
    it back); never a panic, never a hang. -/
def Good (e : E) (s : Bytes) (i : Nat) : Out × Nat → Prop
  | (.ok t, j) => ∃ n, j = i + n ∧ j ≤ s.length ∧ t.start = i ∧ t.stop = j ∧ t.nest = true ∧
      Peg e (s.drop i) (some (t.shape, n)) ∧ (consumes e = true → 0 < n)
  | (.err _, j) => (e.isRaw = false → j = i) ∧ Peg e (s.drop i) none
  | (.panic _, _) => False
  | (.hang, _) => False

theorem tiles_append {v ts : List T} : ∀ {a c e : Nat},
    tiles v a c = true → tiles ts c e = true → tiles (v ++ ts) a e = true := by
  induction v with
  | nil =>
    intro a c e h1 h2
    simp only [tiles, beq_iff_eq] at h1
    subst h1; simpa using h2
  | cons t v ih =>
    intro a c e h1 h2
    simp only [tiles, Bool.and_eq_true, beq_iff_eq, List.cons_append] at h1 ⊢
    exact ⟨h1.1, ih h1.2 h2⟩

/-- The loop of `Star::parse`: when every body call is `Good` and the body consumes, the loop
    ends within `|s| - c + 1` tests, returns the accumulated values followed by a maximal chain
    `ts` of body matches tiling `[c, c+n)`, leaves the cursor at `c + n`, and the textbook
    repetition has exactly that outcome on the rest of the input. -/
theorem starLoop_good {a : E} {p : Nat → Out × Nat} {s : Bytes} {start : Nat}
    (hcons : consumes a = true)
    (hp : ∀ c, start ≤ c → c ≤ s.length → Good a s c (p c)) :
    ∀ (fuel c : Nat) (v : List T), start ≤ c → c ≤ s.length → s.length - c < fuel →
      ∃ ts n, starLoop p s start fuel c v (p c) = (.ok (.list (v ++ ts) start (c + n)), c + n) ∧
        c + n ≤ s.length ∧ tiles ts c (c + n) = true ∧
        Peg (.star a) (s.drop c) (some (.list (shapes ts), n)) := by
  intro fuel
  induction fuel with
  | zero => intro c v _ _ h; omega
  | succ fuel ih =>
    intro c v hsc hc hf
    have hg := hp c hsc hc
    cases hpc : p c with
    | mk r j =>
      rw [hpc] at hg
      cases r with
      | ok o =>
        obtain ⟨n₁, hj, hjl, hst, hsp, hnest, hpeg, hpos⟩ := hg
        have hn₁ := hpos hcons
        have hf' : s.length - j < fuel := by omega
        obtain ⟨ts, n, hrun, hle, htiles, hstar⟩ := ih j (v ++ [o]) (by omega) hjl hf'
        refine ⟨o :: ts, n₁ + n, ?_, by omega, ?_, ?_⟩
        · simp only [starLoop]
          rw [hrun]
          simp only [List.append_assoc, List.singleton_append, hj, Nat.add_assoc]
        · simp only [tiles, hnest, hst, hsp, Bool.and_eq_true, beq_iff_eq, true_and]
          have : c + (n₁ + n) = j + n := by omega
          rw [this]; exact htiles
        · have hd : s.drop j = (s.drop c).drop n₁ := by rw [drop_add, hj]
          rw [hd] at hstar
          simp only [shapes]
          exact .star_step hpeg hstar
      | err k =>
        obtain ⟨hj, hpeg⟩ := hg
        refine ⟨[], 0, ?_, by omega, by simp [tiles], ?_⟩
        · simp [starLoop, setCursor_ok hc]
        · simp only [shapes]; exact .star_stop hpeg
      | panic st => exact hg.elim
      | hang => exact hg.elim

/-- Core lemma: every call of the model, on an expression whose star bodies consume, at a
    cursor inside the buffer and with at least `|s| - i + 1` fuel, satisfies `Good`. -/
theorem run_good {e : E} {s : Bytes} {fuel : Nat} :
    ∀ {i : Nat}, StarBodiesConsume e = true → i ≤ s.length → s.length - i < fuel →
      Good e s i (run e fuel s i) := by
  induction e with
  | chr g w =>
    intro i _ hi _
    cases w with
    | false =>
      simp only [run]
      cases hd : s.drop i with
      | nil =>
        rw [asciiChar_nil hi hd]
        exact ⟨fun _ => rfl, by rw [hd]; exact .chr_eof⟩
      | cons c x =>
        rw [asciiChar_cons hd]
        have hlt := lt_of_drop_cons hd
        by_cases hc : g.accepts c = true
        · simp only [hc, if_true]
          refine ⟨1, rfl, by omega, rfl, rfl, by simp [T.nest], ?_, fun _ => Nat.one_pos⟩
          rw [hd]; simp only [T.shape]; exact .chr_ok hc
        · simp only [hc]
          refine ⟨fun _ => rfl, ?_⟩
          rw [hd]; exact .chr_rej (by simpa using hc)
    | true =>
      simp only [run]
      cases hd : s.drop i with
      | nil =>
        rw [rawChar_nil hi hd]
        exact ⟨fun _ => rfl, by rw [hd]; exact .chr_eof⟩
      | cons c x =>
        rw [rawChar_cons hd]
        have hlt := lt_of_drop_cons hd
        by_cases hc : g.accepts c = true
        · simp only [hc, if_true]
          refine ⟨1, rfl, by omega, rfl, rfl, by simp [T.nest], ?_, fun _ => Nat.one_pos⟩
          rw [hd]; simp only [T.shape]; exact .chr_ok hc
        · have hrej : Peg (.chr g true) (s.drop i) none := by
            rw [hd]; exact .chr_rej (by simpa using hc)
          simp only [hc]
          by_cases h128 : c.toNat ≥ 128
          · simp only [h128, if_true]; exact ⟨fun _ => rfl, hrej⟩
          · simp only [h128]; exact ⟨fun h => by simp [E.isRaw] at h, hrej⟩
  | seq a b iha ihb =>
    intro i hwf hi hf
    simp only [StarBodiesConsume, Bool.and_eq_true] at hwf
    have ha := iha hwf.1 hi hf
    simp only [run]
    cases hra : run a fuel s i with
    | mk r j =>
      rw [hra] at ha
      cases r with
      | ok o1 =>
        obtain ⟨n, hj, hjl, hst, hsp, hnest, hpeg, hpos⟩ := ha
        have hb := ihb (i := j) hwf.2 hjl (by omega)
        simp only []
        cases hrb : run b fuel s j with
        | mk r2 k =>
          rw [hrb] at hb
          cases r2 with
          | ok o2 =>
            obtain ⟨m, hk, hkl, hst2, hsp2, hnest2, hpeg2, hpos2⟩ := hb
            simp only []
            refine ⟨n + m, by omega, hkl, rfl, rfl, ?_, ?_, ?_⟩
            · simp [T.nest, hnest, hnest2, hst, hsp, hst2, hsp2]
            · simp only [T.shape]
              have hd : s.drop j = (s.drop i).drop n := by rw [drop_add, hj]
              rw [hd] at hpeg2
              exact .seq_ok hpeg hpeg2
            · intro h
              simp only [consumes, Bool.or_eq_true] at h
              cases h with
              | inl h => have := hpos h; omega
              | inr h => have := hpos2 h; omega
          | err k2 =>
            obtain ⟨_, hpeg2⟩ := hb
            simp only []
            rw [restore_ok _ _ hi]
            have hd : s.drop j = (s.drop i).drop n := by rw [drop_add, hj]
            rw [hd] at hpeg2
            exact ⟨fun _ => rfl, .seq_fail2 hpeg hpeg2⟩
          | panic st => exact hb.elim
          | hang => exact hb.elim
      | err k =>
        obtain ⟨_, hpeg⟩ := ha
        simp only []
        rw [restore_ok _ _ hi]
        exact ⟨fun _ => rfl, .seq_fail1 hpeg⟩
      | panic st => exact ha.elim
      | hang => exact ha.elim
  | alt a b iha ihb =>
    intro i hwf hi hf
    simp only [StarBodiesConsume, Bool.and_eq_true] at hwf
    have ha := iha hwf.1 hi hf
    simp only [run]
    cases hra : run a fuel s i with
    | mk r j =>
      rw [hra] at ha
      cases r with
      | ok o1 =>
        obtain ⟨n, hj, hjl, hst, hsp, hnest, hpeg, hpos⟩ := ha
        simp only []
        refine ⟨n, hj, hjl, rfl, rfl, ?_, ?_, ?_⟩
        · simp [T.nest, hnest, hst, hsp]
        · simp only [T.shape]; exact .alt_left hpeg
        · intro h
          simp only [consumes, Bool.and_eq_true] at h
          exact hpos h.1
      | err k =>
        obtain ⟨_, hpeg⟩ := ha
        simp only [setCursor_ok hi]
        have hb := ihb (i := i) hwf.2 hi hf
        cases hrb : run b fuel s i with
        | mk r2 k' =>
          rw [hrb] at hb
          cases r2 with
          | ok o2 =>
            obtain ⟨m, hk, hkl, hst2, hsp2, hnest2, hpeg2, hpos2⟩ := hb
            simp only []
            refine ⟨m, hk, hkl, rfl, rfl, ?_, ?_, ?_⟩
            · simp [T.nest, hnest2, hst2, hsp2]
            · simp only [T.shape]; exact .alt_right hpeg hpeg2
            · intro h
              simp only [consumes, Bool.and_eq_true] at h
              exact hpos2 h.2
          | err k2 =>
            obtain ⟨_, hpeg2⟩ := hb
            simp only []
            rw [restore_ok _ _ hi]
            exact ⟨fun _ => rfl, .alt_fail hpeg hpeg2⟩
          | panic st => exact hb.elim
          | hang => exact hb.elim
      | panic st => exact ha.elim
      | hang => exact ha.elim
  | star a iha =>
    intro i hwf hi hf
    simp only [StarBodiesConsume, Bool.and_eq_true] at hwf
    simp only [run]
    have hp : ∀ c, i ≤ c → c ≤ s.length → Good a s c ((fun j => run a fuel s j) c) := by
      intro c hic hc
      exact iha (i := c) hwf.2 hc (by omega)
    obtain ⟨ts, n, hrun, hle, htiles, hstar⟩ :=
      starLoop_good hwf.1 hp fuel i [] (Nat.le_refl i) hi hf
    simp only [List.nil_append] at hrun
    rw [hrun]
    refine ⟨n, rfl, hle, rfl, rfl, ?_, ?_, ?_⟩
    · simp only [T.nest]; exact htiles
    · simp only [T.shape]; exact hstar
    · intro h; simp [consumes] at h
  | not a iha =>
    intro i hwf hi hf
    simp only [StarBodiesConsume] at hwf
    have ha := iha hwf hi hf
    simp only [run]
    cases hra : run a fuel s i with
    | mk r j =>
      rw [hra] at ha
      cases r with
      | ok o1 =>
        obtain ⟨n, hj, hjl, hst, hsp, hnest, hpeg, hpos⟩ := ha
        simp only [setCursor_ok hi]
        exact ⟨fun _ => rfl, .not_fail hpeg⟩
      | err k =>
        obtain ⟨_, hpeg⟩ := ha
        simp only [setCursor_ok hi]
        refine ⟨0, rfl, hi, rfl, rfl, by simp [T.nest], ?_, ?_⟩
        · simp only [T.shape]; exact .not_ok hpeg
        · intro h; simp [consumes] at h
      | panic st => exact ha.elim
      | hang => exact ha.elim

/-! ## Property theorems -/

/-- What the property observes of a `parse` call started at cursor `i`: failure, or success with
    the value structure (locations forgotten) and the number of bytes consumed.  A panic or a hang
    is no outcome at all. -/
def observe (i : Nat) : Out × Nat → Option Outcome
  | (.ok t, j) => some (some (t.shape, j - i))
  | (.err _, _) => some none
  | (.panic _, _) => none
  | (.hang, _) => none

/-- **Main theorem.**  For every expression whose star bodies consume, every buffer and every
    cursor in it, the outcome of the composed parser — success with its value structure and
    consumed length, or failure — is exactly the outcome the standard backtracking semantics
    assigns to the remaining input. -/
theorem run_eq_peg {e : E} {s : Bytes} {i fuel : Nat}
    (hwf : StarBodiesConsume e = true) (hi : i ≤ s.length) (hf : s.length - i < fuel)
    (r : Outcome) :
    Peg e (s.drop i) r ↔ observe i (run e fuel s i) = some r := by
  have hg := run_good hwf hi hf
  cases hr : run e fuel s i with
  | mk o j =>
    rw [hr] at hg
    cases o with
    | ok t =>
      obtain ⟨n, hj, _, _, _, _, hpeg, _⟩ := hg
      have hn : j - i = n := by omega
      simp only [observe, hn, Option.some.injEq]
      constructor
      · intro h; exact peg_deterministic hpeg h
      · intro h; rw [← h]; exact hpeg
    | err k =>
      obtain ⟨_, hpeg⟩ := hg
      simp only [observe, Option.some.injEq]
      constructor
      · intro h; exact peg_deterministic hpeg h
      · intro h; rw [← h]; exact hpeg
    | panic st => exact hg.elim
    | hang => exact hg.elim

-- non-vacuity: the hypotheses hold for (a|b)* c on "abcab" at cursor 0, with a non-trivial outcome
example : StarBodiesConsume (.seq (.star (.alt (.chr (.eq 97)) (.chr (.eq 98)))) (.chr (.eq 99))) = true
    ∧ observe 0 (run (.seq (.star (.alt (.chr (.eq 97)) (.chr (.eq 98)))) (.chr (.eq 99))) 6
        [97, 98, 99, 97, 98] 0)
      = some (some (.pair (.list [.left (.ch 97), .right (.ch 98)]) (.ch 99), 3)) := ⟨rfl, rfl⟩

/-- On success the reported span is `[i, j)` where `j` is the cursor afterwards, inside the buffer. -/
theorem success_span_and_cursor {e : E} {s : Bytes} {i fuel : Nat} {t : T} {j : Nat}
    (hwf : StarBodiesConsume e = true) (hi : i ≤ s.length) (hf : s.length - i < fuel)
    (h : run e fuel s i = (.ok t, j)) :
    t.start = i ∧ t.stop = j ∧ i ≤ j ∧ j ≤ s.length := by
  have hg := run_good hwf hi hf
  rw [h] at hg
  obtain ⟨n, hj, hjl, hst, hsp, _, _, _⟩ := hg
  exact ⟨hst, hsp, by omega, hjl⟩

example : run (.seq (.chr (.eq 97)) (.chr (.eq 98))) 3 [99, 97, 98] 1
    = (.ok (.pair (.ch 97 1 2) (.ch 98 2 3) 1 3), 3) := by rfl

/-- The composed parser never reaches an `assert!`/slice panic and its loops terminate. -/
theorem run_never_panics_or_hangs {e : E} {s : Bytes} {i fuel : Nat}
    (hwf : StarBodiesConsume e = true) (hi : i ≤ s.length) (hf : s.length - i < fuel) :
    (∃ t j, run e fuel s i = (.ok t, j)) ∨ (∃ k j, run e fuel s i = (.err k, j)) := by
  have hg := run_good hwf hi hf
  cases hr : run e fuel s i with
  | mk o j =>
    rw [hr] at hg
    cases o with
    | ok t => exact .inl ⟨t, j, rfl⟩
    | err k => exact .inr ⟨k, j, rfl⟩
    | panic st => exact hg.elim
    | hang => exact hg.elim

/-- Reported spans nest consistently with the expression structure (`T.nest`: children tile
    the parent's span in order; see `nest_pair`, `nest_alt`, `tiles_mem`, `nest_le` for what
    that says node by node). -/
theorem spans_nest {e : E} {s : Bytes} {i fuel : Nat} {t : T} {j : Nat}
    (hwf : StarBodiesConsume e = true) (hi : i ≤ s.length) (hf : s.length - i < fuel)
    (h : run e fuel s i = (.ok t, j)) : t.nest = true := by
  have hg := run_good hwf hi hf
  rw [h] at hg
  obtain ⟨n, _, _, _, _, hnest, _, _⟩ := hg
  exact hnest

example : (T.pair (.list [.ch 97 1 2, .ch 97 2 3] 1 3) (.unit 3 3) 1 3).nest = true := by rfl
example : (T.pair (.ch 97 1 2) (.ch 98 3 4) 1 4).nest = false := by rfl   -- gap between the parts

mutual
/-- a nested value's span is well-formed -/
theorem nest_le : ∀ (t : T), t.nest = true → t.start ≤ t.stop
  | .ch _ s e, h => by simp [T.nest] at h; simp [T.start, T.stop, h]
  | .pair a b s e, h => by
    simp only [T.nest, Bool.and_eq_true, beq_iff_eq] at h
    have := nest_le a h.1.1.1.1
    have := nest_le b h.1.1.1.2
    simp only [T.start, T.stop]; omega
  | .left a s e, h => by
    simp only [T.nest, Bool.and_eq_true, beq_iff_eq] at h
    have := nest_le a h.1.1
    simp only [T.start, T.stop]; omega
  | .right a s e, h => by
    simp only [T.nest, Bool.and_eq_true, beq_iff_eq] at h
    have := nest_le a h.1.1
    simp only [T.start, T.stop]; omega
  | .list l s e, h => by
    simp only [T.nest] at h
    simp only [T.start, T.stop]; exact tiles_le l s e h
  | .unit s e, h => by simp [T.nest] at h; simp [T.start, T.stop, h]
theorem tiles_le : ∀ (l : List T) (s e : Nat), tiles l s e = true → s ≤ e
  | [], s, e, h => by simp [tiles] at h; omega
  | t :: ts, s, e, h => by
    simp only [tiles, Bool.and_eq_true, beq_iff_eq] at h
    have := nest_le t h.1.1
    have := tiles_le ts t.stop e h.2
    omega
end

/-- the two parts of a pair lie inside the pair's span, first part first, no gap, no overlap -/
theorem nest_pair {a b : T} {s e : Nat} (h : (T.pair a b s e).nest = true) :
    a.nest = true ∧ b.nest = true ∧ s = a.start ∧ a.start ≤ a.stop ∧ a.stop = b.start ∧
      b.start ≤ b.stop ∧ b.stop = e := by
  have h' := h
  simp only [T.nest, Bool.and_eq_true, beq_iff_eq] at h'
  have := nest_le a h'.1.1.1.1
  have := nest_le b h'.1.1.1.2
  exact ⟨h'.1.1.1.1, h'.1.1.1.2, by omega, by omega, by omega, by omega, by omega⟩

/-- an alternative's value has exactly the alternative's span -/
theorem nest_alt {a : T} {s e : Nat} (h : (T.left a s e).nest = true ∨ (T.right a s e).nest = true) :
    a.nest = true ∧ a.start = s ∧ a.stop = e := by
  cases h with
  | inl h => simp only [T.nest, Bool.and_eq_true, beq_iff_eq] at h; exact ⟨h.1.1, h.1.2, h.2⟩
  | inr h => simp only [T.nest, Bool.and_eq_true, beq_iff_eq] at h; exact ⟨h.1.1, h.1.2, h.2⟩

/-- every element of a repetition lies inside the repetition's span (and is itself nested) -/
theorem tiles_mem {l : List T} : ∀ {s e : Nat}, tiles l s e = true → ∀ x ∈ l,
    x.nest = true ∧ s ≤ x.start ∧ x.stop ≤ e := by
  induction l with
  | nil => intro s e _ x hx; cases hx
  | cons t ts ih =>
    intro s e h x hx
    simp only [tiles, Bool.and_eq_true, beq_iff_eq] at h
    have h1 := nest_le t h.1.1
    have h2 := tiles_le ts t.stop e h.2
    cases hx with
    | head => exact ⟨h.1.1, by omega, by omega⟩
    | tail _ hx =>
      obtain ⟨hn, ha, hb⟩ := ih h.2 x hx
      exact ⟨hn, by omega, hb⟩

/-- consecutive elements of a repetition are adjacent: each starts where the previous stopped -/
theorem tiles_adjacent {l : List T} : ∀ {s e : Nat}, tiles l s e = true →
    ∀ k (h1 : k + 1 < l.length), (l[k]'(by omega)).stop = (l[k + 1]'h1).start := by
  induction l with
  | nil => intro s e _ k h1; simp at h1
  | cons t ts ih =>
    intro s e h k h1
    simp only [tiles, Bool.and_eq_true, beq_iff_eq] at h
    cases k with
    | zero =>
      cases ts with
      | nil => simp at h1
      | cons u us =>
        have h2 := h.2
        simp only [tiles, Bool.and_eq_true, beq_iff_eq] at h2
        simp [h2.1.2]
    | succ k =>
      simp only [List.length_cons] at h1
      simpa using ih h.2 k (by omega)

/-! ### Failure leaves the cursor where it was (all expressions, any fuel) -/

/-- `Star::parse` never returns `Err`, whatever its body does. -/
theorem starLoop_never_err {p : Nat → Out × Nat} {s : Bytes} {start : Nat} :
    ∀ (fuel c : Nat) (v : List T) (r : Out × Nat) (k : ErrK) (j : Nat),
      starLoop p s start fuel c v r ≠ (.err k, j) := by
  intro fuel
  induction fuel with
  | zero => intro c v r k j; obtain ⟨r, cur⟩ := r; simp [starLoop]
  | succ fuel ih =>
    intro c v r k j
    obtain ⟨r, cur⟩ := r
    cases r with
    | ok o => simp only [starLoop]; exact ih _ _ _ _ _
    | err k' =>
      simp only [starLoop]
      cases setCursor s c <;> simp
    | panic st => simp [starLoop]
    | hang => simp [starLoop]

/-- **Failure leaves the cursor where it was** — for *every* expression (no hypothesis on star
    bodies) and any fuel: each combinator restores the cursor itself before returning `Err`,
    whatever its operands did with it (operands may be *raw*, i.e. leave the cursor moved when
    they fail; only a bare raw operand, which is not a combinator, is excluded). -/
theorem failure_restores_cursor {e : E} {s : Bytes} {i fuel : Nat} {k : ErrK} {j : Nat}
    (hraw : e.isRaw = false) (hi : i ≤ s.length) (h : run e fuel s i = (.err k, j)) : j = i := by
  cases e with
  | chr g w =>
    simp only [E.isRaw] at hraw
    subst hraw
    simp only [run] at h
    cases hd : s.drop i with
    | nil => rw [asciiChar_nil hi hd] at h; cases h; rfl
    | cons c x =>
      rw [asciiChar_cons hd] at h
      by_cases hc : g.accepts c = true
      · simp [hc] at h
      · simp only [hc] at h; cases h; rfl
  | seq a b =>
    simp only [run] at h
    cases hra : run a fuel s i with
    | mk r c =>
      rw [hra] at h
      cases r with
      | ok o1 =>
        simp only [] at h
        cases hrb : run b fuel s c with
        | mk r2 c2 =>
          rw [hrb] at h
          cases r2 with
          | ok o2 => simp at h
          | err k2 => simp only [restore_ok _ _ hi] at h; cases h; rfl
          | panic st => simp at h
          | hang => simp at h
      | err k1 => simp only [restore_ok _ _ hi] at h; cases h; rfl
      | panic st => simp at h
      | hang => simp at h
  | alt a b =>
    simp only [run] at h
    cases hra : run a fuel s i with
    | mk r c =>
      rw [hra] at h
      cases r with
      | ok o1 => simp at h
      | err k1 =>
        simp only [setCursor_ok hi] at h
        cases hrb : run b fuel s i with
        | mk r2 c2 =>
          rw [hrb] at h
          cases r2 with
          | ok o2 => simp at h
          | err k2 => simp only [restore_ok _ _ hi] at h; cases h; rfl
          | panic st => simp at h
          | hang => simp at h
      | panic st => simp at h
      | hang => simp at h
  | star a =>
    simp only [run] at h
    exact (starLoop_never_err _ _ _ _ _ _ h).elim
  | not a =>
    simp only [run] at h
    cases hra : run a fuel s i with
    | mk r c =>
      rw [hra] at h
      cases r with
      | ok o1 => simp only [setCursor_ok hi] at h; cases h; rfl
      | err k1 => simp [setCursor_ok hi] at h
      | panic st => simp at h
      | hang => simp at h

-- non-vacuity: `ab` on "ac" fails after the first part has consumed a byte; cursor back at 0
example : run (.seq (.chr (.eq 97)) (.chr (.eq 98))) 3 [97, 99] 0 = (.err .guard, 0) := by rfl
-- with raw operands the second part fails with the cursor at 2; the sequence still restores 0 …
example : run (.chr (.eq 98) true) 3 [97, 99] 1 = (.err .guard, 2) := by rfl
example : run (.seq (.chr (.eq 97) true) (.chr (.eq 98) true)) 3 [97, 99] 0 = (.err .guard, 0) := by rfl
-- … the alternation restarts its right operand at 0, and the repetition goes back to the last success
example : run (.alt (.chr (.eq 97) true) (.chr (.eq 98) true)) 3 [98] 0
    = (.ok (.right (.ch 98 0 1) 0 1), 1) := by rfl
example : run (.star (.chr (.eq 97) true)) 3 [97, 98] 0 = (.ok (.list [.ch 97 0 1] 0 1), 1) := by rfl

/-! ### Negation -/

/-- **Negation succeeds without consuming iff its operand fails** — for every operand (no
    hypothesis on it), any fuel: the result is determined by whether the operand succeeded,
    the cursor is always put back to `i`, the value is `()` with the empty span `[i, i)`. -/
theorem not_never_consumes (a : E) (fuel : Nat) (s : Bytes) (i : Nat) (hi : i ≤ s.length) :
    match run a fuel s i with
    | (.ok _, _) => run (.not a) fuel s i = (.err .guard, i)
    | (.err _, _) => run (.not a) fuel s i = (.ok (.unit i i), i)
    | (.panic st, c) => run (.not a) fuel s i = (.panic st, c)
    | (.hang, c) => run (.not a) fuel s i = (.hang, c) := by
  cases hra : run a fuel s i with
  | mk r c =>
    cases r with
    | ok o => simp [run, hra, setCursor_ok hi]
    | err k => simp [run, hra, setCursor_ok hi]
    | panic st => simp [run, hra]
    | hang => simp [run, hra]

example : run (.not (.alt (.chr (.eq 97)) (.chr (.eq 98)))) 2 [99, 98] 0 = (.ok (.unit 0 0), 0) := by rfl
example : run (.not (.alt (.chr (.eq 97)) (.chr (.eq 98)))) 2 [99, 98] 1 = (.err .guard, 1) := by rfl

/-! ### Repetition -/

/-- A greedy chain of body matches: `Chain a x vs m` — the body matches `vs` one after the
    other on `x`, consuming `m` bytes in total. -/
inductive Chain (a : E) : Bytes → List Shape → Nat → Prop where
  | nil {x} : Chain a x [] 0
  | cons {x v n vs m} : Peg a x (some (v, n)) → Chain a (x.drop n) vs m → Chain a x (v :: vs) (n + m)

/-- The textbook repetition is the *longest* run: a chain of body matches after which the body
    fails. -/
theorem peg_star_longest {a : E} : ∀ {vs : List Shape} {x : Bytes} {m : Nat},
    Peg (.star a) x (some (.list vs, m)) → Chain a x vs m ∧ Peg a (x.drop m) none := by
  intro vs
  induction vs with
  | nil =>
    intro x m h
    cases h with
    | star_stop h0 => exact ⟨.nil, by simpa using h0⟩
  | cons v vs ih =>
    intro x m h
    cases h with
    | star_step ha hs =>
      obtain ⟨hc, hf⟩ := ih hs
      refine ⟨.cons ha hc, ?_⟩
      rw [drop_add] at hf
      exact hf

/-- **Repetition always succeeds and takes the longest run**: the loop returns `Ok` with a list
    of values tiling `[i, i+n)`, the values are a chain of consecutive body matches, the body
    fails at `i+n` (both per the textbook semantics and in the model), and the cursor is left
    at `i+n` — i.e. after the last *successful* body parse, not where the failing one stopped. -/
theorem star_always_succeeds_longest {a : E} {s : Bytes} {i fuel : Nat}
    (hwf : StarBodiesConsume (.star a) = true) (hi : i ≤ s.length) (hf : s.length - i < fuel) :
    ∃ ts n, run (.star a) fuel s i = (.ok (.list ts i (i + n)), i + n) ∧ i + n ≤ s.length ∧
      tiles ts i (i + n) = true ∧
      Chain a (s.drop i) (shapes ts) n ∧ Peg a (s.drop (i + n)) none ∧
      ∃ k j, run a fuel s (i + n) = (.err k, j) := by
  have hwf' := hwf
  simp only [StarBodiesConsume, Bool.and_eq_true] at hwf'
  have hp : ∀ c, i ≤ c → c ≤ s.length → Good a s c ((fun j => run a fuel s j) c) := by
    intro c hic hc
    exact run_good (i := c) hwf'.2 hc (by omega)
  obtain ⟨ts, n, hrun, hle, htiles, hstar⟩ :=
    starLoop_good hwf'.1 hp fuel i [] (Nat.le_refl i) hi hf
  simp only [List.nil_append] at hrun
  obtain ⟨hchain, hfail⟩ := peg_star_longest hstar
  rw [drop_add] at hfail
  refine ⟨ts, n, by simp only [run]; exact hrun, hle, htiles, hchain, hfail, ?_⟩
  have hg := run_good (fuel := fuel) (i := i + n) hwf'.2 hle (by omega)
  cases hr : run a fuel s (i + n) with
  | mk o j =>
    rw [hr] at hg
    cases o with
    | ok t =>
      obtain ⟨_, _, _, _, _, _, hpeg, _⟩ := hg
      cases peg_deterministic hpeg hfail
    | err k => exact ⟨k, j, rfl⟩
    | panic st => exact hg.elim
    | hang => exact hg.elim

/-- `Star::parse` never fails, for any body and any fuel. -/
theorem star_never_fails (a : E) (fuel : Nat) (s : Bytes) (i : Nat) (k : ErrK) (j : Nat) :
    run (.star a) fuel s i ≠ (.err k, j) := by
  simp only [run]; exact starLoop_never_err _ _ _ _ _ _

-- (ab)* on "ababa": two rounds; the third attempt consumes `a`, fails on end-of-buffer, and the
-- cursor goes back to 4
example : run (.star (.seq (.chr (.eq 97)) (.chr (.eq 98)))) 6 [97, 98, 97, 98, 97] 0
    = (.ok (.list [.pair (.ch 97 0 1) (.ch 98 1 2) 0 2, .pair (.ch 97 2 3) (.ch 98 3 4) 2 4] 0 4), 4) := by
  rfl

/-! ### Fuel -/

theorem starLoop_fuel_indep {a : E} {p₁ p₂ : Nat → Out × Nat} {s : Bytes} {start : Nat}
    (hcons : consumes a = true)
    (hp : ∀ c, start ≤ c → c ≤ s.length → Good a s c (p₁ c))
    (heq : ∀ c, start ≤ c → c ≤ s.length → p₁ c = p₂ c) :
    ∀ (f₁ f₂ c : Nat) (v : List T), start ≤ c → c ≤ s.length → s.length - c < f₁ → s.length - c < f₂ →
      starLoop p₁ s start f₁ c v (p₁ c) = starLoop p₂ s start f₂ c v (p₂ c) := by
  intro f₁
  induction f₁ with
  | zero => intro f₂ c v _ _ h; omega
  | succ f₁ ih =>
    intro f₂ c v hsc hc h1 h2
    cases f₂ with
    | zero => omega
    | succ f₂ =>
      have hg := hp c hsc hc
      rw [← heq c hsc hc]
      cases hpc : p₁ c with
      | mk r j =>
        rw [hpc] at hg
        cases r with
        | ok o =>
          obtain ⟨n, hj, hjl, _, _, _, _, hpos⟩ := hg
          have := hpos hcons
          simp only [starLoop]
          exact ih f₂ j _ (by omega) hjl (by omega) (by omega)
        | err k => simp [starLoop]
        | panic st => exact hg.elim
        | hang => exact hg.elim

/-- **Fuel sufficiency**: `|s| - i + 1` loop tests are enough, and beyond that bound the result
    (value, spans, error kind, cursor) does not depend on the fuel; it is never `hang`. -/
theorem run_fuel_sufficient {e : E} {s : Bytes} :
    ∀ {i f₁ f₂ : Nat}, StarBodiesConsume e = true → i ≤ s.length →
      s.length - i < f₁ → s.length - i < f₂ →
      run e f₁ s i = run e f₂ s i ∧ (run e f₁ s i).1 ≠ .hang := by
  have key : ∀ {i f₁ f₂ : Nat}, StarBodiesConsume e = true → i ≤ s.length →
      s.length - i < f₁ → s.length - i < f₂ → run e f₁ s i = run e f₂ s i := by
    induction e with
    | chr g w => intros; cases w <;> simp only [run]
    | seq a b iha ihb =>
      intro i f₁ f₂ hwf hi h1 h2
      have hwf' := hwf
      simp only [StarBodiesConsume, Bool.and_eq_true] at hwf'
      have ea := iha (i := i) hwf'.1 hi h1 h2
      have hg := run_good (fuel := f₁) hwf'.1 hi h1
      simp only [run]
      rw [← ea]
      cases hra : run a f₁ s i with
      | mk r j =>
        rw [hra] at hg
        cases r with
        | ok o1 =>
          obtain ⟨n, hj, hjl, _⟩ := hg
          have eb := ihb (i := j) hwf'.2 hjl (f₁ := f₁) (f₂ := f₂) (by omega) (by omega)
          simp only [eb]
        | err k => rfl
        | panic st => rfl
        | hang => rfl
    | alt a b iha ihb =>
      intro i f₁ f₂ hwf hi h1 h2
      have hwf' := hwf
      simp only [StarBodiesConsume, Bool.and_eq_true] at hwf'
      have ea := iha (i := i) hwf'.1 hi h1 h2
      have eb := ihb (i := i) hwf'.2 hi h1 h2
      simp only [run]
      rw [← ea, setCursor_ok hi]
      simp only [eb]
    | star a iha =>
      intro i f₁ f₂ hwf hi h1 h2
      have hwf' := hwf
      simp only [StarBodiesConsume, Bool.and_eq_true] at hwf'
      simp only [run]
      exact starLoop_fuel_indep (a := a) hwf'.1
        (fun c hic hc => run_good (i := c) hwf'.2 hc (by omega))
        (fun c hic hc => iha (i := c) hwf'.2 hc (by omega) (by omega))
        f₁ f₂ i [] (Nat.le_refl i) hi h1 h2
    | not a iha =>
      intro i f₁ f₂ hwf hi h1 h2
      have hwf' := hwf
      simp only [StarBodiesConsume] at hwf'
      have ea := iha (i := i) hwf' hi h1 h2
      simp only [run]
      rw [← ea]
  intro i f₁ f₂ hwf hi h1 h2
  refine ⟨key hwf hi h1 h2, ?_⟩
  have hg := run_good (fuel := f₁) hwf hi h1
  intro hh
  cases hr : run e f₁ s i with
  | mk o j =>
    rw [hr] at hg hh
    simp only at hh
    subst hh
    exact hg.elim

example : run (.star (.chr (.eq 97))) 3 [97, 97] 0 = run (.star (.chr (.eq 97))) 100 [97, 97] 0 := by rfl
-- one test fewer than the bound is NOT enough: the bound is tight
example : run (.star (.chr (.eq 97))) 2 [97, 97] 0 = (.hang, 2) := by rfl

/-! ### The hypothesis on star bodies cannot be dropped -/

/-- Witness: `(!a)*` on the empty buffer.  The body succeeds without consuming, so the loop of
    `Star::parse` never ends: the model reports `hang` for *every* fuel … -/
theorem run_nonterminating_without_hyp (fuel : Nat) :
    run (.star (.not (.chr (.eq 97)))) fuel [] 0 = (.hang, 0) := by
  have hbody : ∀ f, run (.not (.chr (.eq 97))) f [] 0 = (.ok (.unit 0 0), 0) := by intro f; rfl
  have hloop : ∀ (f : Nat) (v : List T),
      starLoop (fun j => run (.not (.chr (.eq 97))) fuel [] j) [] 0 f 0 v (.ok (.unit 0 0), 0)
        = (.hang, 0) := by
    intro f
    induction f with
    | zero => intro v; simp [starLoop]
    | succ f ih => intro v; simp only [starLoop, hbody]; exact ih _
  simp only [run]
  have := hbody fuel
  simp only [run] at this
  rw [this]
  exact hloop fuel []

/-- … and the textbook semantics assigns it no outcome either: a repetition whose body succeeds
    without consuming has no derivation. -/
theorem peg_star_nonconsuming_diverges {a : E} {x : Bytes} {v : Shape}
    (hbody : Peg a x (some (v, 0))) (r : Outcome) : ¬ Peg (.star a) x r := by
  intro h
  generalize he : E.star a = e at h
  induction h with
  | star_stop h0 =>
    cases he
    cases peg_deterministic hbody h0
  | star_step ha _ _ ihs =>
    cases he
    have := peg_deterministic hbody ha
    simp only [Option.some.injEq, Prod.mk.injEq] at this
    obtain ⟨rfl, rfl⟩ := this
    exact ihs (by simpa using hbody) rfl
  | _ => cases he

example : ¬ Peg (.star (.not (.chr (.eq 97)))) [] (some (.list [], 0)) :=
  peg_star_nonconsuming_diverges (.not_ok .chr_eof) _
example : StarBodiesConsume (.star (.not (.chr (.eq 97)))) = false := by rfl

/-! ### The oracle is total on the property's domain -/

/-- a success never consumes more than there is -/
theorem peg_consumed_le {e : E} {x : Bytes} {r : Outcome} (h : Peg e x r) :
    ∀ v n, r = some (v, n) → n ≤ x.length := by
  induction h with
  | chr_ok _ => intro v n h; cases h; simp
  | chr_rej _ => intro v n h; cases h
  | chr_eof => intro v n h; cases h
  | seq_ok _ _ iha ihb =>
    intro v n h; cases h
    have h1 := iha _ _ rfl
    have h2 := ihb _ _ rfl
    simp only [List.length_drop] at h2
    omega
  | seq_fail1 _ _ => intro v n h; cases h
  | seq_fail2 _ _ _ _ => intro v n h; cases h
  | alt_left _ iha => intro v n h; cases h; exact iha _ _ rfl
  | alt_right _ _ _ ihb => intro v n h; cases h; exact ihb _ _ rfl
  | alt_fail _ _ _ _ => intro v n h; cases h
  | star_stop _ _ => intro v n h; cases h; omega
  | star_step _ _ iha ihs =>
    intro v n h; cases h
    have h1 := iha _ _ rfl
    have h2 := ihs _ _ rfl
    simp only [List.length_drop] at h2
    omega
  | not_ok _ _ => intro v n h; cases h; omega
  | not_fail _ _ => intro v n h; cases h

/-- an operand that "consumes" (syntactically) consumes at least one byte whenever it succeeds -/
theorem peg_consumes_pos {e : E} {x : Bytes} {r : Outcome} (h : Peg e x r) :
    consumes e = true → ∀ v n, r = some (v, n) → 0 < n := by
  induction h with
  | chr_ok _ => intro _ v n h; cases h; omega
  | chr_rej _ => intro _ v n h; cases h
  | chr_eof => intro _ v n h; cases h
  | seq_ok _ _ iha ihb =>
    intro hc v n h; cases h
    simp only [consumes, Bool.or_eq_true] at hc
    cases hc with
    | inl hc => have := iha hc _ _ rfl; omega
    | inr hc => have := ihb hc _ _ rfl; omega
  | seq_fail1 _ _ => intro _ v n h; cases h
  | seq_fail2 _ _ _ _ => intro _ v n h; cases h
  | alt_left _ iha =>
    intro hc v n h; cases h
    simp only [consumes, Bool.and_eq_true] at hc
    exact iha hc.1 _ _ rfl
  | alt_right _ _ _ ihb =>
    intro hc v n h; cases h
    simp only [consumes, Bool.and_eq_true] at hc
    exact ihb hc.2 _ _ rfl
  | alt_fail _ _ _ _ => intro _ v n h; cases h
  | star_stop _ _ => intro hc; simp [consumes] at hc
  | star_step _ _ _ _ => intro hc; simp [consumes] at hc
  | not_ok _ _ => intro hc; simp [consumes] at hc
  | not_fail _ _ => intro _ v n h; cases h

theorem starEval_total {a : E} (hcons : consumes a = true)
    (htot : ∀ x, ∃ r, pegEval a x = some r) :
    ∀ (k : Nat) (x : Bytes), x.length < k → ∃ q, starEval (pegEval a) k x = some q := by
  intro k
  induction k with
  | zero => intro x h; omega
  | succ k ih =>
    intro x hk
    obtain ⟨r, hr⟩ := htot x
    cases r with
    | none => exact ⟨([], 0), by simp [starEval, hr]⟩
    | some vn =>
      obtain ⟨v, n⟩ := vn
      have hp := pegEval_sound hr
      have hpos := peg_consumes_pos hp hcons _ _ rfl
      have hle := peg_consumed_le hp _ _ rfl
      have hlen : (x.drop n).length < k := by simp only [List.length_drop]; omega
      obtain ⟨q, hq⟩ := ih (x.drop n) hlen
      obtain ⟨vs, m⟩ := q
      have hn : n ≠ 0 := by omega
      exact ⟨(v :: vs, n + m), by simp [starEval, hr, hn, hq]⟩

/-- On the property's domain the oracle always answers … -/
theorem pegEval_total {e : E} (hwf : StarBodiesConsume e = true) :
    ∀ x, ∃ r, pegEval e x = some r := by
  induction e with
  | chr g w =>
    intro x
    cases x with
    | nil => exact ⟨none, by simp [pegEval]⟩
    | cons c x =>
      by_cases hc : g.accepts c = true
      · exact ⟨_, by simp only [pegEval, hc, if_true] <;> rfl⟩
      · exact ⟨none, by simp [pegEval, hc]⟩
  | seq a b iha ihb =>
    intro x
    simp only [StarBodiesConsume, Bool.and_eq_true] at hwf
    obtain ⟨ra, ha⟩ := iha hwf.1 x
    cases ra with
    | none => exact ⟨none, by simp [pegEval, ha]⟩
    | some vn =>
      obtain ⟨va, n⟩ := vn
      obtain ⟨rb, hb⟩ := ihb hwf.2 (x.drop n)
      cases rb with
      | none => exact ⟨none, by simp [pegEval, ha, hb]⟩
      | some wm => obtain ⟨vb, m⟩ := wm; exact ⟨_, by simp only [pegEval, ha, hb] <;> rfl⟩
  | alt a b iha ihb =>
    intro x
    simp only [StarBodiesConsume, Bool.and_eq_true] at hwf
    obtain ⟨ra, ha⟩ := iha hwf.1 x
    cases ra with
    | some vn => obtain ⟨va, n⟩ := vn; exact ⟨_, by simp only [pegEval, ha] <;> rfl⟩
    | none =>
      obtain ⟨rb, hb⟩ := ihb hwf.2 x
      cases rb with
      | none => exact ⟨none, by simp [pegEval, ha, hb]⟩
      | some wm => obtain ⟨vb, m⟩ := wm; exact ⟨_, by simp only [pegEval, ha, hb] <;> rfl⟩
  | star a iha =>
    intro x
    simp only [StarBodiesConsume, Bool.and_eq_true] at hwf
    obtain ⟨q, hq⟩ := starEval_total hwf.1 (iha hwf.2) (x.length + 1) x (by omega)
    obtain ⟨vs, m⟩ := q
    exact ⟨_, by simp only [pegEval, hq] <;> rfl⟩
  | not a iha =>
    intro x
    simp only [StarBodiesConsume] at hwf
    obtain ⟨ra, ha⟩ := iha hwf x
    cases ra with
    | none => exact ⟨_, by simp only [pegEval, ha] <;> rfl⟩
    | some vn => exact ⟨none, by simp [pegEval, ha]⟩

/-- … and its answer is exactly the relation: `pegEval` *is* the textbook semantics there. -/
theorem pegEval_eq_peg {e : E} (hwf : StarBodiesConsume e = true) (x : Bytes) (r : Outcome) :
    pegEval e x = some r ↔ Peg e x r := by
  constructor
  · exact pegEval_sound
  · intro h
    obtain ⟨r', hr'⟩ := pegEval_total hwf x
    rw [hr', peg_deterministic (pegEval_sound hr') h]

/-- Model and oracle agree (what the `model_vs_oracle` column of the evidence tests). -/
theorem run_eq_pegEval {e : E} {s : Bytes} {i fuel : Nat}
    (hwf : StarBodiesConsume e = true) (hi : i ≤ s.length) (hf : s.length - i < fuel) :
    observe i (run e fuel s i) = pegEval e (s.drop i) := by
  obtain ⟨r, hr⟩ := pegEval_total hwf (s.drop i)
  rw [hr]
  exact (run_eq_peg hwf hi hf r).mp (pegEval_sound hr)

example : pegEval (.star (.not (.chr (.eq 97)))) [] = none := by rfl   -- outside the domain: no answer
example : observe 0 (run (.star (.alt (.chr (.eq 97)) (.chr (.eq 98)))) 4 [98, 97, 99] 0)
    = pegEval (.star (.alt (.chr (.eq 97)) (.chr (.eq 98)))) [98, 97, 99] := by rfl

/-! ### Without the side condition: partial correctness for *every* expression

The hypothesis `StarBodiesConsume` is needed for termination only.  For an arbitrary expression
and arbitrary fuel the model either reports `hang` or returns exactly what the textbook semantics
derives — and it never reaches a panic. -/

/-- like `Good`, but a hang is allowed and nothing is said about consumption -/
def Sound (e : E) (s : Bytes) (i : Nat) : Out × Nat → Prop
  | (.ok t, j) => ∃ n, j = i + n ∧ j ≤ s.length ∧ t.start = i ∧ t.stop = j ∧ t.nest = true ∧
      Peg e (s.drop i) (some (t.shape, n))
  | (.err _, j) => (e.isRaw = false → j = i) ∧ Peg e (s.drop i) none
  | (.panic _, _) => False
  | (.hang, _) => True

/-- what the loop of `Star::parse` returns when it returns -/
def LoopSound (a : E) (s : Bytes) (start c : Nat) (v : List T) : Out × Nat → Prop
  | (.ok t, j) => ∃ ts n, t = .list (v ++ ts) start (c + n) ∧ j = c + n ∧ c + n ≤ s.length ∧
      tiles ts c (c + n) = true ∧ Peg (.star a) (s.drop c) (some (.list (shapes ts), n))
  | (.err _, _) => False
  | (.panic _, _) => False
  | (.hang, _) => True

theorem starLoop_sound {a : E} {p : Nat → Out × Nat} {s : Bytes} {start : Nat}
    (hp : ∀ c, start ≤ c → c ≤ s.length → Sound a s c (p c)) :
    ∀ (fuel c : Nat) (v : List T), start ≤ c → c ≤ s.length →
      LoopSound a s start c v (starLoop p s start fuel c v (p c)) := by
  intro fuel
  induction fuel with
  | zero =>
    intro c v _ _
    cases hpc : p c with
    | mk r j => simp [starLoop, LoopSound]
  | succ fuel ih =>
    intro c v hsc hc
    have hg := hp c hsc hc
    cases hpc : p c with
    | mk r j =>
      rw [hpc] at hg
      cases r with
      | ok o =>
        obtain ⟨n₁, hj, hjl, hst, hsp, hnest, hpeg⟩ := hg
        have hrec := ih j (v ++ [o]) (by omega) hjl
        simp only [starLoop]
        cases hres : starLoop p s start fuel j (v ++ [o]) (p j) with
        | mk r2 j2 =>
          rw [hres] at hrec
          cases r2 with
          | ok t =>
            obtain ⟨ts, n, ht, hj2, hle, htiles, hstar⟩ := hrec
            refine ⟨o :: ts, n₁ + n, ?_, by omega, by omega, ?_, ?_⟩
            · rw [ht]; simp only [List.append_assoc, List.singleton_append, hj, Nat.add_assoc]
            · simp only [tiles, hnest, hst, hsp, Bool.and_eq_true, beq_iff_eq, true_and]
              have : c + (n₁ + n) = j + n := by omega
              rw [this]; exact htiles
            · have hd : s.drop j = (s.drop c).drop n₁ := by rw [drop_add, hj]
              rw [hd] at hstar
              simp only [shapes]
              exact .star_step hpeg hstar
          | err k => exact hrec.elim
          | panic st => exact hrec.elim
          | hang => trivial
      | err k =>
        obtain ⟨_, hpeg⟩ := hg
        simp only [starLoop, setCursor_ok hc]
        refine ⟨[], 0, by simp, rfl, by omega, by simp [tiles], ?_⟩
        simp only [shapes]; exact .star_stop hpeg
      | panic st => exact hg.elim
      | hang => simp [starLoop, LoopSound]

theorem run_sound {e : E} {s : Bytes} {fuel : Nat} :
    ∀ {i : Nat}, i ≤ s.length → Sound e s i (run e fuel s i) := by
  induction e with
  | chr g w =>
    intro i hi
    cases w with
    | false =>
      simp only [run]
      cases hd : s.drop i with
      | nil =>
        rw [asciiChar_nil hi hd]
        exact ⟨fun _ => rfl, by rw [hd]; exact .chr_eof⟩
      | cons c x =>
        rw [asciiChar_cons hd]
        have hlt := lt_of_drop_cons hd
        by_cases hc : g.accepts c = true
        · simp only [hc, if_true]
          refine ⟨1, rfl, by omega, rfl, rfl, by simp [T.nest], ?_⟩
          rw [hd]; simp only [T.shape]; exact .chr_ok hc
        · simp only [hc]
          refine ⟨fun _ => rfl, ?_⟩
          rw [hd]; exact .chr_rej (by simpa using hc)
    | true =>
      simp only [run]
      cases hd : s.drop i with
      | nil =>
        rw [rawChar_nil hi hd]
        exact ⟨fun _ => rfl, by rw [hd]; exact .chr_eof⟩
      | cons c x =>
        rw [rawChar_cons hd]
        have hlt := lt_of_drop_cons hd
        by_cases hc : g.accepts c = true
        · simp only [hc, if_true]
          refine ⟨1, rfl, by omega, rfl, rfl, by simp [T.nest], ?_⟩
          rw [hd]; simp only [T.shape]; exact .chr_ok hc
        · have hrej : Peg (.chr g true) (s.drop i) none := by
            rw [hd]; exact .chr_rej (by simpa using hc)
          simp only [hc]
          by_cases h128 : c.toNat ≥ 128
          · simp only [h128, if_true]; exact ⟨fun _ => rfl, hrej⟩
          · simp only [h128]; exact ⟨fun h => by simp [E.isRaw] at h, hrej⟩
  | seq a b iha ihb =>
    intro i hi
    have ha := iha hi
    simp only [run]
    cases hra : run a fuel s i with
    | mk r j =>
      rw [hra] at ha
      cases r with
      | ok o1 =>
        obtain ⟨n, hj, hjl, hst, hsp, hnest, hpeg⟩ := ha
        have hb := ihb (i := j) hjl
        simp only []
        cases hrb : run b fuel s j with
        | mk r2 k =>
          rw [hrb] at hb
          cases r2 with
          | ok o2 =>
            obtain ⟨m, hk, hkl, hst2, hsp2, hnest2, hpeg2⟩ := hb
            simp only []
            refine ⟨n + m, by omega, hkl, rfl, rfl, ?_, ?_⟩
            · simp [T.nest, hnest, hnest2, hst, hsp, hst2, hsp2]
            · simp only [T.shape]
              have hd : s.drop j = (s.drop i).drop n := by rw [drop_add, hj]
              rw [hd] at hpeg2
              exact .seq_ok hpeg hpeg2
          | err k2 =>
            obtain ⟨_, hpeg2⟩ := hb
            simp only []
            rw [restore_ok _ _ hi]
            have hd : s.drop j = (s.drop i).drop n := by rw [drop_add, hj]
            rw [hd] at hpeg2
            exact ⟨fun _ => rfl, .seq_fail2 hpeg hpeg2⟩
          | panic st => exact hb.elim
          | hang => trivial
      | err k =>
        obtain ⟨_, hpeg⟩ := ha
        simp only []
        rw [restore_ok _ _ hi]
        exact ⟨fun _ => rfl, .seq_fail1 hpeg⟩
      | panic st => exact ha.elim
      | hang => trivial
  | alt a b iha ihb =>
    intro i hi
    have ha := iha hi
    simp only [run]
    cases hra : run a fuel s i with
    | mk r j =>
      rw [hra] at ha
      cases r with
      | ok o1 =>
        obtain ⟨n, hj, hjl, hst, hsp, hnest, hpeg⟩ := ha
        simp only []
        refine ⟨n, hj, hjl, rfl, rfl, ?_, ?_⟩
        · simp [T.nest, hnest, hst, hsp]
        · simp only [T.shape]; exact .alt_left hpeg
      | err k =>
        obtain ⟨_, hpeg⟩ := ha
        simp only [setCursor_ok hi]
        have hb := ihb (i := i) hi
        cases hrb : run b fuel s i with
        | mk r2 k' =>
          rw [hrb] at hb
          cases r2 with
          | ok o2 =>
            obtain ⟨m, hk, hkl, hst2, hsp2, hnest2, hpeg2⟩ := hb
            simp only []
            refine ⟨m, hk, hkl, rfl, rfl, ?_, ?_⟩
            · simp [T.nest, hnest2, hst2, hsp2]
            · simp only [T.shape]; exact .alt_right hpeg hpeg2
          | err k2 =>
            obtain ⟨_, hpeg2⟩ := hb
            simp only []
            rw [restore_ok _ _ hi]
            exact ⟨fun _ => rfl, .alt_fail hpeg hpeg2⟩
          | panic st => exact hb.elim
          | hang => trivial
      | panic st => exact ha.elim
      | hang => trivial
  | star a iha =>
    intro i hi
    simp only [run]
    have hp : ∀ c, i ≤ c → c ≤ s.length → Sound a s c ((fun j => run a fuel s j) c) := by
      intro c _ hc
      exact iha (i := c) hc
    have hl := starLoop_sound hp fuel i [] (Nat.le_refl i) hi
    cases hres : starLoop (fun j => run a fuel s j) s i fuel i [] (run a fuel s i) with
    | mk r j =>
      simp only [hres] at hl
      cases r with
      | ok t =>
        obtain ⟨ts, n, ht, hj, hle, htiles, hstar⟩ := hl
        simp only [List.nil_append] at ht
        subst ht; subst hj
        refine ⟨n, rfl, hle, rfl, rfl, ?_, ?_⟩
        · simp only [T.nest]; exact htiles
        · simp only [T.shape]; exact hstar
      | err k => exact hl.elim
      | panic st => exact hl.elim
      | hang => trivial
  | not a iha =>
    intro i hi
    have ha := iha hi
    simp only [run]
    cases hra : run a fuel s i with
    | mk r j =>
      rw [hra] at ha
      cases r with
      | ok o1 =>
        obtain ⟨n, hj, hjl, hst, hsp, hnest, hpeg⟩ := ha
        simp only [setCursor_ok hi]
        exact ⟨fun _ => rfl, .not_fail hpeg⟩
      | err k =>
        obtain ⟨_, hpeg⟩ := ha
        simp only [setCursor_ok hi]
        refine ⟨0, rfl, hi, rfl, rfl, by simp [T.nest], ?_⟩
        simp only [T.shape]; exact .not_ok hpeg
      | panic st => exact ha.elim
      | hang => trivial

/-- **Partial correctness for every expression**, any fuel: if the composed parser returns at
    all, its outcome is the textbook outcome (in particular the textbook semantics *has* one),
    spans nest, the span is `[i, cursor)`, and a failing combinator leaves the cursor at `i`. -/
theorem run_returns_peg_any {e : E} {s : Bytes} {i fuel : Nat} (hi : i ≤ s.length) :
    (∀ t j, run e fuel s i = (.ok t, j) →
        Peg e (s.drop i) (some (t.shape, j - i)) ∧ t.nest = true ∧ t.start = i ∧ t.stop = j ∧
          i ≤ j ∧ j ≤ s.length) ∧
    (∀ k j, run e fuel s i = (.err k, j) → Peg e (s.drop i) none ∧ (e.isRaw = false → j = i)) := by
  have hs := run_sound (e := e) (fuel := fuel) hi
  constructor
  · intro t j h
    rw [h] at hs
    obtain ⟨n, hj, hjl, hst, hsp, hnest, hpeg⟩ := hs
    have : j - i = n := by omega
    rw [this]
    exact ⟨hpeg, hnest, hst, hsp, by omega, hjl⟩
  · intro k j h
    rw [h] at hs
    exact ⟨hs.2, hs.1⟩

/-- **No expression at all can make the combinators panic** (every `set_cursor_unsafe` they
    issue is within the buffer, `buf()` is never sliced past the end). -/
theorem run_never_panics_any (e : E) (s : Bytes) (i fuel : Nat) (hi : i ≤ s.length)
    (st : String) (j : Nat) : run e fuel s i ≠ (.panic st, j) := by
  intro h
  have hs := run_sound (e := e) (fuel := fuel) hi
  rw [h] at hs
  exact hs

-- non-vacuity: an expression outside the domain that still terminates on this input
example : StarBodiesConsume (.star (.star (.chr (.eq 97)))) = false
    ∧ run (.seq (.chr (.eq 98)) (.star (.star (.chr (.eq 97))))) 5 [99] 0 = (.err .guard, 0) := ⟨rfl, rfl⟩
-- the panic outcome is reachable in the model when the buffer invariant is violated (so
-- `run_never_panics_any` is not vacuous)
example : run (.chr (.eq 97)) 1 [97] 2 = (.panic "buf-slice", 2) := by rfl

end Parsley.C18
