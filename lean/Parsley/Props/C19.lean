/-
  C19 — Binary integer parsers decode exactly the bytes under the cursor.
  Property theorems (full strength, all buffers, all cursors, no size bound).
-/
import Parsley.Model.Bin
import Parsley.Spec.Bin
namespace Parsley.C19
open Parsley Parsley.Bin Parsley.BinSpec

def denote (e : Endian) (bs : Bytes) : Nat :=
  match e with | .big => beVal bs | .little => leVal bs

/-- The contract of a `w`-byte unsigned parser. -/
def Sat {α : Type} (p : P α) (w : Nat) (e : Endian) (val : α → Nat) : Prop :=
  ∀ (s : Bytes) (i : Nat),
    match window s i w with
    | some bs => ∃ v, p s i = (.ok ⟨v, i, i + w⟩, i + w) ∧ val v = denote e bs
    | none => p s i = (.err .eob, i)

theorem window_length {s : Bytes} {i w : Nat} {bs : Bytes} (h : window s i w = some bs) :
    bs.length = w := by
  unfold window at h
  split at h
  · cases h; simp; omega
  · cases h

theorem window_add (s : Bytes) (i w1 w2 : Nat) :
    window s i (w1 + w2) =
      match window s i w1, window s (i + w1) w2 with
      | some a, some b => some (a ++ b)
      | _, _ => none := by
  unfold window
  by_cases h : i + (w1 + w2) ≤ s.length
  · have h1 : i + w1 ≤ s.length := by omega
    have h2 : i + w1 + w2 ≤ s.length := by omega
    simp only [h, h1, h2, if_true]
    congr 1
    rw [← List.drop_drop, ← List.take_add]
    
  · simp only [h, if_false]
    by_cases h1 : i + w1 ≤ s.length
    · have h2 : ¬ (i + w1 + w2 ≤ s.length) := by omega
      simp [h1, h2]
    · simp [h1]

theorem beVal_append (a b : Bytes) : beVal (a ++ b) = beVal a * 256 ^ b.length + beVal b := by
  induction a with
  | nil => simp [beVal]
  | cons x t ih =>
    simp only [List.cons_append, beVal, ih, List.length_append]
    rw [Nat.pow_add]
    rw [Nat.add_mul, Nat.mul_assoc]
    omega

theorem leVal_append (a b : Bytes) : leVal (a ++ b) = leVal a + 256 ^ a.length * leVal b := by
  induction a with
  | nil => simp [leVal]
  | cons x t ih =>
    simp only [List.cons_append, leVal, ih, List.length_cons, Nat.pow_succ]
    rw [Nat.mul_add, ← Nat.mul_assoc, Nat.mul_comm 256 (256 ^ t.length)]
    omega

theorem uint8_sat (e : Endian) : Sat uint8P 1 e UInt8.toNat := by
  intro s i
  unfold window uint8P
  by_cases h : i + 1 ≤ s.length
  · have hi : i < s.length := by omega
    simp only [h, if_true, List.getElem?_eq_getElem hi]
    refine ⟨s[i], rfl, ?_⟩
    have : List.take 1 (List.drop i s) = [s[i]] := by
      rw [List.drop_eq_getElem_cons hi]; rfl
    rw [this]; cases e <;> simp [denote, beVal, leVal]
  · have hi : s.length ≤ i := by omega
    simp [h, List.getElem?_eq_none hi]

/-- Doubling step: if `p` is a correct `w`-byte parser and `comb hi lo` has value
    `hi·256^w + lo`, then `pair p comb e` is a correct `2w`-byte parser. -/
theorem pair_sat {α β : Type} (p : P α) (comb : α → α → β) (e : Endian) (w : Nat)
    (val : α → Nat) (val' : β → Nat)
    (hp : Sat p w e val)
    (hc : ∀ hi lo, val' (comb hi lo) = val hi * 256 ^ w + val lo) :
    Sat (pair p comb e) (w + w) e val' := by
  intro s i
  rw [window_add]
  have h1 := hp s i
  have h2 := hp s (i + w)
  unfold pair
  cases hw1 : window s i w with
  | none => simp only [hw1] at h1 ⊢; simp [h1]
  | some a =>
    simp only [hw1] at h1
    obtain ⟨v1, hv1, hd1⟩ := h1
    have la := window_length hw1
    cases hw2 : window s (i + w) w with
    | none => simp only [hw2] at h2 ⊢; simp [hv1, h2]
    | some b =>
      simp only [hw2] at h2
      obtain ⟨v2, hv2, hd2⟩ := h2
      have lb := window_length hw2
      simp only [hv1, hv2]
      cases e
      · refine ⟨comb v2 v1, by simp [Nat.add_assoc], ?_⟩
        simp only [denote] at *
        rw [leVal_append, hc, hd1, hd2, la]; simp [Nat.mul_comm, Nat.add_comm]
      · refine ⟨comb v1 v2, by simp [Nat.add_assoc], ?_⟩
        simp only [denote] at *
        rw [beVal_append, hc, hd1, hd2, lb]

theorem comb16_val (hi lo : UInt8) : (comb16 hi lo).toNat = hi.toNat * 256 ^ 1 + lo.toNat := by
  have ha := hi.toNat_lt; have hb := lo.toNat_lt
  simp [comb16, UInt16.toNat_add, UInt16.toNat_shiftLeft]; omega
theorem comb32_val (hi lo : UInt16) : (comb32 hi lo).toNat = hi.toNat * 256 ^ 2 + lo.toNat := by
  have ha := hi.toNat_lt; have hb := lo.toNat_lt
  simp [comb32, UInt32.toNat_add, UInt32.toNat_shiftLeft]; omega
theorem comb64_val (hi lo : UInt32) : (comb64 hi lo).toNat = hi.toNat * 256 ^ 4 + lo.toNat := by
  have ha := hi.toNat_lt; have hb := lo.toNat_lt
  simp [comb64, UInt64.toNat_add, UInt64.toNat_shiftLeft]; omega

/-- The Rust code adds with `+` (which panics on overflow in a debug build):
    the sum never overflows, because the shifted high half has zero low bits. -/
theorem comb_no_overflow :
    (∀ hi lo : UInt8, (hi.toUInt16 <<< 8).toNat + lo.toUInt16.toNat < 2 ^ 16) ∧
    (∀ hi lo : UInt16, (hi.toUInt32 <<< 16).toNat + lo.toUInt32.toNat < 2 ^ 32) ∧
    (∀ hi lo : UInt32, (hi.toUInt64 <<< 32).toNat + lo.toUInt64.toNat < 2 ^ 64) := by
  refine ⟨?_, ?_, ?_⟩ <;> intro hi lo <;> have ha := hi.toNat_lt <;> have hb := lo.toNat_lt
  · simp [UInt16.toNat_shiftLeft]; omega
  · simp [UInt32.toNat_shiftLeft]; omega
  · simp [UInt64.toNat_shiftLeft]; omega

theorem uint16_sat (e : Endian) : Sat (uint16P e) 2 e UInt16.toNat :=
  pair_sat uint8P comb16 e 1 _ _ (uint8_sat e) comb16_val
theorem uint32_sat (e : Endian) : Sat (uint32P e) 4 e UInt32.toNat :=
  pair_sat (uint16P e) comb32 e 2 _ _ (uint16_sat e) comb32_val
theorem uint64_sat (e : Endian) : Sat (uint64P e) 8 e UInt64.toNat :=
  pair_sat (uint32P e) comb64 e 4 _ _ (uint32_sat e) comb64_val

/-- **C19 (unsigned).**  For every buffer `s`, cursor `i` and byte order `e`:
    if `w` bytes remain, the `w`-byte parser returns the value those bytes
    denote in that order, with span `[i, i+w)` and cursor `i+w`; otherwise it
    fails with end-of-buffer and the cursor is `i`. -/
theorem uint_parse_spec (e : Endian) :
    Sat uint8P 1 e UInt8.toNat ∧ Sat (uint16P e) 2 e UInt16.toNat ∧
    Sat (uint32P e) 4 e UInt32.toNat ∧ Sat (uint64P e) 8 e UInt64.toNat :=
  ⟨uint8_sat e, uint16_sat e, uint32_sat e, uint64_sat e⟩

/-- Contract of a signed parser: the unsigned denotation reinterpreted in
    two's complement. -/
def SatS {α : Type} (p : P α) (w : Nat) (e : Endian) (val : α → Int) : Prop :=
  ∀ (s : Bytes) (i : Nat),
    match window s i w with
    | some bs => ∃ v, p s i = (.ok ⟨v, i, i + w⟩, i + w) ∧ val v = signed (8 * w) (denote e bs)
    | none => p s i = (.err .eob, i)

theorem cast_sat {α β : Type} (p : P α) (f : α → β) (w : Nat) (e : Endian)
    (val : α → Nat) (val' : β → Int) (hp : Sat p w e val)
    (hf : ∀ v, val' (f v) = signed (8 * w) (val v)) : SatS (castP p f) w e val' := by
  intro s i
  have h := hp s i
  unfold castP
  cases hw : window s i w with
  | none => simp only [hw] at h ⊢; simp [h]
  | some bs =>
    simp only [hw] at h ⊢
    obtain ⟨v, hv, hd⟩ := h
    exact ⟨f v, by simp [hv], by rw [hf, hd]⟩

theorem toInt8_val (v : UInt8) : v.toInt8.toInt = signed 8 v.toNat := by
  have := v.toNat_lt
  have e : v.toNat = v.toBitVec.toNat := rfl
  show v.toBitVec.toInt = _
  rw [BitVec.toInt_eq_toNat_cond]; simp only [signed]; split <;> split <;> first | rfl | omega
theorem toInt16_val (v : UInt16) : v.toInt16.toInt = signed 16 v.toNat := by
  have := v.toNat_lt
  have e : v.toNat = v.toBitVec.toNat := rfl
  show v.toBitVec.toInt = _
  rw [BitVec.toInt_eq_toNat_cond]; simp only [signed]; split <;> split <;> first | rfl | omega
theorem toInt32_val (v : UInt32) : v.toInt32.toInt = signed 32 v.toNat := by
  have := v.toNat_lt
  have e : v.toNat = v.toBitVec.toNat := rfl
  show v.toBitVec.toInt = _
  rw [BitVec.toInt_eq_toNat_cond]; simp only [signed]; split <;> split <;> first | rfl | omega
theorem toInt64_val (v : UInt64) : v.toInt64.toInt = signed 64 v.toNat := by
  have := v.toNat_lt
  have e : v.toNat = v.toBitVec.toNat := rfl
  show v.toBitVec.toInt = _
  rw [BitVec.toInt_eq_toNat_cond]; simp only [signed]; split <;> split <;> first | rfl | omega

/-- **C19 (signed).** -/
theorem int_parse_spec (e : Endian) :
    SatS int8P 1 e Int8.toInt ∧ SatS (int16P e) 2 e Int16.toInt ∧
    SatS (int32P e) 4 e Int32.toInt ∧ SatS (int64P e) 8 e Int64.toInt :=
  ⟨cast_sat _ _ 1 e _ _ (uint8_sat e) toInt8_val, cast_sat _ _ 2 e _ _ (uint16_sat e) toInt16_val,
   cast_sat _ _ 4 e _ _ (uint32_sat e) toInt32_val, cast_sat _ _ 8 e _ _ (uint64_sat e) toInt64_val⟩

/-- **C19 (byte vector).**  Exactly `len` bytes or end-of-buffer with the cursor
    unmoved. -/
theorem bytevec_spec (len : Nat) (s : Bytes) (i : Nat) (hi : i ≤ s.length) :
    match window s i len with
    | some bs => byteVecP len s i = (.ok ⟨bs, i, i + len⟩, i + len)
    | none => byteVecP len s i = (.err .eob, i) := by
  unfold window byteVecP
  by_cases h : i + len ≤ s.length
  · have : ¬ (s.length - i < len) := by omega
    simp [h, this]
  · have : s.length - i < len := by omega
    simp [h, this]

/-- No outcome of any of these parsers is a `panic`. -/
theorem bin_never_panics (e : Endian) (s : Bytes) (i : Nat) :
    (uint64P e s i).1.isPanic = false ∧ (int64P e s i).1.isPanic = false := by
  have h := uint64_sat e s i
  constructor
  · cases hw : window s i 8 with
    | none => simp only [hw] at h; simp [h, Res.isPanic]
    | some bs => simp only [hw] at h; obtain ⟨v, hv, _⟩ := h; simp [hv, Res.isPanic]
  · unfold int64P castP
    cases hw : window s i 8 with
    | none => simp only [hw] at h; simp [h, Res.isPanic]
    | some bs => simp only [hw] at h; obtain ⟨v, hv, _⟩ := h; simp [hv, Res.isPanic]

/-! Non-vacuity: concrete instances of both branches. -/
example : uint16P .big [0xFF, 0xFE, 0x01] 1 = (.ok ⟨0xFE01, 1, 3⟩, 3) := by decide
example : uint32P .little [1, 2, 3] 0 = (.err .eob, 0) := by decide
example : (int16P .big [0xFF, 0xFE] 0).1.isOk = true ∧ signed 16 (denote .big [0xFF, 0xFE]) = -2 := by decide
example : window [1, 2, 3] 1 2 = some [2, 3] ∧ window [1, 2, 3] 2 2 = none := by decide

end Parsley.C19
