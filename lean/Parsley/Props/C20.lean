/-
  C20 — RTPS packets re-encode to the datagram they were parsed from.
-/
import Parsley.Lemmas.Rtps
import Parsley.Props.C19
namespace Parsley.C20
open Parsley Parsley.Bin Parsley.Rtps Parsley.RtpsSpec

/-! ### byte order: the model's shift-and-add against the spec's div/mod -/

theorem msgEndian_eq (f : UInt8) : msgEndian f = if isLittle f then .little else .big := by
  unfold msgEndian isLittle
  have h : (f &&& 0x01 == 0x01) = (f.toNat % 2 == 1) := by
    rw [Bool.eq_iff_iff]
    simp only [beq_iff_eq]
    rw [← UInt8.toNat_inj, UInt8.toNat_and]
    simp [Nat.and_one_is_mod]
  rw [h]

theorem comb16_split (v : UInt16) :
    comb16 (UInt8.ofNat (v.toNat / 256)) (UInt8.ofNat (v.toNat % 256)) = v := by
  rw [← UInt16.toNat_inj, C19.comb16_val]
  have := v.toNat_lt
  simp only [UInt8.toNat_ofNat']
  omega

theorem comb16_hi (a b : UInt8) : UInt8.ofNat ((comb16 a b).toNat / 256) = a := by
  rw [← UInt8.toNat_inj, C19.comb16_val]
  have := a.toNat_lt; have := b.toNat_lt
  simp only [UInt8.toNat_ofNat']
  omega

theorem comb16_lo (a b : UInt8) : UInt8.ofNat ((comb16 a b).toNat % 256) = b := by
  rw [← UInt8.toNat_inj, C19.comb16_val]
  have := a.toNat_lt; have := b.toNat_lt
  simp only [UInt8.toNat_ofNat']
  omega

/-- bytes of the length field, as the spec writes them -/
def lenBytes (f : UInt8) (v : UInt16) : Bytes := if isLittle f then u16le v else u16be v

theorem val16_of_lenBytes {f x y : UInt8} {v : UInt16} (h : lenBytes f v = [x, y]) :
    val16 (msgEndian f) x y = v := by
  unfold lenBytes at h
  rw [msgEndian_eq]
  cases hl : isLittle f <;> simp only [hl, if_true, if_false, Bool.false_eq_true] at h ⊢
  · simp only [u16be, List.cons.injEq, and_true] at h
    obtain ⟨rfl, rfl⟩ := h
    exact comb16_split v
  · simp only [u16le, List.cons.injEq, and_true] at h
    obtain ⟨rfl, rfl⟩ := h
    exact comb16_split v

theorem lenBytes_val16 (f x y : UInt8) : lenBytes f (val16 (msgEndian f) x y) = [x, y] := by
  unfold lenBytes
  rw [msgEndian_eq]
  cases hl : isLittle f <;> simp only [if_true, if_false, Bool.false_eq_true, val16, u16be, u16le]
  · rw [comb16_hi, comb16_lo]
  · rw [comb16_hi, comb16_lo]

theorem encodeSub_eq (m : SubMsg) :
    encodeSub m = m.hdr.id :: m.hdr.flags :: (lenBytes m.hdr.flags m.hdr.length ++ m.payload) := by
  simp [encodeSub, lenBytes]

theorem lenBytes_length (f : UInt8) (v : UInt16) : ∃ x y, lenBytes f v = [x, y] := by
  unfold lenBytes; split
  · exact ⟨_, _, rfl⟩
  · exact ⟨_, _, rfl⟩

/-! ### the sub-message loop -/

theorem SubsWF_cons {m : SubMsg} {ms : List SubMsg} (h1 : SubOk m) (h2 : SubsWF ms) :
    SubsWF (m :: ms) := by
  cases ms with
  | nil => exact Or.inl h1
  | cons m' t => exact ⟨h1, h2⟩

theorem SubsWF_tail {m : SubMsg} {ms : List SubMsg} (h : SubsWF (m :: ms)) : SubsWF ms := by
  cases ms with
  | nil => trivial
  | cons m' t => exact h.2

theorem drop4_shape {l : Bytes} (h : ¬ l.length < 4) : ∃ a f x y r, l = a :: f :: x :: y :: r := by
  match l, h with
  | a :: f :: x :: y :: r, _ => exact ⟨a, f, x, y, r, rfl⟩
  | [], h => simp at h
  | [_], h => simp at h
  | [_, _], h => simp at h
  | [_, _, _], h => simp at h

theorem loopP_at_end (fuel : Nat) (s : Bytes) : loopP (fuel + 1) s s.length = (.ok [], s.length) := by
  simp [loopP, remaining]

/-- Soundness of the loop: whatever it returns re-encodes to the unread input, is well-formed,
    and the whole buffer has been consumed. -/
theorem loopP_sound (fuel : Nat) (s : Bytes) : ∀ (i : Nat) (ms : List SubMsg) (c : Nat),
    i ≤ s.length → loopP fuel s i = (.ok ms, c) →
    s.drop i = ms.flatMap encodeSub ∧ SubsWF ms ∧ c = s.length := by
  induction fuel with
  | zero => intro i ms c _ h; simp [loopP] at h
  | succ fuel ih =>
    intro i ms c hi h
    unfold loopP at h
    rw [remaining_ok hi] at h
    cases hr : s.length - i with
    | zero =>
      simp only [hr] at h
      obtain ⟨rfl, rfl⟩ : [] = ms ∧ i = c := by simpa using h
      have : s.drop i = [] := List.drop_of_length_le (by omega)
      exact ⟨by simpa using this, trivial, by omega⟩
    | succ n =>
      simp only [hr] at h
      by_cases hs : (s.drop i).length < 4
      · rw [subMsgP_short hs] at h; simp at h
      · obtain ⟨a, f, x, y, r, hd⟩ := drop4_shape hs
        have hlen : s.length = i + (r.length + 4) := by simpa using length_of_drop_eq hd hi
        rw [subMsgP_cons4 hd] at h
        by_cases hv : val16 (msgEndian f) x y = 0
        · -- zero length: payload is the rest of the buffer, the loop must stop
          simp only [hv, if_true] at h
          cases fuel with
          | zero => simp [loopP] at h
          | succ fuel' =>
            rw [loopP_at_end] at h
            obtain ⟨rfl, rfl⟩ : [⟨⟨a, f, 0⟩, r⟩] = ms ∧ s.length = c := by simpa using h
            refine ⟨?_, Or.inr rfl, rfl⟩
            have := lenBytes_val16 f x y
            rw [hv] at this
            simp [hd, encodeSub_eq, this]
        · simp only [hv, if_false] at h
          by_cases hp : r.length < (val16 (msgEndian f) x y).toNat
          · simp [hp] at h
          · simp only [hp, if_false] at h
            have hj : i + 4 + (val16 (msgEndian f) x y).toNat ≤ s.length := by omega
            cases hl : loopP fuel s (i + 4 + (val16 (msgEndian f) x y).toNat) with
            | mk res c' =>
              rw [hl] at h
              cases res with
              | err k => simp at h
              | panic st => simp at h
              | ok ms' =>
                obtain ⟨rfl, rfl⟩ : ⟨⟨a, f, val16 (msgEndian f) x y⟩, r.take (val16 (msgEndian f) x y).toNat⟩ :: ms' = ms ∧ c' = c := by
                  simpa using h
                obtain ⟨hd', hwf, hc⟩ := ih _ _ _ hj hl
                refine ⟨?_, SubsWF_cons ⟨?_, hv⟩ hwf, hc⟩
                · have e : s.drop (i + 4 + (val16 (msgEndian f) x y).toNat) = r.drop (val16 (msgEndian f) x y).toNat := by
                    have := drop_add_of_eq hd (4 + (val16 (msgEndian f) x y).toNat)
                    rw [← Nat.add_assoc] at this
                    rw [this, Nat.add_comm 4]; rfl
                  rw [List.flatMap_cons, ← hd', e, hd, encodeSub_eq]
                  simp [lenBytes_val16]
                · simp [List.length_take]; omega

theorem SubsWF_cases {m : SubMsg} {ms : List SubMsg} (h : SubsWF (m :: ms)) :
    (SubOk m ∧ SubsWF ms) ∨ (m.hdr.length = 0 ∧ ms = []) := by
  cases ms with
  | nil =>
    cases h with
    | inl h => exact Or.inl ⟨h, trivial⟩
    | inr h => exact Or.inr ⟨h, rfl⟩
  | cons m' t => exact Or.inl h

theorem encodeSub_length (m : SubMsg) : (encodeSub m).length = 4 + m.payload.length := by
  obtain ⟨x, y, h⟩ := lenBytes_length m.hdr.flags m.hdr.length
  rw [encodeSub_eq, h]; simp; omega

theorem length_le_flatMap (ms : List SubMsg) : ms.length ≤ (ms.flatMap encodeSub).length := by
  induction ms with
  | nil => simp
  | cons m t ih => rw [List.flatMap_cons, List.length_append, encodeSub_length, List.length_cons]; omega

/-- Completeness of the loop: on the encoding of a well-formed sub-message list it returns that list. -/
theorem loopP_complete (ms : List SubMsg) : ∀ (fuel : Nat) (s : Bytes) (i : Nat),
    SubsWF ms → i ≤ s.length → s.drop i = ms.flatMap encodeSub → ms.length < fuel →
    loopP fuel s i = (.ok ms, s.length) := by
  induction ms with
  | nil =>
    intro fuel s i _ hi hd hf
    have hl := length_of_drop_eq hd hi
    have : i = s.length := by simpa using hl.symm
    subst this
    cases fuel with
    | zero => simp at hf
    | succ f => exact loopP_at_end f s
  | cons m t ih =>
    intro fuel s i hwf hi hd hf
    cases fuel with
    | zero => simp at hf
    | succ f =>
      obtain ⟨x, y, hxy⟩ := lenBytes_length m.hdr.flags m.hdr.length
      have hv : val16 (msgEndian m.hdr.flags) x y = m.hdr.length := val16_of_lenBytes hxy
      have hd' : s.drop i = m.hdr.id :: m.hdr.flags :: x :: y :: (m.payload ++ t.flatMap encodeSub) := by
        rw [hd, List.flatMap_cons, encodeSub_eq, hxy]; simp
      have hlen : s.length = i + ((m.payload ++ t.flatMap encodeSub).length + 4) := by
        simpa using length_of_drop_eq hd' hi
      unfold loopP
      rw [remaining_ok hi]
      have hr : s.length - i = ((m.payload ++ t.flatMap encodeSub).length + 3) + 1 := by omega
      rw [hr]; simp only []
      rw [subMsgP_cons4 hd', hv]
      rcases SubsWF_cases hwf with ⟨⟨hl, hnz⟩, hwt⟩ | ⟨hz, rfl⟩
      · -- length field = payload size ≠ 0
        simp only [hnz, if_false]
        have hp : ¬ (m.payload ++ t.flatMap encodeSub).length < m.hdr.length.toNat := by
          rw [List.length_append, hl]; omega
        simp only [hp, if_false]
        have hj : i + 4 + m.hdr.length.toNat ≤ s.length := by
          rw [hlen, List.length_append, hl]; omega
        have hdj : s.drop (i + 4 + m.hdr.length.toNat) = t.flatMap encodeSub := by
          have := drop_add_of_eq hd' (4 + m.hdr.length.toNat)
          rw [← Nat.add_assoc] at this
          rw [this, Nat.add_comm 4]
          show List.drop m.hdr.length.toNat (m.payload ++ t.flatMap encodeSub) = _
          rw [hl]; simp
        have := ih f s _ hwt hj hdj (by simp at hf; omega)
        rw [this]
        have ht : List.take m.hdr.length.toNat (m.payload ++ t.flatMap encodeSub) = m.payload := by
          rw [hl]; simp
        rw [ht]
      · -- zero length field in last position
        simp only [hz, if_true]
        cases f with
        | zero => simp at hf
        | succ f' =>
          rw [loopP_at_end]
          simp [← hz]

/-- The loop never reaches a panic (neither a buffer assert nor `out-of-fuel`) when started inside
    the buffer with fuel exceeding the number of unread bytes. -/
theorem loopP_no_panic (fuel : Nat) (s : Bytes) : ∀ (i : Nat),
    i ≤ s.length → s.length - i < fuel → (loopP fuel s i).1.isPanic = false := by
  induction fuel with
  | zero => intro i _ hf; omega
  | succ fuel ih =>
    intro i hi hf
    unfold loopP
    rw [remaining_ok hi]
    cases hr : s.length - i with
    | zero => rfl
    | succ n =>
      simp only []
      by_cases hs : (s.drop i).length < 4
      · rw [subMsgP_short hs]; rfl
      · obtain ⟨a, f, x, y, r, hd⟩ := drop4_shape hs
        have hlen : s.length = i + (r.length + 4) := by simpa using length_of_drop_eq hd hi
        rw [subMsgP_cons4 hd]
        by_cases hv : val16 (msgEndian f) x y = 0
        · simp only [hv, if_true]
          cases fuel with
          | zero => omega
          | succ fuel' => rw [loopP_at_end]; rfl
        · simp only [hv, if_false]
          by_cases hp : r.length < (val16 (msgEndian f) x y).toNat
          · simp only [hp, if_true]; rfl
          · simp only [hp, if_false]
            have := ih (i + 4 + (val16 (msgEndian f) x y).toNat) (by omega) (by omega)
            cases hl : loopP fuel s (i + 4 + (val16 (msgEndian f) x y).toNat) with
            | mk res c' =>
              rw [hl] at this
              cases res with
              | ok ms' => rfl
              | err k => rfl
              | panic st => simp [Res.isPanic] at this

/-- `loopP_fuel_sufficient`: any two amounts of fuel exceeding the number of unread bytes give the
    same result — in particular the `|s| - i + 1` that `packetP` passes is enough, and more changes nothing. -/
theorem loopP_fuel_sufficient (fuel : Nat) (s : Bytes) : ∀ (i fuel' : Nat),
    i ≤ s.length → s.length - i < fuel → s.length - i < fuel' → loopP fuel s i = loopP fuel' s i := by
  induction fuel with
  | zero => intro i _ _ hf; omega
  | succ fuel ih =>
    intro i fuel' hi hf hf'
    cases fuel' with
    | zero => omega
    | succ fuel' =>
      unfold loopP
      rw [remaining_ok hi]
      cases hr : s.length - i with
      | zero => rfl
      | succ n =>
        simp only []
        by_cases hs : (s.drop i).length < 4
        · rw [subMsgP_short hs]
        · obtain ⟨a, f, x, y, r, hd⟩ := drop4_shape hs
          have hlen : s.length = i + (r.length + 4) := by simpa using length_of_drop_eq hd hi
          rw [subMsgP_cons4 hd]
          by_cases hv : val16 (msgEndian f) x y = 0
          · simp only [hv, if_true]
            cases fuel with
            | zero => omega
            | succ f1 =>
              cases fuel' with
              | zero => omega
              | succ f2 => rw [loopP_at_end, loopP_at_end]
          · simp only [hv, if_false]
            by_cases hp : r.length < (val16 (msgEndian f) x y).toNat
            · simp only [hp, if_true]
            · simp only [hp, if_false]
              rw [ih (i + 4 + (val16 (msgEndian f) x y).toNat) fuel' (by omega) (by omega) (by omega)]

/-! ### the packet parser -/

theorem u16le_comb16 (a b : UInt8) : u16le (comb16 b a) = [a, b] := by
  simp [u16le, comb16_hi, comb16_lo]

/-- `PacketP::parse` from any cursor inside the buffer: a returned packet is well-formed, re-encodes
    to exactly the unread bytes, spans them, and leaves the cursor at the end of the buffer. -/
theorem packetP_sound {s : Bytes} {i : Nat} (hi : i ≤ s.length) {p : Located Packet} {c : Nat}
    (h : packetP s i = (.ok p, c)) :
    encode p.val = s.drop i ∧ WF p.val ∧ c = s.length ∧ p.start = i ∧ p.stop = s.length := by
  unfold packetP at h
  rcases headerP_cases hi with ⟨k, hk⟩ | ⟨v0, v1, w0, w1, g, hd, hg⟩
  · rw [hk] at h; simp at h
  · rw [headerP_shape hd] at h
    have hg' : ¬ g.length < 12 := by omega
    simp only [hg', if_false] at h
    have hlen : s.length = i + (g.length + 8) := by simpa using length_of_drop_eq hd hi
    have h20 : s.drop (i + 20) = g.drop 12 := by
      rw [drop_add_of_eq hd 20]; rfl
    cases hl : loopP (s.length - (i + 20) + 1) s (i + 20) with
    | mk res j =>
      rw [hl] at h
      cases res with
      | err k => simp at h
      | panic st => simp at h
      | ok ms =>
        obtain ⟨rfl, rfl⟩ : (⟨⟨⟨comb16 v1 v0, comb16 w1 w0, g.take 12⟩, ms⟩, i, j⟩ : Located Packet) = p ∧ j = c := by
          simpa using h
        obtain ⟨hdj, hwf, hj⟩ := loopP_sound _ s _ _ _ (by omega) hl
        refine ⟨?_, ⟨by simp; omega, hwf⟩, hj, rfl, hj⟩
        rw [hd]
        simp only [encode, encodeHdr, RtpsSpec.magic, u16le_comb16, ← hdj, h20]
        simp [List.take_append_drop]

/-- Conversely, on the encoding of a well-formed packet it returns that packet. -/
theorem packetP_complete {s : Bytes} {i : Nat} (hi : i ≤ s.length) {p : Packet}
    (hwf : WF p) (hd : s.drop i = encode p) :
    packetP s i = (.ok ⟨p, i, s.length⟩, s.length) := by
  obtain ⟨hdr, ms⟩ := p
  obtain ⟨ver, ven, pre⟩ := hdr
  obtain ⟨hpre, hms⟩ := hwf
  simp only at hpre hms
  have hd' : s.drop i = 0x52 :: 0x54 :: 0x50 :: 0x53 ::
      UInt8.ofNat (ver.toNat % 256) :: UInt8.ofNat (ver.toNat / 256) ::
      UInt8.ofNat (ven.toNat % 256) :: UInt8.ofNat (ven.toNat / 256) :: (pre ++ ms.flatMap encodeSub) := by
    rw [hd]; simp [encode, encodeHdr, RtpsSpec.magic, u16le]
  have hlen : s.length = i + ((pre ++ ms.flatMap encodeSub).length + 8) := by
    simpa using length_of_drop_eq hd' hi
  have h20 : s.drop (i + 20) = ms.flatMap encodeSub := by
    rw [drop_add_of_eq hd' 20]
    show List.drop 12 (pre ++ ms.flatMap encodeSub) = _
    rw [← hpre]; simp
  unfold packetP
  rw [headerP_shape hd']
  have hg : ¬ (pre ++ ms.flatMap encodeSub).length < 12 := by rw [List.length_append]; omega
  simp only [hg, if_false]
  have hl := length_le_flatMap ms
  have hfl : s.length - (i + 20) = (ms.flatMap encodeSub).length := by
    rw [hlen, List.length_append, hpre]; omega
  rw [loopP_complete ms _ s (i + 20) hms (by rw [List.length_append] at hlen; omega) h20 (by omega)]
  have ht : List.take 12 (pre ++ ms.flatMap encodeSub) = pre := by rw [← hpre]; simp
  simp only [comb16_split, ht]

theorem packetP_no_panic {s : Bytes} {i : Nat} (hi : i ≤ s.length) : (packetP s i).1.isPanic = false := by
  unfold packetP
  rcases headerP_cases hi with ⟨k, hk⟩ | ⟨v0, v1, w0, w1, g, hd, hg⟩
  · rw [hk]; rfl
  · rw [headerP_shape hd]
    have hg' : ¬ g.length < 12 := by omega
    simp only [hg', if_false]
    have hlen : s.length = i + (g.length + 8) := by simpa using length_of_drop_eq hd hi
    have := loopP_no_panic (s.length - (i + 20) + 1) s (i + 20) (by omega) (by omega)
    cases hl : loopP (s.length - (i + 20) + 1) s (i + 20) with
    | mk res j =>
      rw [hl] at this
      cases res with
      | ok ms => rfl
      | err k => rfl
      | panic st => simp [Res.isPanic] at this

/-! ## The property theorems -/

/-- **C20, first half (decode then encode).**  For every datagram `bs`: if the reader returns a
    packet, re-encoding that packet (magic, version, vendor, prefix; per sub-message kind, flags,
    length in the byte order selected by bit 0 of the flags, payload) gives back `bs` byte for byte. -/
theorem decode_then_encode (bs : Bytes) (p : Packet) (h : decode bs = .ok p) : encode p = bs := by
  unfold decode at h
  cases hp : packetP bs 0 with
  | mk res c =>
    rw [hp] at h
    cases res with
    | err k => simp at h
    | panic st => simp at h
    | ok lp =>
      obtain rfl : lp.val = p := by simpa using h
      simpa using (packetP_sound (Nat.zero_le _) hp).1

/-- Every packet the reader returns is well-formed: 12-byte prefix; each length field equals its
    payload size, except that a zero length field may (only) stand last, its payload extending to the
    end of the datagram. -/
theorem decode_wf (bs : Bytes) (p : Packet) (h : decode bs = .ok p) : WF p := by
  unfold decode at h
  cases hp : packetP bs 0 with
  | mk res c =>
    rw [hp] at h
    cases res with
    | err k => simp at h
    | panic st => simp at h
    | ok lp =>
      obtain rfl : lp.val = p := by simpa using h
      exact (packetP_sound (Nat.zero_le _) hp).2.1

/-- **C20, second half (encode then decode).**  For every well-formed packet value, decoding its
    encoding returns that packet. -/
theorem encode_then_decode (p : Packet) (h : WF p) : decode (encode p) = .ok p := by
  unfold decode
  rw [packetP_complete (Nat.zero_le _) h (by simp)]

/-- **C20, totality.**  The reader never panics: none of `remaining()`'s / `set_cursor_unsafe`'s
    asserts, the slice in `exact`, nor the loop's fuel bound is reachable, for any datagram. -/
theorem decode_total (bs : Bytes) : ∀ site, decode bs ≠ .panic site := by
  intro site h
  have := packetP_no_panic (s := bs) (i := 0) (Nat.zero_le _)
  unfold decode at h
  cases hp : (packetP bs 0).1 with
  | ok lp => rw [hp] at h; simp at h
  | err k => rw [hp] at h; simp at h
  | panic st => rw [hp] at this; simp [Res.isPanic] at this

/-- Both halves as one characterisation: the reader accepts exactly the encodings of well-formed
    packets and returns exactly the packet encoded. -/
theorem decode_ok_iff (bs : Bytes) (p : Packet) : decode bs = .ok p ↔ WF p ∧ encode p = bs :=
  ⟨fun h => ⟨decode_wf bs p h, decode_then_encode bs p h⟩, fun ⟨hw, he⟩ => he ▸ encode_then_decode p hw⟩

/-- … hence it fails (with an error, not a panic) exactly on the byte strings that are not such an encoding. -/
theorem decode_err_iff (bs : Bytes) : (∃ k, decode bs = .err k) ↔ ¬ ∃ p, WF p ∧ encode p = bs := by
  constructor
  · rintro ⟨k, hk⟩ ⟨p, hw, he⟩
    rw [(decode_ok_iff bs p).mpr ⟨hw, he⟩] at hk; cases hk
  · intro hn
    cases hd : decode bs with
    | ok p => exact absurd ⟨p, (decode_ok_iff bs p).mp hd⟩ hn
    | err k => exact ⟨k, rfl⟩
    | panic st => exact absurd hd (decode_total bs st)

/-- The encoder is injective on well-formed packets (no two packets share a datagram). -/
theorem encode_injective (p q : Packet) (hp : WF p) (hq : WF q) (h : encode p = encode q) : p = q := by
  have h1 := encode_then_decode p hp
  have h2 := encode_then_decode q hq
  rw [h] at h1; rw [h1] at h2; cases h2; rfl

/-- A successful read consumes the whole datagram and its span is the whole datagram – so the outer
    loop of `src/bin/rtps_parse.rs` (`while pb.remaining() != 0 { PacketP.parse }`) runs at most once
    successfully per datagram. -/
theorem decode_consumes_datagram (bs : Bytes) (lp : Located Packet) (c : Nat)
    (h : packetP bs 0 = (.ok lp, c)) : c = bs.length ∧ lp.start = 0 ∧ lp.stop = bs.length :=
  (packetP_sound (Nat.zero_le _) h).2.2

/-- The fuel `packetP` gives its loop is sufficient: the loop's result is the same for every larger
    amount, and is never `out-of-fuel` (that is part of `decode_total`). -/
theorem decode_fuel_sufficient (s : Bytes) (i extra : Nat) (hi : i ≤ s.length) :
    loopP (s.length - i + 1 + extra) s i = loopP (s.length - i + 1) s i :=
  loopP_fuel_sufficient _ s i _ hi (by omega) (by omega)

/-! ### the reference decoder used by the oracle is the inverse of `encode` on `WF` -/

theorem valU16_eq (f x y : UInt8) : valU16 (isLittle f) x y = val16 (msgEndian f) x y := by
  rw [msgEndian_eq]
  have hx := x.toNat_lt; have hy := y.toNat_lt
  cases hl : isLittle f <;>
    simp only [valU16, val16, if_true, if_false, Bool.false_eq_true] <;>
    rw [← UInt16.toNat_inj, C19.comb16_val, UInt16.toNat_ofNat'] <;> omega

theorem splitSubs_sound (fuel : Nat) : ∀ (r : Bytes) (ms : List SubMsg),
    splitSubs fuel r = some ms → ms.flatMap encodeSub = r ∧ SubsWF ms := by
  induction fuel with
  | zero =>
    intro r ms h
    cases r with
    | nil => simp [splitSubs] at h; subst h; exact ⟨rfl, trivial⟩
    | cons a t => simp [splitSubs] at h
  | succ fuel ih =>
    intro r ms h
    rcases r with _ | ⟨a, _ | ⟨f, _ | ⟨x, _ | ⟨y, r'⟩⟩⟩⟩
    · simp [splitSubs] at h; subst h; exact ⟨rfl, trivial⟩
    · simp [splitSubs] at h
    · simp [splitSubs] at h
    · simp [splitSubs] at h
    · simp only [splitSubs, valU16_eq] at h
      by_cases hv : val16 (msgEndian f) x y = 0
      · simp only [hv, if_true, Option.some.injEq] at h
        subst h
        have := lenBytes_val16 f x y
        rw [hv] at this
        exact ⟨by simp [encodeSub_eq, this], Or.inr rfl⟩
      · simp only [hv, if_false] at h
        by_cases hp : r'.length < (val16 (msgEndian f) x y).toNat
        · simp [hp] at h
        · simp only [hp, if_false, Option.map_eq_some_iff] at h
          obtain ⟨ms', hms', rfl⟩ := h
          obtain ⟨he, hw⟩ := ih _ _ hms'
          refine ⟨?_, SubsWF_cons ⟨?_, hv⟩ hw⟩
          · rw [List.flatMap_cons, he, encodeSub_eq]; simp [lenBytes_val16]
          · simp [List.length_take]; omega

theorem splitSubs_complete (ms : List SubMsg) : ∀ (fuel : Nat),
    SubsWF ms → (ms.flatMap encodeSub).length ≤ fuel → splitSubs fuel (ms.flatMap encodeSub) = some ms := by
  induction ms with
  | nil => intro fuel _ _; cases fuel <;> simp [splitSubs]
  | cons m t ih =>
    intro fuel hwf hf
    obtain ⟨x, y, hxy⟩ := lenBytes_length m.hdr.flags m.hdr.length
    have hv : val16 (msgEndian m.hdr.flags) x y = m.hdr.length := val16_of_lenBytes hxy
    have hshape : (m :: t).flatMap encodeSub =
        m.hdr.id :: m.hdr.flags :: x :: y :: (m.payload ++ t.flatMap encodeSub) := by
      rw [List.flatMap_cons, encodeSub_eq, hxy]; simp
    rw [hshape] at hf ⊢
    cases fuel with
    | zero => simp at hf
    | succ fuel =>
      simp only [splitSubs, valU16_eq, hv]
      rcases SubsWF_cases hwf with ⟨⟨hl, hnz⟩, hwt⟩ | ⟨hz, rfl⟩
      · have hp : ¬ (m.payload ++ t.flatMap encodeSub).length < m.hdr.length.toNat := by
          rw [List.length_append, hl]; omega
        simp only [hnz, hp, if_false]
        have hdrop : List.drop m.hdr.length.toNat (m.payload ++ t.flatMap encodeSub) = t.flatMap encodeSub := by
          rw [hl]; simp
        have htake : List.take m.hdr.length.toNat (m.payload ++ t.flatMap encodeSub) = m.payload := by
          rw [hl]; simp
        rw [hdrop, htake, ih fuel hwt (by simp only [List.length_cons, List.length_append] at hf; omega)]
        rfl
      · obtain ⟨⟨id, fl, len⟩, pl⟩ := m
        simp only at hz
        subst hz
        simp

/-- The oracle's reference decoder accepts exactly the encodings of well-formed packets. -/
theorem refDecode_iff (bs : Bytes) (p : Packet) : refDecode bs = some p ↔ WF p ∧ encode p = bs := by
  constructor
  · intro h
    unfold refDecode at h
    split at h
    · rename_i v0 v1 w0 w1 r
      by_cases hr : r.length < 12
      · simp [hr] at h
      · simp only [hr, if_false, Option.map_eq_some_iff] at h
        obtain ⟨ms, hms, rfl⟩ := h
        obtain ⟨he, hw⟩ := splitSubs_sound _ _ _ hms
        refine ⟨⟨by simp; omega, hw⟩, ?_⟩
        have e1 : valU16 true v0 v1 = comb16 v1 v0 := by
          have := valU16_eq 1 v0 v1; simpa [isLittle, msgEndian, val16] using this
        have e2 : valU16 true w0 w1 = comb16 w1 w0 := by
          have := valU16_eq 1 w0 w1; simpa [isLittle, msgEndian, val16] using this
        simp only [encode, encodeHdr, RtpsSpec.magic, e1, e2, u16le_comb16, he]
        simp [List.take_append_drop]
    · cases h
  · rintro ⟨⟨hpre, hms⟩, rfl⟩
    obtain ⟨⟨ver, ven, pre⟩, ms⟩ := p
    simp only at hpre hms
    have hshape : encode ⟨⟨ver, ven, pre⟩, ms⟩ = 0x52 :: 0x54 :: 0x50 :: 0x53 ::
        UInt8.ofNat (ver.toNat % 256) :: UInt8.ofNat (ver.toNat / 256) ::
        UInt8.ofNat (ven.toNat % 256) :: UInt8.ofNat (ven.toNat / 256) :: (pre ++ ms.flatMap encodeSub) := by
      simp [encode, encodeHdr, RtpsSpec.magic, u16le]
    rw [hshape]
    unfold refDecode
    have hg : ¬ (pre ++ ms.flatMap encodeSub).length < 12 := by rw [List.length_append]; omega
    have hdrop : List.drop 12 (pre ++ ms.flatMap encodeSub) = ms.flatMap encodeSub := by rw [← hpre]; simp
    have htake : List.take 12 (pre ++ ms.flatMap encodeSub) = pre := by rw [← hpre]; simp
    have e1 : ∀ v : UInt16, valU16 true (UInt8.ofNat (v.toNat % 256)) (UInt8.ofNat (v.toNat / 256)) = v := by
      intro v
      have := valU16_eq 1 (UInt8.ofNat (v.toNat % 256)) (UInt8.ofNat (v.toNat / 256))
      simp only [isLittle, msgEndian, val16] at this
      simpa [comb16_split] using this
    simp only [hg, if_false, hdrop, htake, e1]
    rw [splitSubs_complete ms _ hms (by rw [List.length_append]; omega)]
    rfl

/-- … so it agrees with the model of the reader on every datagram. -/
theorem refDecode_agrees (bs : Bytes) (p : Packet) : refDecode bs = some p ↔ decode bs = .ok p := by
  rw [refDecode_iff, decode_ok_iff]

/-! ### non-vacuity -/

/-- a two-sub-message packet: little-endian length 3, then big-endian zero length with 2 payload bytes -/
def samplePacket : Packet :=
  ⟨⟨0x0302, 0x0f01, [1, 2, 3, 4, 5, 6, 7, 8, 9, 10, 11, 12]⟩,
   [⟨⟨0x15, 0x01, 3⟩, [0xaa, 0xbb, 0xcc]⟩, ⟨⟨0x07, 0x02, 0⟩, [0xde, 0xad]⟩]⟩

def sampleBytes : Bytes :=
  [0x52, 0x54, 0x50, 0x53, 0x02, 0x03, 0x01, 0x0f, 1, 2, 3, 4, 5, 6, 7, 8, 9, 10, 11, 12,
   0x15, 0x01, 0x03, 0x00, 0xaa, 0xbb, 0xcc, 0x07, 0x02, 0x00, 0x00, 0xde, 0xad]

/-- `WF` is satisfiable by a non-trivial packet, and `encode` is what we think it is. -/
example : WF samplePacket ∧ encode samplePacket = sampleBytes := by decide
/-- hypothesis of `decode_then_encode` is satisfiable: the reader accepts `sampleBytes`. -/
example : decode sampleBytes = .ok samplePacket := by decide
/-- the same length bytes `03 00` under flags bit 0 = 0 mean 768: the reader rejects (error, not panic). -/
example : decode (sampleBytes.set 21 0x00) = .err .eob := by decide
/-- bad magic and truncated header are errors -/
example : decode (sampleBytes.set 3 0x54) = .err .guard ∧ decode (sampleBytes.take 19) = .err .eob := by decide
/-- a packet that is NOT well-formed (zero length field before another sub-message) does not round-trip:
    the hypothesis `WF` of `encode_then_decode` cannot be dropped. -/
example : let q : Packet := ⟨samplePacket.hdr, [⟨⟨0x07, 0x02, 0⟩, []⟩, ⟨⟨0x15, 0x01, 1⟩, [0x99]⟩]⟩
    ¬ WF q ∧ decode (encode q) ≠ .ok q := by decide

end Parsley.C20
