/-
  C20 — the linear-time evaluation of the model used by the correspondence driver on very large
  datagrams (Model/RtpsFast.lean) IS the model: `packetFast s = packetP s 0` for every byte string.
  Leaf module (nothing imports it); core Lean only.
-/
import Parsley.Props.C20
import Parsley.Model.RtpsFast
namespace Parsley.C20
open Parsley Parsley.Bin Parsley.Rtps Parsley.RtpsSpec

theorem lenField_eq (f x y : UInt8) : lenField f x y = val16 (msgEndian f) x y := by
  unfold lenField val16
  cases msgEndian f <;> rfl

/-- The loop on the unread input is the loop on buffer and cursor: same value, same cursor, same exits
    (including the fuel bound), for every amount of fuel and every cursor inside the buffer. -/
theorem loopF_eq (fuel : Nat) (s : Bytes) : ∀ (i : Nat), i ≤ s.length →
    loopF s.length fuel (s.drop i) i = loopP fuel s i := by
  induction fuel with
  | zero => intro i _; simp [loopF, loopP]
  | succ fuel ih =>
    intro i hi
    unfold loopP
    rw [remaining_ok hi]
    cases hr : s.length - i with
    | zero =>
      have : s.drop i = [] := List.drop_of_length_le (by omega)
      rw [this]; simp [loopF]
    | succ n =>
      simp only []
      by_cases hs : (s.drop i).length < 4
      · rw [subMsgP_short hs]
        have hne : (s.drop i).length = n + 1 := by simp; omega
        match hd : s.drop i, hs, hne with
        | [], _, hne => simp at hne
        | [_], _, _ => simp [loopF]
        | [_, _], _, _ => simp [loopF]
        | [_, _, _], _, _ => simp [loopF]
        | _ :: _ :: _ :: _ :: _, hs, _ => simp only [List.length_cons] at hs; omega
      · obtain ⟨a, f, x, y, r, hd⟩ := drop4_shape hs
        have hlen : s.length = i + (r.length + 4) := by simpa using length_of_drop_eq hd hi
        rw [subMsgP_cons4 hd, hd]
        unfold loopF
        simp only [lenField_eq]
        by_cases hv : val16 (msgEndian f) x y = 0
        · simp only [hv, if_true]
          cases fuel with
          | zero => simp [loopP]
          | succ fuel' => rw [loopP_at_end]
        · simp only [hv, if_false]
          have e1 : s.length - (i + 4) = r.length := by omega
          rw [e1]
          by_cases hp : r.length < (val16 (msgEndian f) x y).toNat
          · simp only [hp, if_true]
          · simp only [hp, if_false]
            have hj : i + 4 + (val16 (msgEndian f) x y).toNat ≤ s.length := by omega
            have e : s.drop (i + 4 + (val16 (msgEndian f) x y).toNat) = r.drop (val16 (msgEndian f) x y).toNat := by
              have := drop_add_of_eq hd (4 + (val16 (msgEndian f) x y).toNat)
              rw [← Nat.add_assoc] at this
              rw [this, Nat.add_comm 4]; rfl
            rw [← e, ih _ hj]
            cases hl : loopP fuel s (i + 4 + (val16 (msgEndian f) x y).toNat) with
            | mk res c' => cases res <;> rfl

/-- `packetFast` is the model of `PacketP::parse` on a fresh buffer. -/
theorem packetFast_eq (s : Bytes) : packetFast s = packetP s 0 := by
  unfold packetFast packetP
  rcases headerP_cases (s := s) (i := 0) (Nat.zero_le _) with ⟨k, hk⟩ | ⟨v0, v1, w0, w1, g, hd, hg⟩
  · rw [hk]
  · have hlen : s.length = 0 + (g.length + 8) := by simpa using length_of_drop_eq hd (Nat.zero_le _)
    rw [headerP_shape hd]
    have : ¬ g.length < 12 := by omega
    simp only [this, if_false]
    rw [loopF_eq _ _ _ (by omega)]
    cases hl : loopP (s.length - (0 + 20) + 1) s (0 + 20) with
    | mk res c' => cases res <;> rfl

/-- non-vacuity / sanity: a two-sub-message datagram (both byte orders, zero-length tail) through both -/
example : packetFast (encode ⟨⟨0x0302, 0x0f01, [1,2,3,4,5,6,7,8,9,10,11,12]⟩,
      [⟨⟨0x15, 1, 2⟩, [7, 8]⟩, ⟨⟨0x09, 0, 0⟩, [9]⟩]⟩)
    = (.ok ⟨⟨⟨0x0302, 0x0f01, [1,2,3,4,5,6,7,8,9,10,11,12]⟩,
      [⟨⟨0x15, 1, 2⟩, [7, 8]⟩, ⟨⟨0x09, 0, 0⟩, [9]⟩]⟩, 0, 31⟩, 31) := by decide

end Parsley.C20
