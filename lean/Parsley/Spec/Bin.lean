/-
  Declarative reading of C19: the value denoted by `w` bytes in a byte order.
-/
import Parsley.Base.Basic
namespace Parsley.BinSpec
open Parsley

/-- big-endian value of a byte list: Σ bᵢ · 256^(n-1-i) -/
def beVal : Bytes → Nat
  | [] => 0
  | b :: t => b.toNat * 256 ^ t.length + beVal t

/-- little-endian value: Σ bᵢ · 256^i -/
def leVal : Bytes → Nat
  | [] => 0
  | b :: t => b.toNat + 256 * leVal t

/-- two's-complement reading of an unsigned `bits`-bit value -/
def signed (bits : Nat) (n : Nat) : Int :=
  if n < 2 ^ (bits - 1) then (n : Int) else (n : Int) - (2 ^ bits : Nat)

/-- the window of `w` bytes under the cursor, if that many remain -/
def window (s : Bytes) (i w : Nat) : Option Bytes :=
  if i + w ≤ s.length then some ((s.drop i).take w) else none

end Parsley.BinSpec
