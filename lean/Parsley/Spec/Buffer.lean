/-
  C17 — declarative side: the *copy machine*.

  Vocabulary shared with the model (`Out`, `Meth`, `Op`: the method names and argument
  types of the Rust traits `ParseBufferT` / `StreamBufferT` and of the two view
  transformations), and the specification: every live buffer is a **private copy of its
  window** `win` with a window-relative cursor `cur`; there is no underlying storage, no
  `start` bias, no absolute offset.  `grp` only records which buffers were derived from
  which (it is what `Rc` sharing means at the level of the statement: `drop`/`append` must
  be refused while another live buffer of the same group exists).

  All operations are the obvious list functions on `win`.  Import-free (core only).
-/
import Parsley.Base.Basic
namespace Parsley.BufferSpec
open Parsley

/-- Observable return values of the buffer API (error *kind* lives in `Res`). -/
inductive Out where
  | unit
  | nat (n : Nat)
  | bool (b : Bool)
  | obyte (o : Option UInt8)
  | bytes (bs : Bytes)
  | created            -- a view transformation returned `Ok(view)`
  | noslot             -- harness-level: the addressed slot holds no live buffer
deriving DecidableEq, Repr, Inhabited

/-- The methods of `ParseBufferT` that work on one buffer without touching the storage. -/
inductive Meth where
  | size | remaining | getCursor | peek | buf
  | setCursor (k : Nat) | incr | decr | checkCursor (k : Nat)
  | setCursorU (k : Nat) | incrU | decrU
  | checkPrefix (t : Bytes) | allowed (t : Bytes) | until_ (t : Bytes)
  | scan (t : Bytes) | bscan (t : Bytes) | exact (t : Bytes) | extract (n : Nat)
deriving DecidableEq, Repr, Inhabited

/-- System operations: slots hold live buffers; `view`/`viewFrom`/`new` push a slot. -/
inductive Op where
  | new (bs : Bytes)                 -- `ParseBuffer::new(bs)` (fresh storage)
  | view (i s n : Nat)               -- `RestrictView::new(s,n).transform(&slot i)`
  | viewFrom (i s : Nat)             -- `RestrictViewFrom::new(s).transform(&slot i)`
  | release (i : Nat)                -- drop the buffer in slot i (Rc count goes down)
  | meth (i : Nat) (m : Meth)
  | drop (i n : Nat)                 -- `StreamBufferT::drop`
  | append (i : Nat) (bs : Bytes)    -- `StreamBufferT::append`
deriving DecidableEq, Repr, Inhabited

/-- A buffer as the statement sees it: a copy of the viewed bytes and a cursor into it. -/
structure AView where
  win : Bytes
  cur : Nat
  grp : Nat
deriving DecidableEq, Repr

structure ASys where
  ngrp : Nat
  views : List (Option AView)
deriving DecidableEq, Repr

/-- `ParseBufferT` on a private copy. -/
def arun (m : Meth) (a : AView) : Res Out × AView :=
  let rest := a.win.drop a.cur
  match m with
  | .size => (.ok (.nat a.win.length), a)
  | .remaining => (.ok (.nat (a.win.length - a.cur)), a)
  | .getCursor => (.ok (.nat a.cur), a)
  | .peek => (.ok (.obyte a.win[a.cur]?), a)
  | .buf => (.ok (.bytes rest), a)
  | .setCursor k =>
    if k ≤ a.win.length then (.ok .unit, { a with cur := k }) else (.err .eob, a)
  | .incr =>
    if a.cur < a.win.length then (.ok .unit, { a with cur := a.cur + 1 }) else (.err .eob, a)
  | .decr =>
    if 0 < a.cur then (.ok .unit, { a with cur := a.cur - 1 }) else (.err .eob, a)
  | .checkCursor k => (.ok (.bool (decide (k < a.win.length))), a)
  -- the `_unsafe` variants assert their bounds: out of range is a panic, on a copy too
  | .setCursorU k =>
    if k ≤ a.win.length then (.ok .unit, { a with cur := k }) else (.panic "assert", a)
  | .incrU =>
    if a.cur < a.win.length then (.ok .unit, { a with cur := a.cur + 1 }) else (.panic "assert", a)
  | .decrU =>
    if 0 < a.cur then (.ok .unit, { a with cur := a.cur - 1 }) else (.panic "assert", a)
  | .checkPrefix t => (.ok (.bool (t.isPrefixOf rest)), a)
  | .allowed t =>
    let r := rest.takeWhile (fun x => t.contains x)
    (.ok (.bytes r), { a with cur := a.cur + r.length })
  | .until_ t =>
    let r := rest.takeWhile (fun x => !t.contains x)
    (.ok (.bytes r), { a with cur := a.cur + r.length })
  -- least k ≥ 0 such that the tag is a prefix of the bytes k places after the cursor
  -- (`slice::windows(0)` panics: the empty tag is a panic on views and copies alike)
  | .scan t =>
    if t.length = 0 then (.panic "windows(0)", a) else
    match (List.range (rest.length + 1 - t.length)).find? (fun k => t.isPrefixOf (rest.drop k)) with
    | some k => (.ok (.nat k), { a with cur := a.cur + k })
    | none => (.err .eob, a)
  -- greatest j such that the tag occupies [j, j+|t|) entirely before the cursor
  | .bscan t =>
    if t.length = 0 then (.panic "windows(0)", a) else
    let before := a.win.take a.cur
    match (List.range (a.cur + 1 - t.length)).reverse.find? (fun j => t.isPrefixOf (before.drop j)) with
    | some j => (.ok (.nat (a.cur - j)), { a with cur := j })
    | none => (.err .eob, a)
  | .exact t =>
    if t.isPrefixOf rest then (.ok (.bool true), { a with cur := a.cur + t.length })
    else (.err .guard, a)
  | .extract n =>
    if a.win.length - a.cur < n then (.err .eob, a)
    else (.ok (.bytes (rest.take n)), { a with cur := a.cur + n })

/-- Number of live buffers of group `g` (what `Rc::strong_count` means for the statement). -/
def sharers (keys : List (Option Nat)) (g : Nat) : Nat :=
  (keys.filter (fun k => k == some g)).length

def ASys.keys (s : ASys) : List (Option Nat) := s.views.map (Option.map AView.grp)

def ASys.get (s : ASys) (i : Nat) : Option AView :=
  match s.views[i]? with
  | some (some a) => some a
  | _ => none

/-- One step of the copy machine.  The result and the state afterwards. -/
def astep (s : ASys) (op : Op) : Res Out × ASys :=
  match op with
  | .new bs => (.ok .created, { ngrp := s.ngrp + 1, views := s.views ++ [some ⟨bs, 0, s.ngrp⟩] })
  | .view i st n =>
    match s.get i with
    | none => (.ok .noslot, s)
    | some a =>
      if st + n ≤ a.win.length then
        (.ok .created, { s with views := s.views ++ [some ⟨(a.win.drop st).take n, 0, a.grp⟩] })
      else (.err .bounds, { s with views := s.views ++ [none] })
  | .viewFrom i st =>
    match s.get i with
    | none => (.ok .noslot, s)
    | some a =>
      if st < a.win.length then
        (.ok .created, { s with views := s.views ++ [some ⟨a.win.drop st, 0, a.grp⟩] })
      else (.err .bounds, { s with views := s.views ++ [none] })
  | .release i =>
    match s.get i with
    | none => (.ok .noslot, s)
    | some _ => (.ok .unit, { s with views := s.views.set i none })
  | .meth i m =>
    match s.get i with
    | none => (.ok .noslot, s)
    | some a =>
      let (r, a') := arun m a
      (r, { s with views := s.views.set i (some a') })
  | .drop i n =>
    match s.get i with
    | none => (.ok .noslot, s)
    | some a =>
      if sharers s.keys a.grp ≠ 1 then (.ok (.bool false), s)          -- shared: refused
      else if a.cur < n then (.ok (.bool false), s)                      -- would cross the cursor
      else (.ok (.bool true),
            { s with views := s.views.set i (some { a with win := a.win.drop n, cur := a.cur - n }) })
  | .append i bs =>
    match s.get i with
    | none => (.ok .noslot, s)
    | some a =>
      if sharers s.keys a.grp ≠ 1 then (.ok (.bool false), s)
      else (.ok (.bool true), { s with views := s.views.set i (some { a with win := a.win ++ bs }) })

/-- Run an operation sequence; a panic ends the run (the process state is gone). -/
def arunOps (s : ASys) : List Op → List (Res Out) × ASys
  | [] => ([], s)
  | op :: ops =>
    let r := astep s op
    if r.1.isPanic then ([r.1], r.2)
    else (r.1 :: (arunOps r.2 ops).1, (arunOps r.2 ops).2)

def ASys.init (bs : Bytes) : ASys := { ngrp := 1, views := [some ⟨bs, 0, 0⟩] }

end Parsley.BufferSpec
