/-
  Property C10, declarative side: the rules of the statement written DIRECTLY over page-tree documents,
  independently of the shipped specification (src/pdf_lib/catalog.rs ...) and of the checker.

  * `Doc`       a document catalog with a page tree of arbitrary shape and fan-out (`Node`: page, template,
                intermediate node with any list of kids) whose objects carry arbitrary object numbers, plus
                optional entries with well-typed values for EVERY entry the shipped page, template and catalog
                types declare (`PageOpts` + `PageExtra`, `CatOpts` + `CatExtra`): rectangles of four numbers,
                date strings, page-mode / page-layout / tab-order names, name and number trees, the name
                dictionary with its ten name trees, indirect dictionary / stream entries, strings, names,
                booleans, integers, numbers, arbitrary arrays, arbitrary dictionaries and streams (direct),
                arrays of dictionaries, /Contents (a stream or an array of streams), /Resources.
  * `render`    the object graph and the catalog dictionary of a document: required /Type, /Pages, /Count,
                /Kids; /Parent (a reference) on every non-root node and page, absent from the root and from
                templates; kids given as indirect references.
  * `Mutation`  ONE violation of those rules at ONE position: dropping a required key, adding a forbidden
                one, a value of the wrong type, an unlisted name, a kid embedded directly, a /Parent that is
                not a reference.  `Mutation.valid` says when the mutation really is a violation (the key is
                required there, the replacement value is ill-typed for that key, ...), `mutate` applies it.
  The expected verdict is: `render d` accepted for every `d` with `d.ok`; `mutate m d` rejected for every
  valid `m`.  Import-free (core + the object datatype of Model/TypeCheck.lean).
-/
import Parsley.Model.TypeCheck
namespace Parsley.CatalogRules
open Parsley
open Parsley.TC (Obj ObjL Graph)

/-! ### keys and names (ASCII) -/
def kType : Bytes := [0x54, 0x79, 0x70, 0x65]
def kPages : Bytes := [0x50, 0x61, 0x67, 0x65, 0x73]
def kCount : Bytes := [0x43, 0x6F, 0x75, 0x6E, 0x74]
def kKids : Bytes := [0x4B, 0x69, 0x64, 0x73]
def kParent : Bytes := [0x50, 0x61, 0x72, 0x65, 0x6E, 0x74]
def kMediaBox : Bytes := [0x4D, 0x65, 0x64, 0x69, 0x61, 0x42, 0x6F, 0x78]
def kCropBox : Bytes := [0x43, 0x72, 0x6F, 0x70, 0x42, 0x6F, 0x78]
def kLastModified : Bytes := [0x4C, 0x61, 0x73, 0x74, 0x4D, 0x6F, 0x64, 0x69, 0x66, 0x69, 0x65, 0x64]
def kRotate : Bytes := [0x52, 0x6F, 0x74, 0x61, 0x74, 0x65]
def kTabs : Bytes := [0x54, 0x61, 0x62, 0x73]
def kUserUnit : Bytes := [0x55, 0x73, 0x65, 0x72, 0x55, 0x6E, 0x69, 0x74]
def kID : Bytes := [0x49, 0x44]
def kAnnots : Bytes := [0x41, 0x6E, 0x6E, 0x6F, 0x74, 0x73]
def kVersion : Bytes := [0x56, 0x65, 0x72, 0x73, 0x69, 0x6F, 0x6E]
def kPageMode : Bytes := [0x50, 0x61, 0x67, 0x65, 0x4D, 0x6F, 0x64, 0x65]
def kPageLayout : Bytes := [0x50, 0x61, 0x67, 0x65, 0x4C, 0x61, 0x79, 0x6F, 0x75, 0x74]
def kLang : Bytes := [0x4C, 0x61, 0x6E, 0x67]
def kNeedsRendering : Bytes := [0x4E, 0x65, 0x65, 0x64, 0x73, 0x52, 0x65, 0x6E, 0x64, 0x65, 0x72, 0x69, 0x6E, 0x67]
def kPageLabels : Bytes := [0x50, 0x61, 0x67, 0x65, 0x4C, 0x61, 0x62, 0x65, 0x6C, 0x73]
def kNames : Bytes := [0x4E, 0x61, 0x6D, 0x65, 0x73]
def kDests : Bytes := [0x44, 0x65, 0x73, 0x74, 0x73]
def kEmbeddedFiles : Bytes := [0x45, 0x6D, 0x62, 0x65, 0x64, 0x64, 0x65, 0x64, 0x46, 0x69, 0x6C, 0x65, 0x73]
def kOutlines : Bytes := [0x4F, 0x75, 0x74, 0x6C, 0x69, 0x6E, 0x65, 0x73]
def kMetadata : Bytes := [0x4D, 0x65, 0x74, 0x61, 0x64, 0x61, 0x74, 0x61]
def kOpenAction : Bytes := [0x4F, 0x70, 0x65, 0x6E, 0x41, 0x63, 0x74, 0x69, 0x6F, 0x6E]
def kNums : Bytes := [0x4E, 0x75, 0x6D, 0x73]
def kLimits : Bytes := [0x4C, 0x69, 0x6D, 0x69, 0x74, 0x73]
/- the remaining keys of the shipped page, template, catalog, resources and name-dictionary types -/
def kAA : Bytes := [0x41, 0x41]
def kAF : Bytes := [0x41, 0x46]
def kAP : Bytes := [0x41, 0x50]
def kAcroForm : Bytes := [0x41, 0x63, 0x72, 0x6F, 0x46, 0x6F, 0x72, 0x6D]
def kAlternatePresentations : Bytes := [0x41, 0x6C, 0x74, 0x65, 0x72, 0x6E, 0x61, 0x74, 0x65, 0x50, 0x72, 0x65, 0x73, 0x65, 0x6E, 0x74, 0x61, 0x74, 0x69, 0x6F, 0x6E, 0x73]
def kArtBox : Bytes := [0x41, 0x72, 0x74, 0x42, 0x6F, 0x78]
def kB : Bytes := [0x42]
def kBleedBox : Bytes := [0x42, 0x6C, 0x65, 0x65, 0x64, 0x42, 0x6F, 0x78]
def kBoxColorInfo : Bytes := [0x42, 0x6F, 0x78, 0x43, 0x6F, 0x6C, 0x6F, 0x72, 0x49, 0x6E, 0x66, 0x6F]
def kCollection : Bytes := [0x43, 0x6F, 0x6C, 0x6C, 0x65, 0x63, 0x74, 0x69, 0x6F, 0x6E]
def kColorSpace : Bytes := [0x43, 0x6F, 0x6C, 0x6F, 0x72, 0x53, 0x70, 0x61, 0x63, 0x65]
def kContents : Bytes := [0x43, 0x6F, 0x6E, 0x74, 0x65, 0x6E, 0x74, 0x73]
def kDPart : Bytes := [0x44, 0x50, 0x61, 0x72, 0x74]
def kDPartRoot : Bytes := [0x44, 0x50, 0x61, 0x72, 0x74, 0x52, 0x6F, 0x6F, 0x74]
def kDSS : Bytes := [0x44, 0x53, 0x53]
def kDur : Bytes := [0x44, 0x75, 0x72]
def kExtGState : Bytes := [0x45, 0x78, 0x74, 0x47, 0x53, 0x74, 0x61, 0x74, 0x65]
def kExtensions : Bytes := [0x45, 0x78, 0x74, 0x65, 0x6E, 0x73, 0x69, 0x6F, 0x6E, 0x73]
def kFont : Bytes := [0x46, 0x6F, 0x6E, 0x74]
def kGroup : Bytes := [0x47, 0x72, 0x6F, 0x75, 0x70]
def kIDS : Bytes := [0x49, 0x44, 0x53]
def kJavaScript : Bytes := [0x4A, 0x61, 0x76, 0x61, 0x53, 0x63, 0x72, 0x69, 0x70, 0x74]
def kLegal : Bytes := [0x4C, 0x65, 0x67, 0x61, 0x6C]
def kMarkInfo : Bytes := [0x4D, 0x61, 0x72, 0x6B, 0x49, 0x6E, 0x66, 0x6F]
def kOCProperties : Bytes := [0x4F, 0x43, 0x50, 0x72, 0x6F, 0x70, 0x65, 0x72, 0x74, 0x69, 0x65, 0x73]
def kOutputIntents : Bytes := [0x4F, 0x75, 0x74, 0x70, 0x75, 0x74, 0x49, 0x6E, 0x74, 0x65, 0x6E, 0x74, 0x73]
def kPZ : Bytes := [0x50, 0x5A]
def kPattern : Bytes := [0x50, 0x61, 0x74, 0x74, 0x65, 0x72, 0x6E]
def kPerms : Bytes := [0x50, 0x65, 0x72, 0x6D, 0x73]
def kPieceInfo : Bytes := [0x50, 0x69, 0x65, 0x63, 0x65, 0x49, 0x6E, 0x66, 0x6F]
def kPresSteps : Bytes := [0x50, 0x72, 0x65, 0x73, 0x53, 0x74, 0x65, 0x70, 0x73]
def kProcSet : Bytes := [0x50, 0x72, 0x6F, 0x63, 0x53, 0x65, 0x74]
def kProperties : Bytes := [0x50, 0x72, 0x6F, 0x70, 0x65, 0x72, 0x74, 0x69, 0x65, 0x73]
def kRenditions : Bytes := [0x52, 0x65, 0x6E, 0x64, 0x69, 0x74, 0x69, 0x6F, 0x6E, 0x73]
def kRequirements : Bytes := [0x52, 0x65, 0x71, 0x75, 0x69, 0x72, 0x65, 0x6D, 0x65, 0x6E, 0x74, 0x73]
def kResources : Bytes := [0x52, 0x65, 0x73, 0x6F, 0x75, 0x72, 0x63, 0x65, 0x73]
def kSeparationInfo : Bytes := [0x53, 0x65, 0x70, 0x61, 0x72, 0x61, 0x74, 0x69, 0x6F, 0x6E, 0x49, 0x6E, 0x66, 0x6F]
def kShading : Bytes := [0x53, 0x68, 0x61, 0x64, 0x69, 0x6E, 0x67]
def kSpiderInfo : Bytes := [0x53, 0x70, 0x69, 0x64, 0x65, 0x72, 0x49, 0x6E, 0x66, 0x6F]
def kStructParents : Bytes := [0x53, 0x74, 0x72, 0x75, 0x63, 0x74, 0x50, 0x61, 0x72, 0x65, 0x6E, 0x74, 0x73]
def kStructTreeRoot : Bytes := [0x53, 0x74, 0x72, 0x75, 0x63, 0x74, 0x54, 0x72, 0x65, 0x65, 0x52, 0x6F, 0x6F, 0x74]
def kTemplateInstantiated : Bytes := [0x54, 0x65, 0x6D, 0x70, 0x6C, 0x61, 0x74, 0x65, 0x49, 0x6E, 0x73, 0x74, 0x61, 0x6E, 0x74, 0x69, 0x61, 0x74, 0x65, 0x64]
def kTemplates : Bytes := [0x54, 0x65, 0x6D, 0x70, 0x6C, 0x61, 0x74, 0x65, 0x73]
def kThreads : Bytes := [0x54, 0x68, 0x72, 0x65, 0x61, 0x64, 0x73]
def kThumb : Bytes := [0x54, 0x68, 0x75, 0x6D, 0x62]
def kTrans : Bytes := [0x54, 0x72, 0x61, 0x6E, 0x73]
def kTrimBox : Bytes := [0x54, 0x72, 0x69, 0x6D, 0x42, 0x6F, 0x78]
def kURI : Bytes := [0x55, 0x52, 0x49]
def kURLS : Bytes := [0x55, 0x52, 0x4C, 0x53]
def kVP : Bytes := [0x56, 0x50]
def kViewerPreferences : Bytes := [0x56, 0x69, 0x65, 0x77, 0x65, 0x72, 0x50, 0x72, 0x65, 0x66, 0x65, 0x72, 0x65, 0x6E, 0x63, 0x65, 0x73]
def kXObject : Bytes := [0x58, 0x4F, 0x62, 0x6A, 0x65, 0x63, 0x74]
def nCatalog : Bytes := [0x43, 0x61, 0x74, 0x61, 0x6C, 0x6F, 0x67]
def nPage : Bytes := [0x50, 0x61, 0x67, 0x65]
def nTemplate : Bytes := [0x54, 0x65, 0x6D, 0x70, 0x6C, 0x61, 0x74, 0x65]
def nFoo : Bytes := [0x46, 0x6F, 0x6F]
def pageModes : List Bytes :=
  [[0x55, 0x73, 0x65, 0x4E, 0x6F, 0x6E, 0x65] /- UseNone -/,
   [0x55, 0x73, 0x65, 0x4F, 0x75, 0x74, 0x6C, 0x69, 0x6E, 0x65, 0x73] /- UseOutlines -/,
   [0x55, 0x73, 0x65, 0x54, 0x68, 0x75, 0x6D, 0x62, 0x73] /- UseThumbs -/,
   [0x46, 0x75, 0x6C, 0x6C, 0x53, 0x63, 0x72, 0x65, 0x65, 0x6E] /- FullScreen -/,
   [0x55, 0x73, 0x65, 0x4F, 0x43] /- UseOC -/,
   [0x55, 0x73, 0x65, 0x41, 0x74, 0x74, 0x61, 0x63, 0x68, 0x6D, 0x65, 0x6E, 0x74, 0x73] /- UseAttachments -/]
def pageLayouts : List Bytes :=
  [[0x53, 0x69, 0x6E, 0x67, 0x6C, 0x65, 0x50, 0x61, 0x67, 0x65] /- SinglePage -/,
   [0x4F, 0x6E, 0x65, 0x43, 0x6F, 0x6C, 0x75, 0x6D, 0x6E] /- OneColumn -/,
   [0x54, 0x77, 0x6F, 0x43, 0x6F, 0x6C, 0x75, 0x6D, 0x6E, 0x4C, 0x65, 0x66, 0x74] /- TwoColumnLeft -/,
   [0x54, 0x77, 0x6F, 0x43, 0x6F, 0x6C, 0x75, 0x6D, 0x6E, 0x52, 0x69, 0x67, 0x68, 0x74] /- TwoColumnRight -/,
   [0x54, 0x77, 0x6F, 0x50, 0x61, 0x67, 0x65, 0x4C, 0x65, 0x66, 0x74] /- TwoPageLeft -/,
   [0x54, 0x77, 0x6F, 0x50, 0x61, 0x67, 0x65, 0x52, 0x69, 0x67, 0x68, 0x74] /- TwoPageRight -/]
def tabOrders : List Bytes :=
  [[0x52] /- R -/,
   [0x43] /- C -/,
   [0x53] /- S -/,
   [0x41] /- A -/,
   [0x57] /- W -/]

def kNamesKey : Bytes := [0x4E, 0x61, 0x6D, 0x65, 0x73]

/-! ### values of the menu -/

inductive Num where
  | int (i : Int)
  | real (n d : Int)
deriving DecidableEq, Repr, Inhabited

def Num.obj : Num → Obj
  | .int i => .int i
  | .real n d => .real n d

def arrOf : List Obj → ObjL
  | [] => .nil
  | x :: t => .cons [] x (arrOf t)

structure Rect where
  a : Num
  b : Num
  c : Num
  d : Num
deriving DecidableEq, Repr, Inhabited

def Rect.obj (r : Rect) : Obj := .arr (arrOf [r.a.obj, r.b.obj, r.c.obj, r.d.obj])

/-- time-zone part of a date: `Z`, `+` or `-`, optionally followed by `HH'`, optionally `mm`, optionally a
    closing apostrophe -/
structure Offset where
  sign : Fin 3
  hour : Option (Fin 24)
  minute : Option (Fin 60)     -- only rendered when `hour` is present
  apostrophe : Bool             -- only rendered when `minute` is rendered
deriving DecidableEq, Repr, Inhabited

/-- `D:YYYY[MM[DD[HH[mm[SS[O...]]]]]]` (ISO 32000 7.9.4); `Date.bytes` stops at the first absent field -/
structure Date where
  year : Fin 10000
  month : Option (Fin 12)     -- 1 + value
  day : Option (Fin 31)       -- 1 + value
  hour : Option (Fin 24)
  minute : Option (Fin 60)
  second : Option (Fin 60)
  offset : Option Offset
deriving DecidableEq, Repr, Inhabited

def digit (n : Nat) : UInt8 := UInt8.ofNat (0x30 + n % 10)
def two (n : Nat) : Bytes := [digit (n / 10), digit n]
def four (n : Nat) : Bytes := [digit (n / 1000), digit (n / 100), digit (n / 10), digit n]

def Offset.bytes (o : Offset) : Bytes :=
  [if o.sign.val = 0 then 0x2B else if o.sign.val = 1 then 0x2D else 0x5A] ++
    (match o.hour with
     | none => []
     | some h => two h.val ++ [0x27] ++
        (match o.minute with
         | none => []
         | some m => two m.val ++ (if o.apostrophe then [0x27] else [])))

/-- the fields in order, stopping at the first absent one -/
def Date.bytes (d : Date) : Bytes :=
  [0x44, 0x3A] ++ four d.year.val ++
    (match d.month with
     | none => []
     | some mo => two (mo.val + 1) ++
    (match d.day with
     | none => []
     | some da => two (da.val + 1) ++
    (match d.hour with
     | none => []
     | some h => two h.val ++
    (match d.minute with
     | none => []
     | some mi => two mi.val ++
    (match d.second with
     | none => []
     | some s => two s.val ++
    (match d.offset with
     | none => []
     | some o => o.bytes))))))

def Date.obj (d : Date) : Obj := .str d.bytes

/-- name tree (keys = strings) / number tree (keys = integers) node: the leaf array of (key, reference)
    pairs, or the references to the kids; in both cases optionally the /Limits pair -/
inductive Tree (κ : Type) where
  | leaf (pairs : List (κ × Nat)) (limits : Option (κ × κ))
  | inner (kids : List Nat) (limits : Option (κ × κ))
deriving Repr

def pairObjs {κ : Type} (f : κ → Obj) : List (κ × Nat) → List Obj
  | [] => []
  | (k, r) :: t => f k :: Obj.ref r 0 :: pairObjs f t

def limitsEnt {κ : Type} (f : κ → Obj) (l : Option (κ × κ)) (rest : ObjL) : ObjL :=
  match l with
  | none => rest
  | some (lo, hi) => .cons kLimits (.arr (arrOf [f lo, f hi])) rest

/-- keys in byte order: Kids < Limits < Names < Nums -/
def Tree.obj {κ : Type} (leafKey : Bytes) (f : κ → Obj) : Tree κ → Obj
  | .leaf pairs limits => .dict (limitsEnt f limits (.cons leafKey (.arr (arrOf (pairObjs f pairs))) .nil))
  | .inner kids limits =>
    .dict (.cons kKids (.arr (arrOf (kids.map fun r => Obj.ref r 0))) (limitsEnt f limits .nil))

def optEnt (k : Bytes) (v : Option Obj) (rest : ObjL) : ObjL :=
  match v with
  | none => rest
  | some x => .cons k x rest

/-- a dictionary given by its rows (key, optional value): the present rows in order -/
def rowsObjL : List (Bytes × Option Obj) → ObjL
  | [] => .nil
  | (k, v) :: t => optEnt k v (rowsObjL t)

/-- an arbitrary dictionary value (for the entries the shipped types declare as "a dictionary" without entries):
    empty, or one entry with an arbitrary object as value -/
inductive GDict where
  | empty
  | one (k : Bytes) (v : Obj)
deriving Repr, Inhabited

def GDict.objl : GDict → ObjL
  | .empty => .nil
  | .one k v => .cons k v .nil

def GDict.obj (g : GDict) : Obj := .dict g.objl

/-- an arbitrary stream value, given directly -/
structure GStream where
  dict : GDict
  data : Bytes
deriving Repr, Inhabited

def GStream.obj (s : GStream) : Obj := .stream s.dict.objl 0 s.data

/-- /Contents: a stream, or an array of streams -/
inductive Contents where
  | one (s : GStream)
  | many (l : List GStream)
deriving Repr, Inhabited

def Contents.obj : Contents → Obj
  | .one s => s.obj
  | .many l => .arr (arrOf (l.map GStream.obj))

/-- an array of arbitrary objects -/
def arrObj (xs : List Obj) : Obj := .arr (arrOf xs)
/-- an array of references -/
def refsObj (rs : List Nat) : Obj := arrObj (rs.map fun r => Obj.ref r 0)
/-- an array of dictionaries (/AF) -/
def afObj (l : List GDict) : Obj := arrObj (l.map GDict.obj)
def refObj (i : Nat) : Obj := .ref i 0

/-- /Resources: seven dictionaries and the /ProcSet array, all optional -/
structure Resources where
  colorSpace : Option GDict
  extGState : Option GDict
  font : Option GDict
  pattern : Option GDict
  procSet : Option (List Obj)
  properties : Option GDict
  shading : Option GDict
  xObject : Option GDict
deriving Repr, Inhabited

def Resources.rows (r : Resources) : List (Bytes × Option Obj) :=
  [(kColorSpace, r.colorSpace.map GDict.obj), (kExtGState, r.extGState.map GDict.obj), (kFont, r.font.map GDict.obj),
   (kPattern, r.pattern.map GDict.obj), (kProcSet, r.procSet.map arrObj), (kProperties, r.properties.map GDict.obj),
   (kShading, r.shading.map GDict.obj), (kXObject, r.xObject.map GDict.obj)]

def resourceKeys : List Bytes :=
  [kColorSpace, kExtGState, kFont, kPattern, kProcSet, kProperties, kShading, kXObject]

def Resources.obj (r : Resources) : Obj := .dict (rowsObjL r.rows)

/-- the optional entries of a page or template beyond the first menu: every remaining entry of
    `mk_generic_page_entries` (src/pdf_lib/page.rs) and /B (rendered on pages only: templates do not declare it) -/
structure PageExtra where
  aa : Option GDict
  af : Option (List GDict)            -- /AF: an array of dictionaries
  artBox : Option Rect
  b : Option (List Obj)               -- /B: an array (pages only)
  bleedBox : Option Rect
  boxColorInfo : Option GDict
  contents : Option Contents
  dPart : Option GDict
  dur : Option Num
  group : Option GDict
  metadata : Option GStream
  outputIntents : Option (List Obj)
  pz : Option Num
  pieceInfo : Option GDict
  presSteps : Option GDict
  resources : Option Resources
  separationInfo : Option GDict
  structParents : Option Int
  templateInstantiated : Option Bytes  -- a name
  thumb : Option GStream
  trans : Option GDict
  trimBox : Option Rect
  vp : Option (List Obj)
deriving Repr, Inhabited

def PageExtra.none : PageExtra :=
  ⟨.none, .none, .none, .none, .none, .none, .none, .none, .none, .none, .none, .none, .none, .none, .none, .none,
   .none, .none, .none, .none, .none, .none, .none⟩

/-- optional entries of a page or template -/
structure PageOpts where
  annots : Option (List Nat)      -- /Annots: an array (here: of references)
  cropBox : Option Rect
  id : Option Bytes               -- /ID: a string
  lastModified : Option Date
  mediaBox : Option Rect
  rotate : Option Int
  tabs : Option (Fin 5)           -- /Tabs: one of `tabOrders`
  userUnit : Option Num
  x : PageExtra
deriving Repr, Inhabited

def PageOpts.none : PageOpts := ⟨.none, .none, .none, .none, .none, .none, .none, .none, PageExtra.none⟩

def nameAt (l : List Bytes) (i : Nat) : Obj := .name (l.getD i [])

/-- the optional entries of the catalog beyond the first menu: every remaining entry of `catalog_type`
    (src/pdf_lib/catalog.rs) and the remaining eight name trees of `name_dictionary` -/
structure CatExtra where
  aa : Option GDict
  af : Option (List GDict)
  acroForm : Option GDict
  collection : Option GDict
  dPartRoot : Option GDict
  dss : Option GDict
  dests : Option Nat                          -- /Dests: reference to a dictionary (object number given)
  extensions : Option GDict
  legal : Option GDict
  markInfo : Option GDict
  ocProperties : Option GDict
  outputIntents : Option (List Obj)
  perms : Option GDict
  pieceInfo : Option GDict
  requirements : Option (List Obj)
  spiderInfo : Option GDict
  structTreeRoot : Option GDict
  threads : Option (List Obj)
  uri : Option GDict
  viewerPreferences : Option GDict
  -- /Names: the other name trees
  ap : Option (Tree Bytes)
  alternatePresentations : Option (Tree Bytes)
  ids : Option (Tree Bytes)
  javaScript : Option (Tree Bytes)
  pagesTree : Option (Tree Bytes)
  renditions : Option (Tree Bytes)
  templates : Option (Tree Bytes)
  urls : Option (Tree Bytes)
deriving Repr, Inhabited

def CatExtra.none : CatExtra :=
  ⟨.none, .none, .none, .none, .none, .none, .none, .none, .none, .none, .none, .none, .none, .none, .none, .none,
   .none, .none, .none, .none, .none, .none, .none, .none, .none, .none, .none, .none⟩

/-- optional entries of the catalog -/
structure CatOpts where
  lang : Option Bytes                         -- /Lang: a string
  metadata : Option Nat                       -- /Metadata: reference to a stream (object number given)
  dests : Option (Tree Bytes)                 -- /Names << /Dests name-tree >>
  embeddedFiles : Option (Tree Bytes)         -- /Names << /EmbeddedFiles name-tree >>
  needsRendering : Option Bool
  openAction : Option Bool                    -- /OpenAction: an array (true) or a dictionary (false)
  outlines : Option Nat                       -- /Outlines: reference to a dictionary (object number given)
  pageLabels : Option (Tree Int)              -- /PageLabels: a number tree
  pageLayout : Option (Fin 6)
  pageMode : Option (Fin 6)
  version : Option Bytes                      -- /Version: a name
  x : CatExtra
deriving Repr, Inhabited

def CatOpts.none : CatOpts :=
  ⟨.none, .none, .none, .none, .none, .none, .none, .none, .none, .none, .none, CatExtra.none⟩

/-! ### the page tree -/

mutual
inductive Node where
  | page (id : Nat) (o : PageOpts)
  | tmpl (id : Nat) (o : PageOpts)
  | pages (id : Nat) (count : Int) (kids : Nodes)
inductive Nodes where
  | nil
  | cons (n : Node) (t : Nodes)
end

instance : Inhabited Node := ⟨.page 0 PageOpts.none⟩

def Node.id : Node → Nat
  | .page i _ | .tmpl i _ | .pages i _ _ => i

def Nodes.toList : Nodes → List Node
  | .nil => []
  | .cons n t => n :: t.toList

def Nodes.ofList : List Node → Nodes
  | [] => .nil
  | n :: t => .cons n (Nodes.ofList t)

structure Doc where
  cat : CatOpts
  rootId : Nat
  count : Int
  kids : Nodes

/-! ### render -/

def Nodes.refs : Nodes → List Obj
  | .nil => []
  | .cons n t => Obj.ref n.id 0 :: t.refs

def tabObj (i : Fin 5) : Obj := nameAt tabOrders i.val

/-- the rows of a page or template dictionary, keys in byte order; /B on pages only -/
def pageRows (o : PageOpts) (parent : Option Obj) (typ : Bytes) : List (Bytes × Option Obj) :=
  [(kAA, o.x.aa.map GDict.obj),
   (kAF, o.x.af.map afObj),
   (kAnnots, o.annots.map refsObj),
   (kArtBox, o.x.artBox.map Rect.obj),
   (kB, if typ = nPage then o.x.b.map arrObj else none),
   (kBleedBox, o.x.bleedBox.map Rect.obj),
   (kBoxColorInfo, o.x.boxColorInfo.map GDict.obj),
   (kContents, o.x.contents.map Contents.obj),
   (kCropBox, o.cropBox.map Rect.obj),
   (kDPart, o.x.dPart.map GDict.obj),
   (kDur, o.x.dur.map Num.obj),
   (kGroup, o.x.group.map GDict.obj),
   (kID, o.id.map Obj.str),
   (kLastModified, o.lastModified.map Date.obj),
   (kMediaBox, o.mediaBox.map Rect.obj),
   (kMetadata, o.x.metadata.map GStream.obj),
   (kOutputIntents, o.x.outputIntents.map arrObj),
   (kPZ, o.x.pz.map Num.obj),
   (kParent, parent),
   (kPieceInfo, o.x.pieceInfo.map GDict.obj),
   (kPresSteps, o.x.presSteps.map GDict.obj),
   (kResources, o.x.resources.map Resources.obj),
   (kRotate, o.rotate.map Obj.int),
   (kSeparationInfo, o.x.separationInfo.map GDict.obj),
   (kStructParents, o.x.structParents.map Obj.int),
   (kTabs, o.tabs.map tabObj),
   (kTemplateInstantiated, o.x.templateInstantiated.map Obj.name),
   (kThumb, o.x.thumb.map GStream.obj),
   (kTrans, o.x.trans.map GDict.obj),
   (kTrimBox, o.x.trimBox.map Rect.obj),
   (kType, some (.name typ)),
   (kUserUnit, o.userUnit.map Num.obj),
   (kVP, o.x.vp.map arrObj)]

def pageKeys : List Bytes :=
  [kAA, kAF, kAnnots, kArtBox, kB, kBleedBox, kBoxColorInfo, kContents, kCropBox, kDPart, kDur, kGroup, kID,
   kLastModified, kMediaBox, kMetadata, kOutputIntents, kPZ, kParent, kPieceInfo, kPresSteps, kResources, kRotate,
   kSeparationInfo, kStructParents, kTabs, kTemplateInstantiated, kThumb, kTrans, kTrimBox, kType, kUserUnit, kVP]

/-- the dictionary of a page (`typ` = Page, with /Parent) or template (`typ` = Template, without) -/
def pageDict (o : PageOpts) (parent : Option Obj) (typ : Bytes) : Obj := .dict (rowsObjL (pageRows o parent typ))

/-- a page-tree node dictionary (Count < Kids < [Parent] < Type) -/
def nodeDict (count : Int) (kids : Nodes) (parent : Option Obj) : Obj :=
  .dict
    (.cons kCount (.int count)
    (.cons kKids (.arr (arrOf kids.refs))
    (optEnt kParent parent
    (.cons kType (.name kPages) .nil))))

/-- the dictionary of a node whose parent has object number `parent` -/
def Node.dict (parent : Nat) : Node → Obj
  | .page _ o => pageDict o (some (.ref parent 0)) nPage
  | .tmpl _ o => pageDict o none nTemplate
  | .pages _ count kids => nodeDict count kids (some (.ref parent 0))

mutual
/-- the indirect objects of a subtree -/
def Node.defs (parent : Nat) : Node → Graph
  | .page i o => [((i, 0), pageDict o (some (.ref parent 0)) nPage)]
  | .tmpl i o => [((i, 0), pageDict o none nTemplate)]
  | .pages i count kids => ((i, 0), nodeDict count kids (some (.ref parent 0))) :: kids.defs i
def Nodes.defs (parent : Nat) : Nodes → Graph
  | .nil => []
  | .cons n t => n.defs parent ++ t.defs parent
end

def strObj (s : Bytes) : Obj := .str s

/-- the rows of the name dictionary: the ten name trees of `name_dictionary`, keys in byte order -/
def namesRows (c : CatOpts) : List (Bytes × Option Obj) :=
  [(kAP, c.x.ap.map (Tree.obj kNamesKey strObj)),
   (kAlternatePresentations, c.x.alternatePresentations.map (Tree.obj kNamesKey strObj)),
   (kDests, c.dests.map (Tree.obj kNamesKey strObj)),
   (kEmbeddedFiles, c.embeddedFiles.map (Tree.obj kNamesKey strObj)),
   (kIDS, c.x.ids.map (Tree.obj kNamesKey strObj)),
   (kJavaScript, c.x.javaScript.map (Tree.obj kNamesKey strObj)),
   (kPages, c.x.pagesTree.map (Tree.obj kNamesKey strObj)),
   (kRenditions, c.x.renditions.map (Tree.obj kNamesKey strObj)),
   (kTemplates, c.x.templates.map (Tree.obj kNamesKey strObj)),
   (kURLS, c.x.urls.map (Tree.obj kNamesKey strObj))]

/-- /Names is written when at least one name tree is given -/
def namesDict (c : CatOpts) : Option Obj :=
  if (namesRows c).all (fun r => r.2.isNone) then none else some (.dict (rowsObjL (namesRows c)))

def openActionObj (a : Bool) : Obj := if a then .arr .nil else .dict .nil
def numTreeObj (t : Tree Int) : Obj := Tree.obj kNums Obj.int t
def layoutObj (i : Fin 6) : Obj := nameAt pageLayouts i.val
def modeObj (i : Fin 6) : Obj := nameAt pageModes i.val

/-- the rows of the catalog dictionary, keys in byte order -/
def catRows (d : Doc) : List (Bytes × Option Obj) :=
  let c := d.cat
  [(kAA, c.x.aa.map GDict.obj),
   (kAF, c.x.af.map afObj),
   (kAcroForm, c.x.acroForm.map GDict.obj),
   (kCollection, c.x.collection.map GDict.obj),
   (kDPartRoot, c.x.dPartRoot.map GDict.obj),
   (kDSS, c.x.dss.map GDict.obj),
   (kDests, c.x.dests.map refObj),
   (kExtensions, c.x.extensions.map GDict.obj),
   (kLang, c.lang.map Obj.str),
   (kLegal, c.x.legal.map GDict.obj),
   (kMarkInfo, c.x.markInfo.map GDict.obj),
   (kMetadata, c.metadata.map refObj),
   (kNames, namesDict c),
   (kNeedsRendering, c.needsRendering.map Obj.bool),
   (kOCProperties, c.x.ocProperties.map GDict.obj),
   (kOpenAction, c.openAction.map openActionObj),
   (kOutlines, c.outlines.map refObj),
   (kOutputIntents, c.x.outputIntents.map arrObj),
   (kPageLabels, c.pageLabels.map numTreeObj),
   (kPageLayout, c.pageLayout.map layoutObj),
   (kPageMode, c.pageMode.map modeObj),
   (kPages, some (.ref d.rootId 0)),
   (kPerms, c.x.perms.map GDict.obj),
   (kPieceInfo, c.x.pieceInfo.map GDict.obj),
   (kRequirements, c.x.requirements.map arrObj),
   (kSpiderInfo, c.x.spiderInfo.map GDict.obj),
   (kStructTreeRoot, c.x.structTreeRoot.map GDict.obj),
   (kThreads, c.x.threads.map arrObj),
   (kType, some (.name nCatalog)),
   (kURI, c.x.uri.map GDict.obj),
   (kVersion, c.version.map Obj.name),
   (kViewerPreferences, c.x.viewerPreferences.map GDict.obj)]

def catKeys : List Bytes :=
  [kAA, kAF, kAcroForm, kCollection, kDPartRoot, kDSS, kDests, kExtensions, kLang, kLegal, kMarkInfo, kMetadata, kNames,
   kNeedsRendering, kOCProperties, kOpenAction, kOutlines, kOutputIntents, kPageLabels, kPageLayout, kPageMode, kPages,
   kPerms, kPieceInfo, kRequirements, kSpiderInfo, kStructTreeRoot, kThreads, kType, kURI, kVersion, kViewerPreferences]

/-- the catalog dictionary -/
def catalogDict (d : Doc) : Obj := .dict (rowsObjL (catRows d))

def optDef (i : Option Nat) (o : Obj) : Graph :=
  match i with
  | none => []
  | some n => [((n, 0), o)]

/-- the indirect objects of the document: the root node, the subtrees, and the three auxiliary objects the
    catalog may refer to (/Outlines, /Metadata, /Dests) -/
def Doc.graph (d : Doc) : Graph :=
  ((d.rootId, 0), nodeDict d.count d.kids none) :: d.kids.defs d.rootId
    ++ optDef d.cat.outlines (.dict .nil) ++ optDef d.cat.metadata (.stream .nil 0 [])
    ++ optDef d.cat.x.dests (.dict .nil)

def render (d : Doc) : Graph × Obj := (d.graph, catalogDict d)

/-! ### well-formedness of a document (object numbers pairwise distinct) -/

mutual
def Node.ids : Node → List Nat
  | .page i _ | .tmpl i _ => [i]
  | .pages i _ kids => i :: kids.ids
def Nodes.ids : Nodes → List Nat
  | .nil => []
  | .cons n t => n.ids ++ t.ids
end

def optId : Option Nat → List Nat
  | none => []
  | some i => [i]

def Doc.ids (d : Doc) : List Nat :=
  d.rootId :: d.kids.ids ++ optId d.cat.outlines ++ optId d.cat.metadata ++ optId d.cat.x.dests

def nodupB : List Nat → Bool
  | [] => true
  | x :: t => !t.contains x && nodupB t

def Doc.ok (d : Doc) : Bool := nodupB d.ids

/-! ### the rules, as a table: which keys a dictionary must / must not / may have, and the type of each -/

inductive Where where
  | catalog
  | obj (id : Nat)       -- the page-tree object (root, node, page or template) with this object number
deriving DecidableEq, Repr, Inhabited

inductive DictKind where
  | catalog | root | node | page | tmpl
deriving DecidableEq, Repr, Inhabited

/-- the type the rules give to the value of a key -/
inductive ValKind where
  | nameIs (n : Bytes)            -- exactly this name
  | nameIn (l : List Bytes)       -- one of these names
  | name | str | bool | int | number
  | rect | date
  | array                         -- any array
  | dict                          -- any dictionary
  | stream                        -- any stream
  | arrayOfDict                   -- an array of dictionaries
  | contents                      -- a stream, or an array of streams
  | resources                     -- a dictionary whose entries /ColorSpace ... /XObject are dictionaries, /ProcSet an array
  | arrayOrDict
  | rootRef | kids | parentRef    -- structural entries: mutated by the structural mutations only
  | refDict | refStream           -- an indirect reference (to a dictionary / stream)
  | numTree | nameDict
deriving DecidableEq, Repr, Inhabited

def requiredKeys : DictKind → List Bytes
  | .catalog => [kType, kPages]
  | .root => [kType, kCount, kKids]
  | .node => [kType, kCount, kKids, kParent]
  | .page => [kType, kParent]
  | .tmpl => [kType]

def forbiddenKeys : DictKind → List Bytes
  | .root | .tmpl => [kParent]
  | _ => []

/-- every entry of `mk_generic_page_entries` -/
def pageMenu : List (Bytes × ValKind) :=
  [(kAA, .dict), (kAF, .arrayOfDict), (kAnnots, .array), (kArtBox, .rect), (kBleedBox, .rect), (kBoxColorInfo, .dict),
   (kContents, .contents), (kCropBox, .rect), (kDPart, .dict), (kDur, .number), (kGroup, .dict), (kID, .str),
   (kLastModified, .date), (kMediaBox, .rect), (kMetadata, .stream), (kOutputIntents, .array), (kPZ, .number),
   (kPieceInfo, .dict), (kPresSteps, .dict), (kResources, .resources), (kRotate, .int), (kSeparationInfo, .dict),
   (kStructParents, .int), (kTabs, .nameIn tabOrders), (kTemplateInstantiated, .name), (kThumb, .stream),
   (kTrans, .dict), (kTrimBox, .rect), (kUserUnit, .number), (kVP, .array)]

/-- every entry of the shipped type of each dictionary kind -/
def keyTable : DictKind → List (Bytes × ValKind)
  | .catalog =>
    [(kType, .nameIs nCatalog), (kPages, .rootRef),
     (kAA, .dict), (kAF, .arrayOfDict), (kAcroForm, .dict), (kCollection, .dict), (kDPartRoot, .dict), (kDSS, .dict),
     (kDests, .refDict), (kExtensions, .dict), (kLang, .str), (kLegal, .dict), (kMarkInfo, .dict),
     (kMetadata, .refStream), (kNames, .nameDict), (kNeedsRendering, .bool), (kOCProperties, .dict),
     (kOpenAction, .arrayOrDict), (kOutlines, .refDict), (kOutputIntents, .array), (kPageLabels, .numTree),
     (kPageLayout, .nameIn pageLayouts), (kPageMode, .nameIn pageModes), (kPerms, .dict), (kPieceInfo, .dict),
     (kRequirements, .array), (kSpiderInfo, .dict), (kStructTreeRoot, .dict), (kThreads, .array), (kURI, .dict),
     (kVersion, .name), (kViewerPreferences, .dict)]
  | .root => [(kType, .nameIs kPages), (kCount, .int), (kKids, .kids)]
  | .node => [(kType, .nameIs kPages), (kCount, .int), (kKids, .kids), (kParent, .parentRef)]
  | .page => [(kType, .nameIs nPage), (kParent, .parentRef), (kB, .array)] ++ pageMenu
  | .tmpl => [(kType, .nameIs nTemplate)] ++ pageMenu

def lookupKey {α : Type} : List (Bytes × α) → Bytes → Option α
  | [], _ => none
  | (k, v) :: t, key => if k = key then some v else lookupKey t key

def isNum : Obj → Bool
  | .int _ | .real _ _ => true
  | _ => false

def isDigit (b : UInt8) : Bool := decide (0x30 ≤ b.toNat ∧ b.toNat ≤ 0x39)

/-- the date grammar of ISO 32000 7.9.4 on ASCII bytes (a direct recogniser, written from the grammar
    `D:YYYYMMDDHHmmSSOHH'mm`, every field optional once the previous one is present; the shipped checker
    additionally tolerates a closing apostrophe) -/
def twoIn (lo hi : Nat) (a b : UInt8) : Bool :=
  isDigit a && isDigit b &&
    decide (lo ≤ (a.toNat - 0x30) * 10 + (b.toNat - 0x30) ∧ (a.toNat - 0x30) * 10 + (b.toNat - 0x30) ≤ hi)

def isOffsetTail : Bytes → Bool
  | [] => true
  | a :: b :: q :: t =>
    twoIn 0 23 a b && decide (q = 0x27) &&
      (match t with
       | [] => true
       | c :: d :: t' => twoIn 0 59 c d && (t' = [] || t' = [0x27])
       | _ => false)
  | _ => false

def isDateTail : Nat → Bytes → Bool
  | _, [] => true
  | 0, a :: b :: t => twoIn 1 12 a b && isDateTail 1 t
  | 1, a :: b :: t => twoIn 1 31 a b && isDateTail 2 t
  | 2, a :: b :: t => twoIn 0 23 a b && isDateTail 3 t
  | 3, a :: b :: t => twoIn 0 59 a b && isDateTail 4 t
  | 4, a :: b :: t => twoIn 0 59 a b && isDateTail 5 t
  | 5, o :: t => (o = 0x2B || o = 0x2D || o = 0x5A) && isOffsetTail t
  | _, _ => false

def isDate : Bytes → Bool
  | 0x44 :: 0x3A :: y1 :: y2 :: y3 :: y4 :: t =>
    isDigit y1 && isDigit y2 && isDigit y3 && isDigit y4 && isDateTail 0 t
  | _ => false

def altKeyRef (isKey : Obj → Bool) : List Obj → Bool
  | [] => true
  | k :: r :: t => isKey k && r.isRef && altKeyRef isKey t
  | [_] => false

/-- a name-tree / number-tree node (ISO 32000 7.9.6, 7.9.7): /Names (/Nums) is an array of (key,
    reference) pairs, /Kids an array of references, /Limits an array of two keys; a node has either the
    leaf array or /Kids, and may have /Limits -/
def isTreeNode (leafKey : Bytes) (isKey : Obj → Bool) : Obj → Bool
  | .dict kvs =>
    let leafOK := match kvs.get leafKey with
      | none => true
      | some (.arr xs) => altKeyRef isKey xs.vals
      | some _ => false
    let kidsOK := match kvs.get kKids with
      | none => true
      | some (.arr xs) => xs.vals.all Obj.isRef
      | some _ => false
    let limitsOK := match kvs.get kLimits with
      | none => true
      | some (.arr xs) => xs.vals.all isKey && decide (xs.vals.length = 2)
      | some _ => true      -- the shipped predicate does not constrain a non-array /Limits; neither do we
    leafOK && limitsOK && kidsOK && ((kvs.get leafKey).isSome != (kvs.get kKids).isSome)
  | _ => false

def nameTreeKeys : List Bytes :=
  [kAP, kAlternatePresentations, kDests, kEmbeddedFiles, kIDS, kJavaScript, kPages, kRenditions, kTemplates, kURLS]

/-- the entries of /Resources that are dictionaries (/ProcSet is an array) -/
def resourceDictKeys : List Bytes := [kColorSpace, kExtGState, kFont, kPattern, kProperties, kShading, kXObject]

def isDictO : Obj → Bool
  | .dict _ => true
  | _ => false

def isArrO : Obj → Bool
  | .arr _ => true
  | _ => false

def isStreamO : Obj → Bool
  | .stream _ _ _ => true
  | _ => false

/-- does the DIRECT value `v` have the type the rules give it? (references are not followed: the
    mutations only insert direct values, see `Mutation.valid`) -/
def fitsKind : ValKind → Obj → Bool
  | .nameIs n, v => decide (v = .name n)
  | .nameIn l, .name s => l.contains s
  | .name, .name _ => true
  | .str, .str _ => true
  | .bool, .bool _ => true
  | .int, .int _ => true
  | .number, v => isNum v
  | .rect, .arr xs => decide (xs.vals.length = 4) && xs.vals.all isNum
  | .date, .str s => isDate s
  | .array, .arr _ => true
  | .dict, .dict _ => true
  | .stream, .stream _ _ _ => true
  | .arrayOfDict, .arr xs => xs.vals.all isDictO
  | .contents, .stream _ _ _ => true
  | .contents, .arr xs => xs.vals.all isStreamO
  | .resources, .dict kvs =>
    (resourceDictKeys.all fun k => match kvs.get k with
      | none => true
      | some t => isDictO t) &&
    (match kvs.get kProcSet with
      | none => true
      | some t => isArrO t)
  | .arrayOrDict, .arr _ => true
  | .arrayOrDict, .dict _ => true
  | .numTree, v => isTreeNode kNums Obj.isInt v
  | .nameDict, .dict kvs =>
    nameTreeKeys.all fun k => match kvs.get k with
      | none => true
      | some t => isTreeNode kNamesKey Obj.isStr t
  | _, _ => false

/-! ### single-rule mutations -/

inductive Mutation where
  /-- remove a required key -/
  | dropRequired (w : Where) (key : Bytes)
  /-- add a key the rules forbid there (/Parent on the root or on a template), with any value -/
  | addForbidden (w : Where) (key : Bytes) (v : Obj)
  /-- give a key (required, or optional and present or not) a direct value of the wrong type -/
  | wrongType (w : Where) (key : Bytes) (v : Obj)
  /-- give a key whose value must be one of a list of names another name -/
  | unlistedName (w : Where) (key : Bytes) (n : Bytes)
  /-- embed the `i`-th kid of a node directly instead of referring to it -/
  | directKid (w : Where) (i : Nat)
  /-- give /Parent as a direct object instead of a reference -/
  | directParent (w : Where) (v : Obj)
deriving Repr, Inhabited

mutual
def Node.find (parent : Nat) (id : Nat) : Node → Option (Node × Nat)
  | .page i o => if i = id then some (.page i o, parent) else none
  | .tmpl i o => if i = id then some (.tmpl i o, parent) else none
  | .pages i c kids => if i = id then some (.pages i c kids, parent) else kids.find i id
def Nodes.find (parent : Nat) (id : Nat) : Nodes → Option (Node × Nat)
  | .nil => none
  | .cons n t => match n.find parent id with
    | some r => some r
    | none => t.find parent id
end

/-- the kind of the dictionary a position denotes, its rendered dictionary, and its kids -/
def locate (d : Doc) : Where → Option (DictKind × Obj × List Node × Nat)
  | .catalog => some (.catalog, catalogDict d, [], 0)
  | .obj id =>
    if id = d.rootId then some (.root, nodeDict d.count d.kids none, d.kids.toList, 0)
    else match d.kids.find d.rootId id with
      | some (.page i o, p) => some (.page, (Node.page i o).dict p, [], p)
      | some (.tmpl i o, p) => some (.tmpl, (Node.tmpl i o).dict p, [], p)
      | some (.pages i c k, p) => some (.node, (Node.pages i c k).dict p, k.toList, p)
      | none => none

def structural : ValKind → Bool
  | .rootRef | .kids | .parentRef | .refDict | .refStream => true
  | _ => false

/-- A kid may be a node, a page or a template, told apart by /Type: giving the /Type of a kid the name of
    ANOTHER kid type does not violate one rule, it turns the object into a (possibly well-formed) object of
    the other type -- e.g. a node with /Type /Page is a page with two unknown entries.  Such replacements
    are not single-rule violations. -/
def kindChange (k : DictKind) (key : Bytes) (v : Obj) : Bool :=
  (k == .node || k == .page || k == .tmpl) && decide (key = kType) &&
    [Obj.name kPages, Obj.name nPage, Obj.name nTemplate].contains v

/-- Does the replacement value give an entry of the name dictionary (or of /Resources, or an element of an array of
    dictionaries / of streams) BY REFERENCE?  The rules judge direct values
    only (`fitsKind` does not follow references); `/Names << /Dests 7 0 R >>` is not a value of the wrong type but
    a reference whose target decides (the shipped name-tree predicate is applied to the target: a page-tree node
    `<< /Type /Pages /Kids [refs] ... >>` passes it as an intermediate name-tree node, see
    `Parsley.C10.names_entry_by_reference_witness`).  Such replacements are not single-rule violations. -/
def refEntry : ValKind → Obj → Bool
  | .nameDict, .dict kvs => nameTreeKeys.any fun k => match kvs.get k with
    | some t => t.isRef
    | none => false
  | .resources, .dict kvs => (kProcSet :: resourceDictKeys).any fun k => match kvs.get k with
    | some t => t.isRef
    | none => false
  | .arrayOfDict, .arr xs => xs.vals.any Obj.isRef
  | .contents, .arr xs => xs.vals.any Obj.isRef
  | _, _ => false

/-- is `m` a violation of exactly one rule at an existing position of `d`? -/
def Mutation.valid (d : Doc) : Mutation → Bool
  | .dropRequired w key =>
    match locate d w with
    | some (k, _, _, _) => (requiredKeys k).contains key
    | none => false
  | .addForbidden w key _ =>
    match locate d w with
    | some (k, _, _, _) => (forbiddenKeys k).contains key
    | none => false
  | .wrongType w key v =>
    match locate d w with
    | some (k, _, _, _) =>
      match lookupKey (keyTable k) key with
      | some vk => !structural vk && !v.isRef && !fitsKind vk v && !kindChange k key v && !refEntry vk v
      | none => false
    | none => false
  | .unlistedName w key n =>
    match locate d w with
    | some (k, _, _, _) =>
      match lookupKey (keyTable k) key with
      | some (.nameIs x) => decide (n ≠ x) && !kindChange k key (.name n)
      | some (.nameIn l) => !l.contains n
      | _ => false
    | none => false
  | .directKid w i =>
    match locate d w with
    | some (_, _, kids, _) => decide (i < kids.length)
    | none => false
  | .directParent w v =>
    match locate d w with
    | some (k, _, _, _) => (requiredKeys k).contains kParent && !v.isRef
    | none => false

/-- dictionaries are kept in byte order of their keys -/
def bytesLt : Bytes → Bytes → Bool
  | [], [] => false
  | [], _ :: _ => true
  | _ :: _, [] => false
  | a :: as, b :: bs => if a < b then true else if b < a then false else bytesLt as bs

def ObjL.set (k : Bytes) (v : Obj) : ObjL → ObjL
  | .nil => .cons k v .nil
  | .cons k' v' t =>
    if k = k' then .cons k v t
    else if bytesLt k k' then .cons k v (.cons k' v' t)
    else .cons k' v' (ObjL.set k v t)

def ObjL.erase (k : Bytes) : ObjL → ObjL
  | .nil => .nil
  | .cons k' v' t => if k = k' then t else .cons k' v' (ObjL.erase k t)

def ObjL.setNth (v : Obj) : Nat → ObjL → ObjL
  | _, .nil => .nil
  | 0, .cons k _ t => .cons k v t
  | n+1, .cons k x t => .cons k x (ObjL.setNth v n t)

/-- an edit of one dictionary -/
def editDict (f : ObjL → ObjL) : Obj → Obj
  | .dict kvs => .dict (f kvs)
  | o => o

def Graph.edit (id : Nat) (f : Obj → Obj) : Graph → Graph
  | [] => []
  | (k, v) :: t => if k = (id, 0) then (k, f v) :: t else (k, v) :: Graph.edit id f t

def editAt (w : Where) (f : ObjL → ObjL) (r : Graph × Obj) : Graph × Obj :=
  match w with
  | .catalog => (r.1, editDict f r.2)
  | .obj id => (Graph.edit id (editDict f) r.1, r.2)

/-- apply a mutation to the rendered document -/
def mutate (m : Mutation) (d : Doc) : Graph × Obj :=
  let r := render d
  match m with
  | .dropRequired w key => editAt w (ObjL.erase key) r
  | .addForbidden w key v => editAt w (ObjL.set key v) r
  | .wrongType w key v => editAt w (ObjL.set key v) r
  | .unlistedName w key n => editAt w (ObjL.set key (.name n)) r
  | .directParent w v => editAt w (ObjL.set kParent v) r
  | .directKid w i =>
    match locate d w with
    | some (_, _, kids, _) =>
      match kids[i]?, w with
      | some kid, .obj id =>
        editAt w (fun kvs =>
          match kvs.get kKids with
          | some (.arr xs) => ObjL.set kKids (.arr (ObjL.setNth (kid.dict id) i xs)) kvs
          | _ => kvs) r
      | _, _ => r
    | none => r

/-! ### an example document with EVERY optional entry (used by the non-vacuity examples of the theorems and as the
  third fixed document of the exhaustive stream of Driver/C10.lean) -/

def exRect : Rect := ⟨.int 0, .int 0, .real 612 1, .int 792⟩
def exDate : Date :=
  ⟨⟨2020, by decide⟩, some ⟨11, by decide⟩, some ⟨30, by decide⟩, some ⟨23, by decide⟩, some ⟨59, by decide⟩,
   some ⟨59, by decide⟩, some ⟨⟨1, by decide⟩, some ⟨8, by decide⟩, some ⟨0, by decide⟩, true⟩⟩
def exDict : GDict := .one [0x4B] (.int 1)                -- << /K 1 >>
def exStream : GStream := ⟨.one [0x4C] (.int 3), [0x61, 0x62, 0x63]⟩
def exArr : List Obj := [.int 1, .name [0x58], .ref 950 0, .dict .nil]
def exResources : Resources :=
  ⟨some exDict, some .empty, some (.one [0x46, 0x31] (.ref 951 0)), some exDict, some [.name [0x50, 0x44, 0x46]],
   some .empty, some exDict, some (.one [0x49, 0x6D] (.ref 952 0))⟩
def exPageExtra : PageExtra :=
  { aa := some exDict, af := some [exDict, .empty], artBox := some exRect, b := some [.ref 953 0, .int 2],
    bleedBox := some exRect, boxColorInfo := some .empty, contents := some (.many [exStream, ⟨.empty, []⟩]),
    dPart := some exDict, dur := some (.real 5 2), group := some exDict, metadata := some exStream,
    outputIntents := some exArr, pz := some (.int 2), pieceInfo := some exDict, presSteps := some .empty,
    resources := some exResources, separationInfo := some exDict, structParents := some 7,
    templateInstantiated := some [0x54, 0x31], thumb := some ⟨.empty, [0x00]⟩, trans := some exDict,
    trimBox := some exRect, vp := some [] }
/-- /Annots [901 0 R] /CropBox /ID (id) /LastModified (D:20201231235959-08'00') /MediaBox /Rotate 90 /Tabs /S
    /UserUnit 1.5 and every further entry of the page type -/
def exPageOpts : PageOpts :=
  ⟨some [901], some exRect, some [0x69, 0x64], some exDate, some exRect, some 90, some ⟨2, by decide⟩, some (.real 3 2),
   exPageExtra⟩
def exTree : Tree Bytes := .leaf [([0x61], 801)] none
def exCatExtra : CatExtra :=
  { aa := some exDict, af := some [exDict], acroForm := some exDict, collection := some .empty,
    dPartRoot := some exDict, dss := some exDict, dests := some 22, extensions := some .empty, legal := some exDict,
    markInfo := some (.one [0x4D] (.bool true)), ocProperties := some exDict, outputIntents := some exArr,
    perms := some exDict, pieceInfo := some .empty, requirements := some [.dict .nil], spiderInfo := some exDict,
    structTreeRoot := some exDict, threads := some [.ref 954 0], uri := some exDict,
    viewerPreferences := some (.one [0x48] (.bool false)),
    ap := some exTree, alternatePresentations := some (.inner [] none), ids := some exTree,
    javaScript := some (.inner [806] (some ([0x61], [0x7A]))), pagesTree := some exTree, renditions := some exTree,
    templates := some (.leaf [] none), urls := some exTree }
/-- /Lang (en) /Metadata 20 0 R /Names << ten name trees >> /NeedsRendering true /OpenAction [] /Outlines 21 0 R
    /Dests 22 0 R /PageLabels leaf+limits /PageLayout /OneColumn /PageMode /FullScreen /Version /1.7 and every
    further entry of the catalog type -/
def exCatOpts : CatOpts :=
  ⟨some [0x65, 0x6E], some 20, some exTree, some (.inner [802] (some ([0x61], [0x62]))),
   some true, some true, some 21, some (.leaf [(0, 803), (5, 804)] (some (0, 5))), some ⟨1, by decide⟩,
   some ⟨3, by decide⟩, some [0x31, 0x2E, 0x37], exCatExtra⟩
/-- root 1 -> page 2 (all entries), template 3 (all entries), node 4 -> page 5 -/
def exDocFull : Doc :=
  ⟨exCatOpts, 1, 3, Nodes.ofList [.page 2 exPageOpts, .tmpl 3 exPageOpts,
    .pages 4 1 (Nodes.ofList [.page 5 PageOpts.none])]⟩

end Parsley.CatalogRules
