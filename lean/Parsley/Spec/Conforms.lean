/-
  Declarative reading of property C08: when does an object CONFORM to a type-check specification.
  Independent of the machine of Model/TypeCheck.lean: only the data types (`Obj`, `Chk`, `Ctx`,
  `Graph`, `Pred.eval`) are shared; nothing here mentions pending checks, memo, stack or backtracking.

  * `value g o`       the value an object denotes: references are followed; an undefined reference, or
                      a chain that never reaches a value, denotes `null`.
  * `confStep f o c`  ONE unfolding of the definition, with `f` standing for conformance of the
                      components: the check is resolved (an unknown name is satisfied by nothing); the
                      indirection requirement of the node applies to `o` itself (required: `o` must be a
                      reference, forbidden: it must not be); the predicate of the node applies to the
                      value; then the shape: primitive types look at the value, arrays/dictionaries/
                      streams at the components of the value, a disjunction holds iff one alternative
                      holds for the same object.
  * `conf n`          the decreasing chain conf 0 = true, conf (n+1) = confStep (conf n);
    `Conforms`        its limit (greatest fixed point: cyclic object graphs against recursive types
                      conform unless some finite unfolding refutes it).
  * `gfp`             executable oracle: the same `confStep` iterated on a table over the finite universe
                      (objects of the graph x nodes of the specification) until it is stable.
-/
import Parsley.Model.TypeCheck
namespace Parsley.TC.Spec
open Parsley Parsley.TC

def deref (g : Graph) : Nat → Obj → Obj
  | 0, _ => .null
  | n+1, .ref a b =>
    match g.lookup (a, b) with
    | some t => deref g n t
    | none => .null
  | _+1, o => o

/-- the value denoted by `o` (a chain longer than the number of definitions has a cycle) -/
def value (g : Graph) (o : Obj) : Obj := deref g (g.length + 1) o

def indOK (o : Obj) : Ind → Bool
  | .required => o.isRef
  | .forbidden => !o.isRef
  | .allowed => true

def predOK (p : Option Pred) (v : Obj) : Bool :=
  match p with
  | none => true
  | some p => p.eval v

def primOK : Obj → Prim → Bool
  | .bool _, .bool => true
  | .str _, .string => true
  | .name _, .name => true
  | .null, .null => true
  | .int _, .integer => true
  | .real _ _, .real => true
  | .comment _, .comment => true
  | _, _ => false

/-- a dictionary entry `key : opt chk` against the dictionary `kvs` -/
def entOK (f : Obj → Chk → Bool) (kvs : ObjL) (e : Bytes × KeySpec × Chk) : Bool :=
  match kvs.get e.1, e.2.1 with
  | none, .required => false
  | none, _ => true
  | some _, .forbidden => false
  | some x, _ => f x e.2.2

def pairsOK (f : Obj → Chk → Bool) : List Obj → List Chk → Bool
  | [], [] => true
  | x :: xs, c :: cs => f x c && pairsOK f xs cs
  | _, _ => false

def shapeOK (f : Obj → Chk → Bool) (o v : Obj) : Chk → Bool
  | .named _ => false
  | .any _ => true
  | .prim _ p => primOK v p
  | .array _ elem size =>
    match v with
    | .arr xs =>
      (match size with | some sz => decide (xs.vals.length = sz) | none => true)
        && xs.vals.all (fun x => f x elem)
    | _ => false
  | .het _ elems =>
    match v with
    | .arr xs => pairsOK f xs.vals elems.chks
    | _ => false
  | .dict _ ents =>
    match v with
    | .dict kvs => ents.toList.all (entOK f kvs)
    | _ => false
  | .dictStar _ ents sopt schk =>
    match v with
    | .dict kvs =>
      ents.toList.all (entOK f kvs) &&
        kvs.toList.all (fun kv =>
          (ents.toList.map (·.1)).contains kv.1 || (decide (sopt ≠ .forbidden) && f kv.2 schk))
    | _ => false
  | .stream _ ents =>
    match v with
    | .stream kvs _ _ => ents.toList.all (entOK f kvs)
    | _ => false
  | .disj _ opts => opts.chks.any (fun alt => f o alt)

def confStep (g : Graph) (ctx : Ctx) (f : Obj → Chk → Bool) (o : Obj) (c : Chk) : Bool :=
  match resolve ctx c with
  | none => false
  | some r =>
    let v := value g o
    indOK o r.attr.ind && predOK r.attr.pred v && shapeOK f o v r

def conf (g : Graph) (ctx : Ctx) : Nat → Obj → Chk → Bool
  | 0 => fun _ _ => true
  | n+1 => confStep g ctx (conf g ctx n)

/-- the declarative notion of the property statement -/
def Conforms (g : Graph) (ctx : Ctx) (o : Obj) (c : Chk) : Prop := ∀ n, conf g ctx n o c = true

/-! ### finite universe and the executable greatest fixed point -/

mutual
def objSubs : Obj → List Obj
  | .arr xs => .arr xs :: objLSubs xs
  | .dict kvs => .dict kvs :: objLSubs kvs
  | .stream kvs a b => .stream kvs a b :: objLSubs kvs
  | o => [o]
def objLSubs : ObjL → List Obj
  | .nil => []
  | .cons _ v t => objSubs v ++ objLSubs t
end

mutual
def chkSubs : Chk → List Chk
  | .named n => [.named n]
  | .any a => [.any a]
  | .prim a p => [.prim a p]
  | .array a e s => .array a e s :: chkSubs e
  | .het a es => .het a es :: chkLSubs es
  | .dict a es => .dict a es :: chkLSubs es
  | .dictStar a es so sc => .dictStar a es so sc :: (chkLSubs es ++ chkSubs sc)
  | .stream a es => .stream a es :: chkLSubs es
  | .disj a os => .disj a os :: chkLSubs os
def chkLSubs : ChkL → List Chk
  | .nil => []
  | .cons _ _ c t => chkSubs c ++ chkLSubs t
end

def allObjs (g : Graph) (o : Obj) : List Obj :=
  (Obj.null :: objSubs o ++ g.flatMap (fun d => objSubs d.2)).eraseDups

def allChks (ctx : Ctx) (c : Chk) : List Chk :=
  (chkSubs c ++ ctx.flatMap (fun d => chkSubs d.2)).eraseDups

def pairUniverse (g : Graph) (ctx : Ctx) (o : Obj) (c : Chk) : List Pend :=
  (allObjs g o).flatMap fun x => (allChks ctx c).map fun d => (x, d)

abbrev Table := List (Pend × Bool)

def Table.get (t : Table) (o : Obj) (c : Chk) : Bool :=
  match t.find? (fun e => decide (e.1 = (o, c))) with
  | some e => e.2
  | none => true

def Table.next (g : Graph) (ctx : Ctx) (t : Table) : Table :=
  t.map fun e => (e.1, confStep g ctx t.get e.1.1 e.1.2)

def iter (g : Graph) (ctx : Ctx) : Nat → Table → Table
  | 0, t => t
  | n+1, t =>
    let t' := Table.next g ctx t
    if t'.map (·.2) = t.map (·.2) then t else iter g ctx n t'

/-- the oracle: the greatest fixed point of `confStep` on the universe of the case -/
def gfp (g : Graph) (ctx : Ctx) (o : Obj) (c : Chk) : Bool :=
  let u := pairUniverse g ctx o c
  let t0 : Table := u.map fun p => (p, true)
  (iter g ctx (u.length + 1) t0).get o c

end Parsley.TC.Spec
