/-
  Spec of number tokens WITH a decimal point (oracle of the `dec` literals of C02's run).

  A token  [sign] ds . fs  (two runs of decimal digits, at least one digit in all) denotes
    * nothing when the number written by ALL the digits (point removed) exceeds 2^127-1, or when
      the power of ten counting the fraction digits does (39 or more fraction digits): the token
      is not a PDF object (the parser reports a numerical overflow),
    * with at least one fraction digit: the Real (numerator = the signed number written by all the
      digits, denominator = 10^(number of fraction digits)), unnormalised,
    * with no fraction digit (`12.`): what the point-free token denotes (`NumLit.denote`): the
      Integer inside the i64 range, the Real value/1 outside.
  Leading zeros and a plus sign do not matter; trailing zeros of the fraction do (they enlarge
  numerator and denominator alike: `1.` + 38 zeros is 10^38/10^38, one zero more is not an object).

  Import-free (core + the value type of Parsley.Model.Obj + Spec/NumLit.lean).  Independent of
  the parser model: plain arithmetic on the written digits.
-/
import Parsley.Spec.NumLit
namespace Parsley.DecLit
open Parsley Parsley.Obj

/-- the number written by a run of decimal digits (bytes '0'..'9') -/
def decVal (ds : Bytes) : Nat := ds.foldl (fun a c => a * 10 + (c.toNat - 48)) 0

/-- **What the token `[sign] ds . fs` denotes** (`neg`: a minus sign is written). -/
def denote (neg : Bool) (ds fs : Bytes) : Option Obj :=
  let num := decVal (ds ++ fs)
  let den := 10 ^ fs.length
  if num > NumLit.i128Hi || den > NumLit.i128Hi then none
  else if fs.isEmpty then NumLit.denote neg num
  else some (.real (NumLit.signed neg num) den)

/-- is the token an Integer object (then a following `ws int ws R` would make a reference attempt)? -/
def isInt (neg : Bool) (ds fs : Bytes) : Bool :=
  match denote neg ds fs with | some (.int _) => true | _ => false

end Parsley.DecLit
