/-
  Declarative side of C06, FlateDecode with DYNAMIC-Huffman blocks (RFC 1951 3.2.2 / 3.2.7) and
  with streams that mix the three block types.  A spec-side DEFLATE *encoder*:
    * canonical Huffman codes from a list of code lengths (3.2.2: bl_count, next_code, codes
      handed out in symbol order within each length);
    * the block header (3.2.7): HLIT, HDIST, HCLEN, the code lengths of the code-length alphabet
      in the order 16 17 18 0 8 7 9 6 10 5 11 4 12 3 13 2 14 1 15, and the literal/length +
      distance code lengths run-length coded with symbols 16 / 17 / 18 — the spelling is a VALUE
      of the input (`Rle` items), so every legal spelling is covered;
    * the block body for an arbitrary LZ77 factorisation (token type of Spec/DeflateFixed.lean)
      under an arbitrary valid assignment of code lengths;
    * streams of stored / fixed / dynamic blocks in any order (a stored block is aligned to the
      next byte boundary of the stream).
  Which sets of code lengths are *valid* (`lensOk`): every length at most 15 and Kraft's sum
  equal to one (a complete code), or the two incomplete cases every DEFLATE decoder takes — no
  code at all, a single code of length one.  The code-length alphabet must be complete.
  Nothing here mentions the model.  Import-free (Base + Spec only): used by the driver.
-/
import Parsley.Base.Basic
import Parsley.Spec.Filters
import Parsley.Spec.DeflateFixed
namespace Parsley.DeflateDyn
open Parsley Parsley.DeflateFixed

/-! ### RFC 1951 3.2.2: the canonical code of a list of code lengths (0 = symbol not used) -/

/-- step 2: the smallest code of each length; `bl_count[0]` is taken as 0 -/
def nextCode (ls : List Nat) : Nat → Nat
  | 0 => 0
  | l + 1 => (nextCode ls l + (if l == 0 then 0 else ls.count l)) * 2

/-- step 3: the codes of one length are consecutive, in symbol order -/
def codeOf (ls : List Nat) (s : Nat) : Nat :=
  nextCode ls (ls[s]?.getD 0) + (ls.take s).count (ls[s]?.getD 0)

/-- the code of symbol `s`, most significant bit first (empty for an unused symbol) -/
def symBits (ls : List Nat) (s : Nat) : List Bool := msbBits (ls[s]?.getD 0) (codeOf ls s)

/-- all codes of an alphabet, computed once (what the encoders below look symbols up in) -/
def codeTable (ls : List Nat) : Array (List Bool) := ((List.range ls.length).map (symBits ls)).toArray

/-- Kraft's sum, scaled by 2^15: a code of length `l` takes `2^(15-l)` of the `2^15` code points -/
def kraft (ls : List Nat) : Nat := (ls.map fun l => if l == 0 then 0 else 2 ^ (15 - l)).sum

/-- valid code lengths for the literal/length and the distance alphabet -/
def lensOk (ls : List Nat) : Bool :=
  ls.all (· ≤ 15) &&
    (kraft ls == 2 ^ 15                              -- complete
      || ls.all (· == 0)                             -- no code at all (a block without distances)
      || (ls.all (· ≤ 1) && ls.count 1 == 1))        -- a single code, of length 1

/-! ### RFC 1951 3.2.7: the block header -/

def clOrder : List Nat := [16, 17, 18, 0, 8, 7, 9, 6, 10, 5, 11, 4, 12, 3, 13, 2, 14, 1, 15]

/-- one item of the run-length coded sequence of code lengths -/
inductive Rle where
  | len (v : Nat)       -- symbols 0..15: one code length
  | prev (e : Nat)      -- symbol 16: the previous length, 3 + e times (2 extra bits)
  | zeros (e : Nat)     -- symbol 17: 3 + e zeros (3 extra bits)
  | zerosL (e : Nat)    -- symbol 18: 11 + e zeros (7 extra bits)
deriving Repr, DecidableEq, Inhabited

def Rle.sym : Rle → Nat
  | .len v => v
  | .prev _ => 16
  | .zeros _ => 17
  | .zerosL _ => 18

/-- the code lengths a spelling stands for, after `acc`; `none` = not a spelling (a value that
    does not fit its field, symbol 16 with nothing before it) -/
def expand : List Rle → List Nat → Option (List Nat)
  | [], acc => some acc
  | .len v :: t, acc => if v < 16 then expand t (acc ++ [v]) else none
  | .prev e :: t, acc =>
    match acc.getLast? with
    | some p => if e < 4 then expand t (acc ++ List.replicate (3 + e) p) else none
    | none => none
  | .zeros e :: t, acc => if e < 8 then expand t (acc ++ List.replicate (3 + e) 0) else none
  | .zerosL e :: t, acc => if e < 128 then expand t (acc ++ List.replicate (11 + e) 0) else none

/-- a dynamic block header: the two lists of code lengths (HLIT + 257 and HDIST + 1 of them), the
    19 lengths of the code-length alphabet (by symbol), how many of these are written (HCLEN + 4)
    and the spelling of `litLens ++ distLens` (runs may cross from one list into the other) -/
structure Hdr where
  litLens : List Nat
  distLens : List Nat
  clLens : List Nat
  ncode : Nat
  rle : List Rle
deriving Repr, Inhabited

def Hdr.ok (h : Hdr) : Bool :=
  257 ≤ h.litLens.length && h.litLens.length ≤ 286 &&
  1 ≤ h.distLens.length && h.distLens.length ≤ 30 &&
  lensOk h.litLens && lensOk h.distLens &&
  0 < h.litLens[256]?.getD 0 &&                          -- the end-of-block symbol has a code
  h.clLens.length == 19 && h.clLens.all (· ≤ 7) && kraft h.clLens == 2 ^ 15 &&
  4 ≤ h.ncode && h.ncode ≤ 19 &&
  (clOrder.drop h.ncode).all (fun s => h.clLens[s]?.getD 0 == 0) &&    -- what is not written is 0
  expand h.rle [] == some (h.litLens ++ h.distLens) &&
  h.rle.all (fun it => 0 < h.clLens[it.sym]?.getD 0)    -- every symbol of the spelling has a code

def rleBits (cl : Nat → List Bool) : Rle → List Bool
  | .len v => cl v
  | .prev e => cl 16 ++ lsbBits 2 e
  | .zeros e => cl 17 ++ lsbBits 3 e
  | .zerosL e => cl 18 ++ lsbBits 7 e

def rlesBits (cl : Nat → List Bool) : List Rle → List Bool
  | [] => []
  | it :: t => rleBits cl it ++ rlesBits cl t

def clLensBits (clLens : List Nat) : List Nat → List Bool
  | [] => []
  | s :: t => lsbBits 3 (clLens[s]?.getD 0) ++ clLensBits clLens t

/-- HLIT (5 bits), HDIST (5), HCLEN (4), HCLEN + 4 three-bit lengths, the coded lengths -/
def hdrBits (h : Hdr) : List Bool :=
  let tab := codeTable h.clLens
  lsbBits 5 (h.litLens.length - 257) ++ (lsbBits 5 (h.distLens.length - 1) ++ (lsbBits 4 (h.ncode - 4) ++
    (clLensBits h.clLens (clOrder.take h.ncode) ++ rlesBits (fun s => tab[s]?.getD []) h.rle)))

/-! ### the block body -/

/-- a token under the codes `lc` (literal/length alphabet) and `dc` (distance alphabet) -/
def tokBitsG (lc dc : Nat → List Bool) : Tok → List Bool
  | .lit b => lc b.toNat
  | .copy ls le ds de =>
    lc (257 + ls) ++ (lsbBits (lenExtra[ls]?.getD 0) le ++ (dc ds ++ lsbBits (distExtra[ds]?.getD 0) de))

def toksBitsG (lc dc : Nat → List Bool) : List Tok → List Bool
  | [] => []
  | t :: ts => tokBitsG lc dc t ++ toksBitsG lc dc ts

/-- the symbols of the token have codes -/
def tokUsable (ll dl : List Nat) : Tok → Bool
  | .lit b => 0 < ll[b.toNat]?.getD 0
  | .copy ls _ ds _ => 0 < ll[257 + ls]?.getD 0 && 0 < dl[ds]?.getD 0

/-- header, tokens, end-of-block -/
def dynBits (h : Hdr) (toks : List Tok) : List Bool :=
  let lt := codeTable h.litLens
  let dt := codeTable h.distLens
  hdrBits h ++ (toksBitsG (fun s => lt[s]?.getD []) (fun s => dt[s]?.getD []) toks ++ lt[256]?.getD [])

/-! ### streams of blocks of all three types -/

inductive Block where
  | stored (data : Bytes)
  | fixed (toks : List Tok)
  | dyn (h : Hdr) (toks : List Tok)
deriving Repr, Inhabited

/-- the block as a factorisation: a stored block is its bytes as literals -/
def Block.toks : Block → List Tok
  | .stored d => d.map Tok.lit
  | .fixed t => t
  | .dyn _ t => t

def Block.ok : Block → Bool
  | .stored d => d.length ≤ 65535
  | .fixed _ => true
  | .dyn h t => h.ok && t.all (tokUsable h.litLens h.distLens)

def bitsOfBytes : Bytes → List Bool
  | [] => []
  | b :: t => lsbBits 8 b.toNat ++ bitsOfBytes t

/-- LEN and NLEN of a stored block, least significant byte first -/
def lenBytes (n : Nat) : Bytes :=
  [UInt8.ofNat (n % 256), UInt8.ofNat (n / 256), UInt8.ofNat (255 - n % 256), UInt8.ofNat (255 - n / 256)]

/-- one block written at bit position `pos` of the DEFLATE stream: BFINAL, BTYPE (two bits, least
    significant first: 00 stored, 01 fixed, 10 dynamic); a stored block skips to the next byte
    boundary before LEN -/
def blockBitsAt (pos : Nat) (final : Bool) : Block → List Bool
  | .stored d =>
    [final, false, false] ++ (List.replicate ((8 - (pos + 3) % 8) % 8) false ++ bitsOfBytes (lenBytes d.length ++ d))
  | .fixed t => blockBits final t
  | .dyn h t => [final, false, true] ++ dynBits h t

/-- the non-final blocks `bs`, then the final block `last` -/
def streamBitsAt : Nat → List Block → Block → List Bool
  | pos, [], last => blockBitsAt pos true last
  | pos, b :: bs, last =>
    let bits := blockBitsAt pos false b
    bits ++ streamBitsAt (pos + bits.length) bs last

/-- a zlib stream (CMF 0x78, FLG 0x01) whose DEFLATE data are the given blocks and whose Adler-32
    is that of `payload` -/
def zlibBlocks (bs : List Block) (last : Block) (payload : Bytes) : Bytes :=
  [0x78, 0x01] ++ pack (streamBitsAt 0 bs last) ++ FiltersSpec.be32Bytes (FiltersSpec.adler32 payload)

/-- `bs ++ [last]` is a valid encoding plan of `payload`: every block is well formed and the
    blocks' tokens are an LZ77 factorisation of the payload -/
def planOk (bs : List Block) (last : Block) (payload : Bytes) : Prop :=
  (∀ b ∈ bs ++ [last], b.ok = true) ∧ resolveBlocks ((bs ++ [last]).map Block.toks) [] = some payload

/-- `planOk` as a Boolean (what the judge evaluates on every generated case; the factorisation is
    resolved over arrays, `DeflateFixed.resolveBlocksA`; soundness: `planOkB_sound`) -/
def planOkB (bs : List Block) (last : Block) (payload : Bytes) : Bool :=
  (bs ++ [last]).all Block.ok &&
    (resolveBlocksA ((bs ++ [last]).map Block.toks) #[]).map Array.toList == some payload

/-! ### executable helpers for the generators -/

/-- a spelling of `lens` chosen by `ch` (indexed by position): a run of `n ≥ 3` equal lengths may
    be written with 16 (after its first element) / 17 / 18 (zeros), covering `3 .. max` of the run
    (`ch i / 4 = 0`: as much as the symbol can cover), or length by length (`ch i % 4 = 3`) -/
def runLen (a : Array Nat) (i v : Nat) : (f j : Nat) → Nat
  | 0, j => j
  | f + 1, j => if i + j < a.size && a[i + j]?.getD 0 == v then runLen a i v f (j + 1) else j

def spell (ch : Nat → Nat) (lens : List Nat) : List Rle :=
  let a := lens.toArray
  let rec go (fuel i : Nat) (acc : List Rle) : List Rle :=
    match fuel with
    | 0 => acc.reverse
    | fuel + 1 =>
      if i ≥ a.size then acc.reverse else
      let v := a[i]?.getD 0
      let n := runLen a i v (a.size - i) 0            -- length of the run of `v` starting at `i`
      let c := ch i
      if v == 0 && n ≥ 11 && c % 4 == 0 then
        let k := min n 138 - (c / 4) % (min n 138 - 10)
        go fuel (i + k) (.zerosL (k - 11) :: acc)
      else if v == 0 && n ≥ 3 && c % 4 ≤ 1 then
        let k := min n 10 - (c / 4) % (min n 10 - 2)
        go fuel (i + k) (.zeros (k - 3) :: acc)
      else if i > 0 && a[i - 1]?.getD 0 == v && n ≥ 3 && c % 4 ≤ 2 then
        let k := min n 6 - (c / 4) % (min n 6 - 2)
        go fuel (i + k) (.prev (k - 3) :: acc)
      else go fuel (i + 1) (.len v :: acc)
  go (a.size + 1) 0 []

/-- the frequency of every symbol `< n` in a list of symbols -/
def freqs (n : Nat) (syms : List Nat) : Array Nat :=
  syms.foldl (fun a s => a.modify s (· + 1)) (Array.replicate n 0)

/-- a complete code over the `k` symbols of `order` (`k ≥ 2`) by recursive splitting of the code
    space: `skew i` (0..255) chooses how unevenly node `i` splits (0: one leaf against the rest — codes as
    long as `limit` allows; 128: in halves); no code longer than `limit` -/
def splitLens (limit : Nat) (skew : Nat → Nat) : (fuel k depth idx : Nat) → List Nat
  | 0, k, depth, _ => List.replicate k depth
  | fuel + 1, k, depth, idx =>
    if k ≤ 1 then List.replicate k depth else
    let cap := 2 ^ (limit - depth - 1)            -- how many leaves fit below one child
    let lo := if k > cap then k - cap else 1
    let hi := if k - 1 < cap then k - 1 else cap
    let a := lo + (hi - lo) * (skew idx % 256) / 255
    splitLens limit skew fuel a (depth + 1) (2 * idx + 1) ++ splitLens limit skew fuel (k - a) (depth + 1) (2 * idx + 2)

/-- code lengths for an alphabet of `n` symbols in which exactly the symbols of `used` (distinct,
    `< n`) have codes; `used` is taken in the given order (put frequent symbols where the skew makes
    short codes).  One used symbol gets length 1 (incomplete, valid for literal/length and distance
    alphabets only) -/
def assignLens (limit : Nat) (skew : Nat → Nat) (n : Nat) (used : List Nat) : List Nat :=
  let ls := match used.length with
    | 0 => []
    | 1 => [1]
    | k => splitLens limit skew (k + 1) k 0 0
  let a := (used.zip ls).foldl (fun (a : Array Nat) (p : Nat × Nat) => a.setIfInBounds p.1 p.2) (Array.replicate n 0)
  a.toList

/-- the symbols of a token list: literal/length symbols and distance symbols -/
def tokSyms (toks : List Tok) : List Nat × List Nat :=
  toks.foldr (fun t (p : List Nat × List Nat) =>
    match t with
    | .lit b => (b.toNat :: p.1, p.2)
    | .copy ls _ ds _ => ((257 + ls) :: p.1, ds :: p.2)) ([], [])

/-- the symbols with non-zero frequency, most frequent first (insertion sort: alphabets are small) -/
def byFreq (f : Array Nat) : List Nat :=
  let used := (List.range f.size).filter (fun s => f[s]?.getD 0 > 0)
  used.foldl (fun (acc : List Nat) s =>
    let w := f[s]?.getD 0
    acc.takeWhile (fun t => f[t]?.getD 0 ≥ w) ++ s :: acc.dropWhile (fun t => f[t]?.getD 0 ≥ w)) []

/-- a header for a block holding `toks`, chosen by `style`:
    `style % 3` the shape of the codes (0 balanced, 1 as long as possible: lengths up to 15 / 7, 2 irregular);
    `style / 3 % 3` the alphabets (0 only the symbols used, HLIT / HDIST minimal; 1 the same codes, HLIT / HDIST
    maximal (trailing zero lengths written); 2 every one of the 286 / 30 / 19 symbols has a code);
    `style / 9 % 3` the run-length spelling (0 length by length, 1 irregular, 2 longest runs);
    `style / 27 % 2` HCLEN minimal or 19;  `style / 54 % 2` an alphabet with one used symbol: a single code of
    length 1 (incomplete) or a complete code with a second, unused symbol -/
def mkHdr (toks : List Tok) (style : Nat) : Hdr :=
  let shape := style % 3
  let alpha := style / 3 % 3
  let spellSel := style / 9 % 3
  let fullCl := style / 27 % 2 == 1
  let complete1 := style / 54 % 2 == 1
  let skew : Nat → Nat := match shape with
    | 0 => fun _ => 128
    | 1 => fun _ => 0
    | _ => fun i => (i * 7919 + style * 104729) / 7 % 256
  let (ls, ds) := tokSyms toks
  let order (n : Nat) (syms : List Nat) : List Nat :=
    let u := byFreq (freqs n syms)
    let u := if alpha == 2 then u ++ (List.range n).filter (fun s => !u.contains s) else u
    if u.length == 1 && complete1 then u ++ [if u == [0] then 1 else 0] else u
  let trim (l : List Nat) (mn : Nat) : List Nat :=
    if alpha == 1 then l else l.take (max (l.reverse.dropWhile (· == 0)).length mn)
  let ll := trim (assignLens 15 skew 286 (order 286 (256 :: ls))) 257
  let dl := trim (assignLens 15 skew 30 (order 30 ds)) 1
  let ch : Nat → Nat := match spellSel with
    | 0 => fun _ => 3
    | 1 => fun i => (i * 7919 + style * 104729) / 3 % 4096
    | _ => fun _ => 0
  let rle := spell ch (ll ++ dl)
  let uc := order 19 (rle.map Rle.sym)
  let uc := if uc.length == 1 then uc ++ [if uc == [0] then 1 else 0] else uc
  let cl := assignLens 7 skew 19 uc
  let nc := if fullCl then 19 else max 4 (clOrder.reverse.dropWhile (fun s => cl[s]?.getD 0 == 0)).length
  ⟨ll, dl, cl, nc, rle⟩

/-- the number of bytes a token list stands for -/
def spanLen (toks : List Tok) : Nat :=
  toks.foldl (fun n t => match t with | .lit _ => n + 1 | .copy ls le _ _ => n + copyLen ls le) 0

end Parsley.DeflateDyn
