/-
  Declarative side of C06, FlateDecode with fixed-Huffman blocks (RFC 1951 3.2.5 / 3.2.6):
  a spec-side DEFLATE *encoder* for blocks of type 01 from an arbitrary LZ77 factorisation given
  at the level of code symbols (so every legal encoder choice — which length symbol, which extra
  bits, how the data are cut into blocks — is a value of the input type), the meaning of a
  factorisation (`resolve`), and an executable greedy factoriser for the generators.
  Nothing here mentions the model.  Import-free (Base + Spec only): used by the driver.
-/
import Parsley.Base.Basic
import Parsley.Spec.Filters
namespace Parsley.DeflateFixed
open Parsley

/-! ### RFC 1951 3.2.5: length and distance symbols -/

/-- base length of length symbol `257 + i` -/
def lenBase : List Nat := [3,4,5,6,7,8,9,10,11,13,15,17,19,23,27,31,35,43,51,59,67,83,99,115,131,163,195,227,258]
/-- number of extra bits of length symbol `257 + i` -/
def lenExtra : List Nat := [0,0,0,0,0,0,0,0,1,1,1,1,2,2,2,2,3,3,3,3,4,4,4,4,5,5,5,5,0]
/-- base distance of distance symbol `i` -/
def distBase : List Nat := [1,2,3,4,5,7,9,13,17,25,33,49,65,97,129,193,257,385,513,769,1025,1537,2049,3073,4097,6145,8193,12289,16385,24577]
/-- number of extra bits of distance symbol `i` -/
def distExtra : List Nat := [0,0,0,0,1,1,2,2,3,3,4,4,5,5,6,6,7,7,8,8,9,9,10,10,11,11,12,12,13,13]

/-- One element of a compressed block, at the level of code symbols: a literal byte, or a
    `<length, distance>` pair written as length symbol `257 + ls` with the value `le` in its extra
    bits and distance symbol `ds` with `de` in its extra bits. -/
inductive Tok where
  | lit (b : UInt8)
  | copy (ls le ds de : Nat)
deriving Repr, DecidableEq, Inhabited

def copyLen (ls le : Nat) : Nat := lenBase[ls]?.getD 0 + le
def copyDist (ds de : Nat) : Nat := distBase[ds]?.getD 0 + de

/-- the symbols exist and the extra values fit their fields -/
def codeOk (ls le ds de : Nat) : Bool :=
  ls < 29 && le < 2 ^ (lenExtra[ls]?.getD 0) && ds < 30 && de < 2 ^ (distExtra[ds]?.getD 0)

/-- an LZ77 copy: `n` bytes, each the byte `dist` positions back in what has been produced so far
    (source and destination may overlap) -/
def lzCopy (dist : Nat) : Nat → Bytes → Bytes
  | 0, out => out
  | n + 1, out => lzCopy dist n (out ++ [out[out.length - dist]?.getD 0])

/-- the data a token list stands for, after `out`; `none` = not a valid factorisation (a symbol
    that does not exist, an extra value that does not fit, a distance reaching before the start) -/
def resolve : List Tok → Bytes → Option Bytes
  | [], out => some out
  | .lit b :: t, out => resolve t (out ++ [b])
  | .copy ls le ds de :: t, out =>
    if codeOk ls le ds de && decide (copyDist ds de ≤ out.length) then
      resolve t (lzCopy (copyDist ds de) (copyLen ls le) out)
    else none

/-- the data of a list of blocks -/
def resolveBlocks : List (List Tok) → Bytes → Option Bytes
  | [], out => some out
  | b :: bs, out => match resolve b out with
    | some out => resolveBlocks bs out
    | none => none

/-! ### the same meaning over arrays (linear time: used by the judge on large payloads;
       `resolveBlocksA_eq` in Lemmas/InflateFixed.lean proves it equal to `resolveBlocks`) -/

def lzCopyA (dist : Nat) : Nat → Array UInt8 → Array UInt8
  | 0, out => out
  | n + 1, out => lzCopyA dist n (out.push (out[out.size - dist]?.getD 0))

def resolveA : List Tok → Array UInt8 → Option (Array UInt8)
  | [], out => some out
  | .lit b :: t, out => resolveA t (out.push b)
  | .copy ls le ds de :: t, out =>
    if codeOk ls le ds de && decide (copyDist ds de ≤ out.size) then
      resolveA t (lzCopyA (copyDist ds de) (copyLen ls le) out)
    else none

def resolveBlocksA : List (List Tok) → Array UInt8 → Option (Array UInt8)
  | [], out => some out
  | b :: bs, out => match resolveA b out with
    | some out => resolveBlocksA bs out
    | none => none

/-! ### bits -/

/-- the low `n` bits of `v`, least significant first (extra bits, header fields: RFC 1951 3.1.1) -/
def lsbBits : Nat → Nat → List Bool
  | 0, _ => []
  | n + 1, v => (v % 2 == 1) :: lsbBits n (v / 2)

/-- the low `n` bits of `v`, most significant first (Huffman codes) -/
def msbBits : Nat → Nat → List Bool
  | 0, _ => []
  | n + 1, v => (v / 2 ^ n % 2 == 1) :: msbBits n v

/-- the value of a bit string, least significant first -/
def natOfBits : List Bool → Nat
  | [] => 0
  | b :: t => b.toNat + 2 * natOfBits t

/-- fixed literal/length code (3.2.6): literals 0-143 → 8 bits 00110000.., 144-255 → 9 bits 110010000.. -/
def litBits (b : UInt8) : List Bool :=
  if b.toNat < 144 then msbBits 8 (0x30 + b.toNat) else msbBits 9 (0x190 + (b.toNat - 144))

/-- length symbols 257-279 → 7 bits 0000001.., 280-287 → 8 bits 11000000.. -/
def lenSymBits (ls : Nat) : List Bool :=
  if ls < 23 then msbBits 7 (ls + 1) else msbBits 8 (0xC0 + (ls - 23))

/-- end-of-block, symbol 256: 7 bits 0000000 -/
def eobBits : List Bool := msbBits 7 0

def tokBits : Tok → List Bool
  | .lit b => litBits b
  | .copy ls le ds de =>
    lenSymBits ls ++ lsbBits (lenExtra[ls]?.getD 0) le ++ msbBits 5 ds ++ lsbBits (distExtra[ds]?.getD 0) de

def toksBits : List Tok → List Bool
  | [] => []
  | t :: ts => tokBits t ++ toksBits ts

/-- one block of type 01: BFINAL, BTYPE = 01 (least significant bit first), the tokens, end-of-block -/
def blockBits (final : Bool) (toks : List Tok) : List Bool :=
  [final, true, false] ++ toksBits toks ++ eobBits

/-- a DEFLATE stream: one non-final fixed-Huffman block per token list, closed by an empty final
    fixed-Huffman block (blocks follow each other without alignment) -/
def streamBits : List (List Tok) → List Bool
  | [] => blockBits true []
  | b :: bs => blockBits false b ++ streamBits bs

/-- a byte from up to 8 bits, least significant first -/
def byteOfBits (l : List Bool) : UInt8 := UInt8.ofNat (natOfBits l)

/-- pack a bit string into bytes, least significant bit first; the last byte is padded with zeros -/
def pack : List Bool → Bytes
  | b0 :: b1 :: b2 :: b3 :: b4 :: b5 :: b6 :: b7 :: t => byteOfBits [b0, b1, b2, b3, b4, b5, b6, b7] :: pack t
  | [] => []
  | l => [byteOfBits l]

/-- a zlib stream (CMF 0x78, FLG 0x01) whose DEFLATE data are the fixed-Huffman blocks `blocks`
    and whose Adler-32 is that of `payload` -/
def zlibFixed (blocks : List (List Tok)) (payload : Bytes) : Bytes :=
  [0x78, 0x01] ++ pack (streamBits blocks) ++ FiltersSpec.be32Bytes (FiltersSpec.adler32 payload)

/-- the same stream shape as most real encoders write it: the last token list is the FINAL block
    itself (no empty closing block) -/
def streamBitsF : List (List Tok) → List Tok → List Bool
  | [], last => blockBits true last
  | b :: bs, last => blockBits false b ++ streamBitsF bs last

def zlibFixedF (blocks : List (List Tok)) (last : List Tok) (payload : Bytes) : Bytes :=
  [0x78, 0x01] ++ pack (streamBitsF blocks last) ++ FiltersSpec.be32Bytes (FiltersSpec.adler32 payload)

/-! ### an executable factoriser for the generators (greedy, over a list of candidate distances) -/

/-- the symbol whose range holds `v`: the last index whose base is `≤ v` -/
def symOf (base : List Nat) (v : Nat) : Nat :=
  (base.takeWhile (· ≤ v)).length - 1

/-- a `<len, dist>` pair as symbols; `alt` chooses symbol 284 + extra 31 for length 258 -/
def mkCopy (alt : Bool) (len dist : Nat) : Tok :=
  let ls := if alt && len == 258 then 27 else symOf lenBase len
  let ds := symOf distBase dist
  .copy ls (len - lenBase[ls]?.getD 0) ds (dist - distBase[ds]?.getD 0)

/-- length of the match of position `i` with position `i - d`, at most `cap` -/
def matchLen (a : Array UInt8) (i d cap : Nat) : Nat :=
  let rec go (fuel k : Nat) : Nat :=
    match fuel with
    | 0 => k
    | fuel + 1 => if i + k < a.size && a[i + k - d]? == a[i + k]? then go fuel (k + 1) else k
  go cap 0

/-- greedy factorisation: at each position the longest match among the candidate distances
    (at least 3, at most `cap ≤ 258` bytes), unless `skip` says to write a literal anyway -/
def factorise (cands : List Nat) (cap : Nat) (alt : Bool) (skip : Nat → Bool) (data : Bytes) : List Tok :=
  let a := data.toArray
  let cap := if cap < 3 then 3 else if cap > 258 then 258 else cap
  let rec go (fuel i : Nat) (acc : List Tok) : List Tok :=
    match fuel with
    | 0 => acc.reverse
    | fuel + 1 =>
      if i ≥ a.size then acc.reverse else
      let best := cands.foldl (fun (bst : Nat × Nat) d =>
        if d ≥ 1 && d ≤ i && d ≤ 32768 then
          let l := matchLen a i d cap
          if l > bst.1 then (l, d) else bst
        else bst) (0, 0)
      if best.1 ≥ 3 && !skip i then go fuel (i + best.1) (mkCopy alt best.1 best.2 :: acc)
      else go fuel (i + 1) (.lit (a[i]?.getD 0) :: acc)
  go (a.size + 1) 0 []

/-- cut a token list into blocks of `k ≥ 1` tokens -/
def chunk (k : Nat) (toks : List Tok) : List (List Tok) :=
  let k := if k == 0 then 1 else k
  let rec go (fuel : Nat) (l : List Tok) : List (List Tok) :=
    match fuel with
    | 0 => []
    | fuel + 1 => if l.isEmpty then [] else l.take k :: go fuel (l.drop k)
  go (toks.length + 1) toks

end Parsley.DeflateFixed
