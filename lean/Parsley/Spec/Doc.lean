/-
  C03 / C04 spec side: what a document IS and how it may be written down.

  * A revision is a set of objects written (identifier ↦ value), a set of object numbers freed,
    and a root identifier.  A history is a list of revisions, oldest first.
  * `resolve`: the meaning of a history - every object number resolves to what the NEWEST
    revision that mentions it says (a definition, or "free"); the root is the newest root.
    This is the whole declarative content of C03 (one revision) and C04 (several).
  * `renderRev` / `renderHistory`: the encoder.  Every freedom the statement quantifies over is
    a parameter: object values and their spellings (`Spelling.spell` with its choice stream),
    object order and padding, xref offsets pointing at the padding or at the number, classic
    table (subsection partition, entry terminators) / cross-reference stream (/W widths, /Index
    partition, optional FlateDecode with optional PNG-Up predictor) / hybrid (table + /XRefStm),
    object-stream membership, direct or referenced /Length (holder before or after the
    stream), leading garbage, and for histories the /Prev target of every revision.
    The encoder is the generator of the correspondence run, and it returns - next to the bytes -
    what each revision wrote, from which `resolve` computes the expected outcome.
  Nothing here calls the loader model.  Import-free apart from the value type, the C02 spelling
  encoder and the C13 / C14 / C06 / C07 encoders.
-/
import Parsley.Model.Obj
import Parsley.Spec.Spelling
import Parsley.Spec.Xref
import Parsley.Spec.ObjStm
import Parsley.Spec.Filters
import Parsley.Spec.Predictor
namespace Parsley.DocSpec
open Parsley Parsley.Obj Parsley.Spelling

abbrev ObjId := Nat × Nat

def idLt (a b : ObjId) : Bool := a.1 < b.1 || (a.1 == b.1 && a.2 < b.2)

/-! ## meaning -/

/-- what one revision says -/
structure Said where
  written : List (ObjId × Obj)      -- identifier ↦ value
  freed : List Nat                  -- object numbers marked free
  root : ObjId

/-- forget everything known about object number `n` -/
def forget (n : Nat) (m : List (ObjId × Obj)) : List (ObjId × Obj) := m.filter fun e => e.1.1 != n

/-- apply one revision on top of the older ones: whatever it mentions replaces what was known -/
def applyRev (m : List (ObjId × Obj)) (r : Said) : List (ObjId × Obj) :=
  let m1 := r.freed.foldl (fun m n => forget n m) m
  r.written.foldl (fun m e => forget e.1.1 m ++ [e]) m1

/-- insertion into an identifier-ordered list (the order the context's map reports) -/
def insertSorted (e : ObjId × Obj) : List (ObjId × Obj) → List (ObjId × Obj)
  | [] => [e]
  | x :: t => if idLt e.1 x.1 then e :: x :: t else x :: insertSorted e t

def sortDefs (m : List (ObjId × Obj)) : List (ObjId × Obj) := m.foldl (fun acc e => insertSorted e acc) []

/-- the newest revision that mentions a number wins; the root is the newest root -/
def resolve (revs : List Said) : List (ObjId × Obj) × Option ObjId :=
  (sortDefs (revs.foldl applyRev []), (revs.getLast?).map (·.root))

/-! ## objects as written -/

inductive Body where
  | val (canon : Obj) (spelled : Obj)                      -- the value, and the entry order to spell it in
  | stm (entries : List (Bytes × Obj)) (data : Bytes)      -- dictionary entries besides /Length, raw data

/-- one file-level indirect object with its layout choices -/
structure DObj where
  num : Nat
  gen : Nat
  body : Body
  ch : Ch                 -- spelling choices
  pad : Bytes             -- white space / comments before the object
  ofsAtPad : Bool         -- the xref offset points at the padding (else at the object number)
  lenRef : Option Nat     -- stream: /Length is a reference to this object number
  lenPos : Nat            -- where /Length goes among the entries
  eol1 : Nat              -- after `stream`: LF | CR LF
  eol2 : Nat              -- before `endstream`: nothing | CR | LF | CR LF

def kLength : Bytes := bs "Length"

/-- canonical dictionary: entries in key order (`BTreeMap`) -/
def canonKvs (kvs : List (Bytes × Obj)) : List (Bytes × Obj) := kvs.foldl (fun m kv => dictInsert kv.1 kv.2 m) []

def insertAt {α : Type} (l : List α) (k : Nat) (x : α) : List α :=
  let i := if l.length == 0 then 0 else k % (l.length + 1)
  l.take i ++ [x] ++ l.drop i

/-- the stream dictionary as written -/
def streamEntries (o : DObj) (entries : List (Bytes × Obj)) (len : Nat) : List (Bytes × Obj) :=
  insertAt entries o.lenPos (kLength, match o.lenRef with | some h => .ref h 0 | none => .int len)

/-- bytes of one object written at position `pos`; the offset for its xref entry; its value -/
def renderObj (o : DObj) (pos : Nat) : Bytes × Nat × Obj :=
  let (w1, c) := wsReq o.ch
  let (w2, c) := wsOpt c
  let (w3, c) := wsReq c
  let (w4, c) := wsReq c
  let head := o.pad ++ natDigits o.num ++ w1 ++ natDigits o.gen ++ w2 ++ bs "obj" ++ w3
  let ofs := if o.ofsAtPad then pos else pos + o.pad.length
  match o.body with
  | .val canon spelled =>
    let (b, _) := spell spelled c
    (head ++ b ++ w4 ++ bs "endobj" ++ [10], ofs, canon)
  | .stm entries data =>
    let es := streamEntries o entries data.length
    let (d, c) := spell (.dict es) c
    let (w5, _) := wsOpt c
    let e1 : Bytes := if o.eol1 % 2 == 0 then [10] else [13, 10]
    let e2 : Bytes := match o.eol2 % 4 with | 0 => [] | 1 => [13] | 2 => [10] | _ => [13, 10]
    let pre := head ++ d ++ w5 ++ bs "stream" ++ e1
    (pre ++ data ++ e2 ++ bs "endstream" ++ w4 ++ bs "endobj" ++ [10], ofs,
     .stream (canonKvs es) ⟨pos + pre.length, data.length, data⟩)

/-- objects one after the other from `pos`: bytes, (num, gen, offset) of each, values -/
def renderObjs : List DObj → Nat → Bytes × List (Nat × Nat × Nat) × List (ObjId × Obj)
  | [], _ => ([], [], [])
  | o :: t, pos =>
    let (b, ofs, v) := renderObj o pos
    let (bt, us, vs) := renderObjs t (pos + b.length)
    (b ++ bt, (o.num, o.gen, ofs) :: us, ((o.num, o.gen), v) :: vs)

/-! ## cross-reference data -/

/-- one cross-reference entry to be written -/
structure XE where
  num : Nat
  typ : Nat         -- 0 free, 1 in use, 2 in an object stream
  f2 : Nat          -- next free | offset | container number
  f3 : Nat          -- generation | generation | index
deriving Repr, Inhabited

def insertXE (e : XE) : List XE → List XE
  | [] => [e]
  | x :: t => if e.num < x.num then e :: x :: t else x :: insertXE e t

def sortXE (l : List XE) : List XE := l.foldl (fun acc e => insertXE e acc) []

/-- maximal runs of consecutive object numbers, cut further after `cut` entries when `cut > 0` -/
def runs (cut : Nat) : List XE → List (List XE)
  | [] => []
  | e :: t =>
    match runs cut t with
    | (x :: r) :: rest =>
      if e.num + 1 == x.num && !(cut > 0 && (x :: r).length ≥ cut) then (e :: x :: r) :: rest
      else [e] :: (x :: r) :: rest
    | rest => [e] :: rest

def bytesNeeded (v : Nat) : Nat := if v < 256 then 1 else if v < 65536 then 2 else if v < 16777216 then 3 else 4

def maxOf (l : List Nat) : Nat := l.foldl Nat.max 0

/-- layout of a revision's cross-reference data -/
structure RevLay where
  kind : Nat          -- 0 classic table, 1 cross-reference stream, 2 hybrid
  ch : Ch             -- white-space choices of trailer / dictionary / tail
  cut : Nat           -- maximal subsection length (0 = maximal runs)
  eols : List Nat     -- entry terminators of the table, cyclic
  w0 : Nat            -- width of the type field (0 only if every row is type 1)
  x1 : Nat            -- extra bytes for field 2
  x2 : Nat            -- extra bytes for field 3
  omitIndex : Bool    -- leave /Index out when it is [0 Size]
  flate : Bool
  up : Bool           -- PNG-Up predictor (only with flate)
  xnum : Nat          -- object number of the cross-reference stream
  hiddenGen : Nat     -- hybrid: generation written in the table's free entries of hidden objects
  swap : Option (Nat × Nat)   -- exchange the offsets of two in-use entries (identity mismatch)
  relabel : Option (Nat × Nat) := none  -- list object number a under number b (the object itself still says a)
  dictOrder : Nat     -- rotation of the dictionary entries

/-- one revision to be written -/
structure Rev where
  objs : List DObj                        -- file-level objects in file order
  members : List (Nat × Nat × Nat × Obj)  -- (number, container, index, value) of object-stream members
  frees : List (Nat × Nat)                -- (number, generation written in the free entry)
  zero : Bool                             -- write the entry of object 0
  root : ObjId
  lay : RevLay

def eolOf (k : Nat) : XrefSpec.Eol := match k % 3 with | 0 => .spLf | 1 => .spCr | _ => .crLf

def pad10 (n : Nat) : Bytes := XrefSpec.padDec 10 n

/-- a dictionary with pre-rendered values: `<<` ws /Key ws value ... `>>` -/
def spellRaw : List (Bytes × Bytes) → Ch → Bytes × Ch
  | [], c => let (w, c) := wsOpt c; (w ++ [62, 62], c)
  | (k, v) :: t, c =>
    let (w1, c) := wsOpt c
    let (w2, c) := wsReq c
    let (r, c) := spellRaw t c
    (w1 ++ [47] ++ k ++ w2 ++ v ++ r, c)

def rotate {α : Type} (l : List α) (k : Nat) : List α :=
  let i := if l.length == 0 then 0 else k % l.length
  l.drop i ++ l.take i

def refBytes (r : ObjId) : Bytes := natDigits r.1 ++ [32] ++ natDigits r.2 ++ bs " R"

def arrBytes (l : List Nat) : Bytes := [91] ++ (l.flatMap fun n => natDigits n ++ [32]) ++ [93]

/-- the table subsections for sorted entries -/
def tableSubs (lay : RevLay) (es : List XE) : List XrefSpec.TSub :=
  (runs lay.cut es).zipIdx.map fun (run, k) =>
    { start := (run.head?.map (·.num)).getD 0, wStart := (natDigits ((run.head?.map (·.num)).getD 0)).length + k % 2,
      wCount := (natDigits run.length).length, lead := (if k % 3 == 1 then [32] else []),
      hdrEol := (if k % 2 == 0 then [10] else [13, 10]),
      ents := run.zipIdx.map fun (e, j) => ⟨e.f2, e.f3, e.typ == 1, eolOf (lay.eols[(k + j) % (if lay.eols.length == 0 then 1 else lay.eols.length)]?.getD 0)⟩ }

def swapOfs (sw : Option (Nat × Nat)) (us : List (Nat × Nat × Nat)) : List (Nat × Nat × Nat) :=
  match sw with
  | none => us
  | some (a, b) =>
    let oa := (us.find? fun u => u.1 == a).map (·.2.2)
    let ob := (us.find? fun u => u.1 == b).map (·.2.2)
    match oa, ob with
    | some oa, some ob => us.map fun u => if u.1 == a then (u.1, u.2.1, ob) else if u.1 == b then (u.1, u.2.1, oa) else u
    | _, _ => us

def relabelUse (rl : Option (Nat × Nat)) (us : List (Nat × Nat × Nat)) : List (Nat × Nat × Nat) :=
  match rl with
  | none => us
  | some (a, b) => us.map fun u => if u.1 == a then (b, u.2.1, u.2.2) else u

/-- rows of a cross-reference stream and its dictionary entries (without /Length); returns the
    stream data and the entries -/
def xrefStreamParts (lay : RevLay) (es : List XE) (size : Nat) (root : Option ObjId) (prev : Option Nat) :
    Bytes × List (Bytes × Obj) :=
  let allOne := es.all (·.typ == 1)
  let w0 := if lay.w0 == 0 && allOne then 0 else if lay.w0 == 0 then 1 else lay.w0
  let w1 := Nat.min 4 (bytesNeeded (maxOf (es.map (·.f2))) + lay.x1)
  let m3 := maxOf (es.map (·.f3))
  let w2 := Nat.min 4 ((if m3 == 0 then 0 else bytesNeeded m3) + lay.x2)
  let rs := runs lay.cut es
  let rows := XrefSpec.encRows w0 w1 w2 (es.map fun e => ⟨e.typ, e.f2, e.f3⟩)
  let index : List Nat := rs.flatMap fun r => [(r.head?.map (·.num)).getD 0, r.length]
  let plainIndex := index == [0, size]
  let rowW := w0 + w1 + w2
  let data :=
    if !lay.flate then rows
    else if lay.up then FiltersSpec.zlibStored [PredSpec.pngRows 2 1 [] (PredSpec.splitRows rowW es.length rows)]
    else FiltersSpec.zlibStored [rows]
  let ents : List (Bytes × Obj) :=
    [(bs "Type", .name (bs "XRef")), (bs "Size", .int size),
     (bs "W", .arr [.int w0, .int w1, .int w2])]
    ++ (if plainIndex && lay.omitIndex then [] else [(bs "Index", .arr (index.map fun n => .int (Int.ofNat n)))])
    ++ (match root with | some r => [(bs "Root", .ref r.1 r.2)] | none => [])
    ++ (match prev with | some p => [(bs "Prev", .int p)] | none => [])
    ++ (if lay.flate then [(bs "Filter", .name (bs "FlateDecode"))] else [])
    ++ (if lay.flate && lay.up then [(bs "DecodeParms", .dict [(bs "Columns", .int rowW), (bs "Predictor", .int 12)])] else [])
  (data, ents)

/-- pre-rendered value of a dictionary entry (integers padded to 10 digits under /Prev) -/
def rawVal (k : Bytes) (v : Obj) : Bytes :=
  match v with
  | .int n => if k == bs "Prev" then pad10 n.toNat else natDigits n.toNat
  | .name b => [47] ++ b
  | .ref a g => refBytes (a, g)
  | .arr xs => arrBytes (xs.map fun x => match x with | .int n => n.toNat | _ => 0)
  | .dict kvs => bs "<<" ++ (kvs.flatMap fun kv => [47] ++ kv.1 ++ [32] ++ (match kv.2 with | .int n => natDigits n.toNat | _ => []) ++ [32]) ++ bs ">>"
  | _ => []

/-- a cross-reference stream object written at `pos` -/
def renderXrefStream (lay : RevLay) (pos : Nat) (es : List XE) (size : Nat) (root : Option ObjId) (prev : Option Nat) :
    Bytes × Obj :=
  let (data, ents) := xrefStreamParts lay es size root prev
  let all := rotate (ents ++ [(kLength, .int data.length)]) lay.dictOrder
  let (d, c) := spellRaw (all.map fun kv => (kv.1, rawVal kv.1 kv.2)) lay.ch
  let (w1, c) := wsReq c
  let (w2, _) := wsOpt c
  let pre := natDigits lay.xnum ++ w1 ++ bs "0 obj" ++ w2 ++ bs "<<" ++ d ++ w2 ++ bs "stream" ++ [10]
  (pre ++ data ++ [10] ++ bs "endstream" ++ [10] ++ bs "endobj" ++ [10],
   .stream (canonKvs all) ⟨pos + pre.length, data.length, data⟩)

def tailBytes (xofs : Nat) (c : Ch) : Bytes :=
  let (w, _) := wsReq c
  bs "startxref" ++ w ++ natDigits xofs ++ [10] ++ bs "%%EOF" ++ [10]

/-- One revision written at position `pos` (relative to the header); `prev` is the value of its
    /Prev entry.  Returns the bytes, the offset of its cross-reference section, and what it said. -/
def renderRev (r : Rev) (pos : Nat) (prev : Option Nat) : Bytes × Nat × Said :=
  let lay := r.lay
  let (body, us0, vals) := renderObjs r.objs pos
  let us := relabelUse lay.relabel (swapOfs lay.swap us0)
  let p1 := pos + body.length
  let uses : List XE := us.map fun u => ⟨u.1, 1, u.2.2, u.2.1⟩
  let mems : List XE := r.members.map fun m => ⟨m.1, 2, m.2.1, m.2.2.1⟩
  let frees : List XE := (if r.zero then [⟨0, 0, 0, 65535⟩] else []) ++ r.frees.map fun f => ⟨f.1, 0, 0, f.2⟩
  let memVals : List (ObjId × Obj) := r.members.map fun m => ((m.1, 0), m.2.2.2)
  let maxNum := maxOf ((uses ++ mems ++ frees).map (·.num) ++ [lay.xnum])
  let freed := r.frees.map (·.1)
  match lay.kind with
  | 0 =>
    -- classic table; members cannot be expressed and are not written
    let es := sortXE (uses ++ frees)
    let table := XrefSpec.encTable (tableSubs lay es)
    let tr : List (Bytes × Bytes) := rotate
      ([(bs "Size", natDigits (maxNum + 1)), (bs "Root", refBytes r.root)] ++
       (match prev with | some p => [(bs "Prev", pad10 p)] | none => [])) lay.dictOrder
    let (w, c) := wsOpt lay.ch
    let (d, c) := spellRaw tr c
    (body ++ table ++ bs "trailer" ++ w ++ bs "<<" ++ d ++ [10] ++ tailBytes p1 c, p1, ⟨vals, freed, r.root⟩)
  | 1 =>
    let es := sortXE (uses ++ mems ++ frees ++ [⟨lay.xnum, 1, p1, 0⟩])
    let (xb, xv) := renderXrefStream lay p1 es (maxNum + 1) (some r.root) prev
    (body ++ xb ++ tailBytes p1 lay.ch, p1, ⟨vals ++ memVals ++ [((lay.xnum, 0), xv)], freed, r.root⟩)
  | _ =>
    -- hybrid: the stream (members only) first, then the table whose trailer points at it
    let (xb, xv) := renderXrefStream { lay with omitIndex := false } p1 (sortXE mems) (maxNum + 1) none none
    let p2 := p1 + xb.length
    let hidden : List XE := r.members.map fun m => ⟨m.1, 0, 0, lay.hiddenGen⟩
    let es := sortXE (uses ++ frees ++ hidden ++ [⟨lay.xnum, 1, p1, 0⟩])
    let table := XrefSpec.encTable (tableSubs lay es)
    let tr : List (Bytes × Bytes) := rotate
      ([(bs "Size", natDigits (maxNum + 1)), (bs "Root", refBytes r.root), (bs "XRefStm", natDigits p1)] ++
       (match prev with | some p => [(bs "Prev", pad10 p)] | none => [])) lay.dictOrder
    let (w, c) := wsOpt lay.ch
    let (d, c) := spellRaw tr c
    (body ++ xb ++ table ++ bs "trailer" ++ w ++ bs "<<" ++ d ++ [10] ++ tailBytes p2 c, p2,
     ⟨vals ++ memVals ++ [((lay.xnum, 0), xv)], freed, r.root⟩)

/-- how a revision's /Prev is chosen -/
inductive PrevMode where
  | auto                -- the previous revision's section (none for the base revision)
  | abs (n : Nat)       -- an explicit offset (self, a newer section, out of range)
deriving Repr

/-- revisions one after the other; `xs` = section offsets so far (oldest first) -/
def renderRevs : List (Rev × PrevMode) → Nat → List Nat → Bytes × List Nat × List Said
  | [], _, xs => ([], xs, [])
  | (r, pm) :: t, pos, xs =>
    let prev := match pm with | .auto => xs.getLast? | .abs n => some n
    let (b, x, said) := renderRev r pos prev
    let (bt, xs', saids) := renderRevs t (pos + b.length) (xs ++ [x])
    (b ++ bt, xs', said :: saids)

def header (binary : Bool) : Bytes :=
  bs "%PDF-1.5" ++ [10] ++ (if binary then [37, 0xE2, 0xE3, 0xCF, 0xD3, 10] else [])

/-- The file for a history: garbage, header, revisions.  Returns the bytes, the section offsets
    (relative to the header), the length of the document view, and what every revision said. -/
def renderHistory (garbage : Bytes) (binary : Bool) (revs : List (Rev × PrevMode)) :
    Bytes × List Nat × Nat × List Said :=
  let h := header binary
  let (b, xs, saids) := renderRevs revs h.length []
  (garbage ++ h ++ b, xs, h.length + b.length, saids)

/-! ## object-stream containers -/

/-- the container object for a group of members (values spelled with `spell`, separated by the
    given gaps), optionally FlateDecode'd.  Returns the container and the members' xref data. -/
def mkContainer (num : Nat) (members : List (Nat × Obj × Obj × Ch × Bytes)) (flate : Bool) (hdrPad : Bytes)
    (o : DObj) : DObj × List (Nat × Nat × Nat × Obj) :=
  let entries : List ObjStmSpec.Entry := members.map fun m =>
    ⟨m.1, m.2.2.2.2, (spell m.2.2.1 m.2.2.2.1).1 ++ [32]⟩
  let (data, first, _) := ObjStmSpec.encodeObjStm entries [] ([32] ++ hdrPad)
  let payload := if flate then FiltersSpec.zlibStored [data] else data
  let ents : List (Bytes × Obj) :=
    [(bs "Type", .name (bs "ObjStm")), (bs "N", .int members.length), (bs "First", .int first)] ++
    (if flate then [(bs "Filter", .name (bs "FlateDecode"))] else [])
  ({ o with num := num, gen := 0, body := .stm ents payload },
   members.zipIdx.map fun (m, k) => (m.1, num, k, m.2.1))

/-! ## reading an ACCEPTED load back from the bytes alone

  For arbitrary (corrupted, raw) input there is no abstract document to compare with.  What can
  still be decided from the bytes, without any parser model: if the file's newest cross-reference
  section is a classic table (found through the last `startxref`, read by position with the
  declarative 20-byte entry form of Spec/Xref), then after an ACCEPTED load every in-use entry
  `(n, g, ofs)` of that section - the first one per identifier - must (a) be among the defined
  identifiers and (b) have the header `n g obj` at `ofs` (after optional white space / comments).
  Newest-section entries are never shadowed, so this follows from the statement "a file in which
  the object found at a cross-reference offset carries a different identifier than its entry is
  rejected".  Identifiers bound to a cross-reference stream object are exempt from (b): the loader
  registers those while walking the /Prev chain, from the chain's offsets.  The claim is made ONLY
  when the newest section is a strictly well-formed table followed by `trailer` (see `tableUses`);
  in doubt nothing is claimed - a file whose table is not contiguous is not a well-formed document
  and the property says nothing about it. -/

def indexOf (pat : Bytes) : Bytes → Option Nat
  | [] => none
  | b :: t => if pat.isPrefixOf (b :: t) then some 0 else (indexOf pat t).map (· + 1)

def lastIndexOf (pat : Bytes) : Bytes → Option Nat
  | [] => none
  | b :: t =>
    match lastIndexOf pat t with
    | some k => some (k + 1)
    | none => if pat.isPrefixOf (b :: t) then some 0 else none

/-- what must follow the last subsection for the reader to claim anything: optional white space /
    comments, then the keyword `trailer` -/
def tableEnd (s : Bytes) (cur : Nat) : Bool :=
  (bs "trailer").isPrefixOf (s.drop (XrefSpec.skipWsComments (s.length + 1) s cur))

/-- The in-use entries `(n, g, ofs)` of the table whose first subsection header is looked for at `cur`
    (just after the `xref` keyword), read by position and STRICTLY: the first header may be preceded by
    white space / comments (as `WhitespaceEOL` after the keyword allows); every entry is exactly 20 bytes
    in the fixed form; a further subsection header must start IMMEDIATELY after the last entry of the
    previous subsection, after blanks (space, NUL, tab, form feed) at most - exactly what `XrefSectP`
    looks at before it decides whether the section goes on; otherwise the table must be followed by
    optional white space and `trailer`.  Anything else (a blank line inside the table, junk after it,
    an entry out of form): `none` - the file is not a strictly well-formed table and nothing is claimed. -/
def tableUses (s : Bytes) : Nat → Nat → Bool → List (Nat × Nat × Nat) → Option (List (Nat × Nat × Nat))
  | 0, _, _, _ => none
  | f + 1, cur, isFirst, acc =>
    let c1 := cur + ((s.drop cur).takeWhile XrefSpec.isBlank).length
    if !isFirst && !((s[c1]?).any XrefSpec.isDig) then (if tableEnd s cur then some acc else none)
    else
      match XrefSpec.scanHeader s (if isFirst then cur else c1) with
      | none => none
      | some (st, cnt, first) =>
        if first + 20 * cnt > s.length then none
        else
          let es := (List.range cnt).map fun k => (st + k, XrefSpec.entryAt s (first + 20 * k))
          if es.any fun e => e.2.isNone then none
          else
            let uses := es.filterMap fun e => match e.2 with
              | some (info, gen, true) => some (e.1, gen, info)
              | _ => none
            tableUses s f (first + 20 * cnt) false (acc ++ uses)

/-- the identifier spelled by an indirect-object header at `ofs` -/
def headerAt (s : Bytes) (ofs : Nat) : Option (Nat × Nat) :=
  let j := XrefSpec.skipWsComments (s.length + 1) s ofs
  match XrefSpec.readNum s j with
  | none => none
  | some (n, j1) =>
    let j2 := XrefSpec.skipWsComments (s.length + 1) s j1
    if j2 == j1 then none
    else match XrefSpec.readNum s j2 with
      | none => none
      | some (g, j3) =>
        let j4 := XrefSpec.skipWsComments (s.length + 1) s j3
        if (bs "obj").isPrefixOf (s.drop j4) then some (n, g) else none

/-- in-use entries of the newest section when it is a classic table -/
def newestTableUses (file : Bytes) : Option (Bytes × List (Nat × Nat × Nat)) :=
  match indexOf (bs "%PDF-") file with
  | none => none
  | some h =>
    let s := file.drop h
    let eof := (lastIndexOf (bs "%%EOF") s).getD s.length
    match lastIndexOf (bs "startxref") (s.take eof) with
    | none => none
    | some sx =>
      let i := XrefSpec.skipWsComments (s.length + 1) s (sx + 9)
      match XrefSpec.readNum s i with
      | none => none
      | some (x, _) =>
        let i0 := XrefSpec.skipWsComments (s.length + 1) s x
        if !((bs "xref").isPrefixOf (s.drop i0)) then none
        else (tableUses s (s.length + 1) (i0 + 4) true []).map fun u => (s, u)

/-- `none` = nothing wrong (or nothing claimed); `some msg` = an accepted load that contradicts the
    newest table.  `defined` = identifiers the implementation reports, with "is a cross-reference
    stream object". -/
def entryViolation (file : Bytes) (defined : List ((Nat × Nat) × Bool)) : Option String :=
  match newestTableUses file with
  | none => none
  | some (s, uses) =>
    let firsts := uses.zipIdx.filter fun (u, k) => !((uses.take k).any fun v => v.1 == u.1 && v.2.1 == u.2.1)
    (firsts.findSome? fun (u, _) =>
      match defined.find? fun d => d.1 == (u.1, u.2.1) with
      | none => some s!"in-use entry ({u.1},{u.2.1}) at offset {u.2.2} is not defined after an accepted load"
      | some d =>
        if d.2 then none
        else match headerAt s u.2.2 with
          | some id => if id == (u.1, u.2.1) then none
                       else some s!"entry ({u.1},{u.2.1}) points at offset {u.2.2} where object ({id.1},{id.2}) is written"
          | none => some s!"entry ({u.1},{u.2.1}) points at offset {u.2.2} where no object header is written")

end Parsley.DocSpec
