/-
  C03 / C04 spec side, additive to Spec/Doc.lean: documents that DECLARE ENCRYPTION.

  * `renderRevE` / `renderHistoryE`: the encoder of Spec/Doc.lean with one more freedom per
    revision - an `/Encrypt <value>` entry in the trailer dictionary (classic table, hybrid
    table) and / or in the dictionary of the revision's cross-reference stream (stream section,
    the /XRefStm stream of a hybrid section).  With no declaration it IS `renderRev`
    (`renderRevE_none`, proved below), so everything proved about `renderHistory` still speaks
    about the undeclared members of this family.
  * the two declarative rules the oracle of the `enc` / `ench` cases uses (nothing here calls the
    loader model):
      `acceptable` - what the statements of C03 / C04 allow.  Neither mentions encryption: a loader
                    that does not support encrypted documents may REFUSE a document that declares
                    /Encrypt anywhere on its /Prev chain; if it ACCEPTS, it must define exactly the
                    objects `resolve` says (each identifier bound to the newest definition).  Accepted
                    with objects missing, extra or wrong is never acceptable.  A document that does
                    not declare must load exactly.
      `asBuilt`   - what pdf_traverse_xref.rs does, stated as a rule about the chain: sections are
                    read newest first; the flag is the OR over the TRAILER dictionaries (classic or
                    hybrid) read so far - the dictionary of a cross-reference stream is never asked
                    (an OBSERVATION about the code, not a defect against C03 / C04: such a document
                    loads exactly); a cross-reference stream met while the flag is up is refused (the
                    walk ends in `exit`); object streams are decoded after the whole walk, with the
                    final flag: when it is up they are skipped silently and their members stay undefined.
    `asBuilt` is unacceptable exactly when it is `loadWithoutMembers` and there are members: the known
    finding `encrypt-declared-below-streams` (a trailer that declares BELOW a stream section).
-/
import Parsley.Spec.Doc
namespace Parsley.DocSpec
open Parsley Parsley.Obj Parsley.Spelling

/-- how one revision declares encryption -/
structure EncDecl where
  val : Obj            -- a reference, or a direct dictionary with integer values (what `rawVal` writes)
  inTrailer : Bool     -- in the trailer dictionary (classic and hybrid sections)
  inStream : Bool      -- in the cross-reference stream's dictionary (stream and hybrid sections)

def kEncrypt : Bytes := bs "Encrypt"

def trailerExtra : Option EncDecl → List (Bytes × Bytes)
  | some d => if d.inTrailer then [(kEncrypt, rawVal kEncrypt d.val)] else []
  | none => []

def streamExtra : Option EncDecl → List (Bytes × Obj)
  | some d => if d.inStream then [(kEncrypt, d.val)] else []
  | none => []

/-- `renderXrefStream` with further dictionary entries -/
def renderXrefStreamE (lay : RevLay) (pos : Nat) (es : List XE) (size : Nat) (root : Option ObjId) (prev : Option Nat)
    (extra : List (Bytes × Obj)) : Bytes × Obj :=
  let (data, ents) := xrefStreamParts lay es size root prev
  let all := rotate (ents ++ extra ++ [(kLength, .int data.length)]) lay.dictOrder
  let (d, c) := spellRaw (all.map fun kv => (kv.1, rawVal kv.1 kv.2)) lay.ch
  let (w1, c) := wsReq c
  let (w2, _) := wsOpt c
  let pre := natDigits lay.xnum ++ w1 ++ bs "0 obj" ++ w2 ++ bs "<<" ++ d ++ w2 ++ bs "stream" ++ [10]
  (pre ++ data ++ [10] ++ bs "endstream" ++ [10] ++ bs "endobj" ++ [10],
   .stream (canonKvs all) ⟨pos + pre.length, data.length, data⟩)

/-- `renderRev` with an optional encryption declaration -/
def renderRevE (r : Rev) (e : Option EncDecl) (pos : Nat) (prev : Option Nat) : Bytes × Nat × Said :=
  let lay := r.lay
  let (body, us0, vals) := renderObjs r.objs pos
  let us := relabelUse lay.relabel (swapOfs lay.swap us0)
  let p1 := pos + body.length
  let uses : List XE := us.map fun u => ⟨u.1, 1, u.2.2, u.2.1⟩
  let mems : List XE := r.members.map fun m => ⟨m.1, 2, m.2.1, m.2.2.1⟩
  let frees : List XE := (if r.zero then [⟨0, 0, 0, 65535⟩] else []) ++ r.frees.map fun f => ⟨f.1, 0, 0, f.2⟩
  let memVals : List (ObjId × Obj) := r.members.map fun m => ((m.1, 0), m.2.2.2)
  let maxNum := maxOf ((uses ++ mems ++ frees).map (·.num) ++ [lay.xnum])
  let freed := r.frees.map (·.1)
  match lay.kind with
  | 0 =>
    let es := sortXE (uses ++ frees)
    let table := XrefSpec.encTable (tableSubs lay es)
    let tr : List (Bytes × Bytes) := rotate
      ([(bs "Size", natDigits (maxNum + 1)), (bs "Root", refBytes r.root)] ++
       (match prev with | some p => [(bs "Prev", pad10 p)] | none => []) ++ trailerExtra e) lay.dictOrder
    let (w, c) := wsOpt lay.ch
    let (d, c) := spellRaw tr c
    (body ++ table ++ bs "trailer" ++ w ++ bs "<<" ++ d ++ [10] ++ tailBytes p1 c, p1, ⟨vals, freed, r.root⟩)
  | 1 =>
    let es := sortXE (uses ++ mems ++ frees ++ [⟨lay.xnum, 1, p1, 0⟩])
    let (xb, xv) := renderXrefStreamE lay p1 es (maxNum + 1) (some r.root) prev (streamExtra e)
    (body ++ xb ++ tailBytes p1 lay.ch, p1, ⟨vals ++ memVals ++ [((lay.xnum, 0), xv)], freed, r.root⟩)
  | _ =>
    let (xb, xv) := renderXrefStreamE { lay with omitIndex := false } p1 (sortXE mems) (maxNum + 1) none none (streamExtra e)
    let p2 := p1 + xb.length
    let hidden : List XE := r.members.map fun m => ⟨m.1, 0, 0, lay.hiddenGen⟩
    let es := sortXE (uses ++ frees ++ hidden ++ [⟨lay.xnum, 1, p1, 0⟩])
    let table := XrefSpec.encTable (tableSubs lay es)
    let tr : List (Bytes × Bytes) := rotate
      ([(bs "Size", natDigits (maxNum + 1)), (bs "Root", refBytes r.root), (bs "XRefStm", natDigits p1)] ++
       (match prev with | some p => [(bs "Prev", pad10 p)] | none => []) ++ trailerExtra e) lay.dictOrder
    let (w, c) := wsOpt lay.ch
    let (d, c) := spellRaw tr c
    (body ++ xb ++ table ++ bs "trailer" ++ w ++ bs "<<" ++ d ++ [10] ++ tailBytes p2 c, p2,
     ⟨vals ++ memVals ++ [((lay.xnum, 0), xv)], freed, r.root⟩)

/-- revisions one after the other; `xs` = section offsets so far (oldest first) -/
def renderRevsE : List (Rev × Option EncDecl × PrevMode) → Nat → List Nat → Bytes × List Nat × List Said
  | [], _, xs => ([], xs, [])
  | (r, e, pm) :: t, pos, xs =>
    let prev := match pm with | .auto => xs.getLast? | .abs n => some n
    let (b, x, said) := renderRevE r e pos prev
    let (bt, xs', saids) := renderRevsE t (pos + b.length) (xs ++ [x])
    (b ++ bt, xs', said :: saids)

/-- the file for a history with encryption declarations: bytes, section offsets, view length, what every
    revision said -/
def renderHistoryE (garbage : Bytes) (binary : Bool) (revs : List (Rev × Option EncDecl × PrevMode)) :
    Bytes × List Nat × Nat × List Said :=
  let h := header binary
  let (b, xs, saids) := renderRevsE revs h.length []
  (garbage ++ h ++ b, xs, h.length + b.length, saids)

/-! ## the rules -/

/-- one section of the /Prev chain as the rules see it -/
structure SecView where
  kind : Nat            -- 0 classic table, 1 cross-reference stream, otherwise hybrid
  trailerEnc : Bool     -- /Encrypt in the trailer dictionary
  streamEnc : Bool      -- /Encrypt in the dictionary of the section's cross-reference stream
deriving Repr, DecidableEq

def secView (r : Rev) (e : Option EncDecl) : SecView :=
  ⟨r.lay.kind,
   (match e with | some d => d.inTrailer && r.lay.kind != 1 | none => false),
   (match e with | some d => d.inStream && r.lay.kind != 0 | none => false)⟩

inductive Verdict where
  | reject
  | loadAll               -- exactly the objects of the history
  | loadWithoutMembers    -- the file-level objects; no object-stream member is defined
deriving Repr, DecidableEq

/-- some section on the chain declares encryption -/
def declared (secs : List SecView) : Bool := secs.any fun s => s.trailerEnc || s.streamEnc

/-- some section on the chain is (or has) a cross-reference stream -/
def usesStreams (secs : List SecView) : Bool := secs.any fun s => s.kind != 0

/-- THE PROPERTY (C03 / C04 as stated, which do not speak about encryption): a document that declares may be
    refused or loaded exactly; one that does not declare must be loaded exactly; an accepted load with objects
    missing is never acceptable -/
def acceptable (secs : List SecView) (v : Verdict) : Bool :=
  match v with
  | .loadAll => true
  | .reject => declared secs
  | .loadWithoutMembers => false

/-- the walk of `get_xref_info` over the sections NEWEST FIRST: the flag after it, or `none` when a
    cross-reference stream is met while the flag is up.  A hybrid section's trailer is read before its
    /XRefStm stream is decoded; a stream section's own dictionary never raises the flag. -/
def walkFlag : List SecView → Bool → Option Bool
  | [], f => some f
  | s :: t, f =>
    if s.kind == 0 then walkFlag t (f || s.trailerEnc)
    else if s.kind == 1 then (if f then none else walkFlag t f)
    else (if f || s.trailerEnc then none else walkFlag t f)

/-- THE CODE AS BUILT (sections newest first) -/
def asBuilt (secs : List SecView) : Verdict :=
  match walkFlag secs false with
  | none => .reject
  | some false => .loadAll
  | some true => .loadWithoutMembers

/-! ## with no declaration the encoder is the one of Spec/Doc.lean -/

theorem renderXrefStreamE_nil (lay : RevLay) (pos : Nat) (es : List XE) (size : Nat) (root : Option ObjId)
    (prev : Option Nat) : renderXrefStreamE lay pos es size root prev [] = renderXrefStream lay pos es size root prev := by
  simp [renderXrefStreamE, renderXrefStream]

theorem renderRevE_none (r : Rev) (pos : Nat) (prev : Option Nat) : renderRevE r none pos prev = renderRev r pos prev := by
  cases prev <;> rcases hk : r.lay.kind with _ | _ | n <;>
    simp only [renderRevE, renderRev, hk, trailerExtra, streamExtra, List.append_nil, renderXrefStreamE_nil]

theorem renderRevsE_none (revs : List (Rev × PrevMode)) (pos : Nat) (xs : List Nat) :
    renderRevsE (revs.map fun x => (x.1, none, x.2)) pos xs = renderRevs revs pos xs := by
  induction revs generalizing pos xs with
  | nil => rfl
  | cons x t ih => obtain ⟨r, pm⟩ := x; cases pm <;> simp [renderRevsE, renderRevs, renderRevE_none, ih]

/-- a history without declarations renders exactly as `renderHistory` does -/
theorem renderHistoryE_none (garbage : Bytes) (binary : Bool) (revs : List (Rev × PrevMode)) :
    renderHistoryE garbage binary (revs.map fun x => (x.1, none, x.2)) = renderHistory garbage binary revs := by
  simp [renderHistoryE, renderHistory, renderRevsE_none]

/-! ## facts about the rules (the order dependence, stated) -/

theorem walkFlag_classic (secs : List SecView) (h : ∀ s ∈ secs, s.kind = 0) : ∀ f, walkFlag secs f ≠ none := by
  induction secs with
  | nil => intro f; simp [walkFlag]
  | cons s t ih =>
    intro f
    have h0 := h s (by simp)
    simp [walkFlag, h0]
    exact ih (fun x hx => h x (by simp [hx])) _

/-- with classic tables only the code as built never refuses (and there are no members to lose) -/
theorem asBuilt_classic (secs : List SecView) (h : ∀ s ∈ secs, s.kind = 0) : asBuilt secs ≠ .reject := by
  unfold asBuilt
  cases hw : walkFlag secs false with
  | none => exact absurd hw (walkFlag_classic secs h false)
  | some b => cases b <;> simp

/-- without any declaration the code as built loads everything, which is the one acceptable outcome -/
theorem asBuilt_undeclared (secs : List SecView) (h : declared secs = false) :
    asBuilt secs = .loadAll ∧ ∀ v, acceptable secs v = true → v = .loadAll := by
  constructor
  · have : walkFlag secs false = some false := by
      induction secs with
      | nil => rfl
      | cons s t ih =>
        simp [declared] at h ih ⊢
        obtain ⟨hs, ht⟩ := h
        have := ih ht
        by_cases k0 : s.kind = 0
        · simp [walkFlag, k0, hs.1, this]
        · by_cases k1 : s.kind = 1
          · simp [walkFlag, k1, this]
          · simp [walkFlag, k0, k1, hs.1, this]
    simp [asBuilt, this]
  · intro v hv; cases v <;> simp [acceptable, h] at hv ⊢

theorem walkFlag_none_declared : ∀ (secs : List SecView) f, walkFlag secs f = none → f = true ∨ declared secs = true := by
  intro secs
  induction secs with
  | nil => intro f hf; simp [walkFlag] at hf
  | cons s t ih =>
    intro f hf
    by_cases k0 : s.kind = 0
    · simp [walkFlag, k0] at hf
      have := ih _ hf
      simp [declared] at this ⊢
      rcases this with h1 | h1
      · rcases h1 with h1 | h1
        · exact Or.inl h1
        · exact Or.inr (Or.inl (Or.inl h1))
      · exact Or.inr (Or.inr h1)
    · by_cases k1 : s.kind = 1
      · simp [walkFlag, k1] at hf
        simp [declared]
        by_cases hff : f = true
        · exact Or.inl hff
        · simp [hff] at hf
          have := ih _ hf
          simp [declared] at this
          exact Or.inr (Or.inr this)
      · simp [walkFlag, k0, k1] at hf
        simp [declared]
        by_cases hff : f = true
        · exact Or.inl hff
        · by_cases ht : s.trailerEnc = true
          · exact Or.inr (Or.inl (Or.inl ht))
          · simp [hff, ht] at hf
            have := ih _ hf
            simp [declared] at this
            exact Or.inr (Or.inr this)

/-- the code as built refuses only documents that declare: its refusals are acceptable -/
theorem asBuilt_reject_acceptable (secs : List SecView) (h : asBuilt secs = .reject) : acceptable secs .reject = true := by
  unfold asBuilt at h
  cases hw : walkFlag secs false with
  | none =>
    have := walkFlag_none_declared secs false hw
    simp at this
    simp [acceptable, this]
  | some b => rw [hw] at h; cases b <;> simp at h

/-- the flag can only be up at the end of a walk that read a trailer which declares -/
theorem walkFlag_true_trailer : ∀ (secs : List SecView) f, walkFlag secs f = some true → f = true ∨ secs.any (·.trailerEnc) = true := by
  intro secs
  induction secs with
  | nil => intro f hf; simp [walkFlag] at hf; exact Or.inl hf
  | cons s t ih =>
    intro f hf
    by_cases k0 : s.kind = 0
    · simp [walkFlag, k0] at hf
      rcases ih _ hf with h1 | h1
      · simp at h1; rcases h1 with h1 | h1
        · exact Or.inl h1
        · exact Or.inr (by simp [h1])
      · exact Or.inr (by simp at h1 ⊢; exact Or.inr h1)
    · by_cases k1 : s.kind = 1
      · simp [walkFlag, k1] at hf
        rcases ih _ hf.2 with h1 | h1
        · exact Or.inl h1
        · exact Or.inr (by simp at h1 ⊢; exact Or.inr h1)
      · simp [walkFlag, k0, k1] at hf
        rcases ih _ hf.2 with h1 | h1
        · exact Or.inl h1
        · exact Or.inr (by simp at h1 ⊢; exact Or.inr h1)

/-- ONE section on the chain (C03): the code as built either refuses or loads everything - the unacceptable
    outcome `loadWithoutMembers` with members present needs at least two sections: a classic table has no
    type-2 entries, a stream section never raises the flag, and a hybrid section whose trailer declares is refused
    before its stream is read.  (`loadWithoutMembers` of a single classic section drops nothing.) -/
theorem asBuilt_one_section (s : SecView) : asBuilt [s] = .reject ∨ asBuilt [s] = .loadAll ∨
    (asBuilt [s] = .loadWithoutMembers ∧ s.kind = 0) := by
  by_cases k0 : s.kind = 0
  · cases ht : s.trailerEnc <;> simp [asBuilt, walkFlag, k0, ht]
  · by_cases k1 : s.kind = 1
    · simp [asBuilt, walkFlag, k1]
    · cases ht : s.trailerEnc <;> simp [asBuilt, walkFlag, k0, k1, ht]

/-- observation: a declaration in a stream dictionary alone is never noticed - the document loads exactly (acceptable) ... -/
example : asBuilt [⟨1, false, true⟩] = .loadAll ∧ acceptable [⟨1, false, true⟩] .loadAll = true := by decide
/-- ... KNOWN FINDING: one in a trailer BELOW (older than) the streams is noticed too late to refuse them and the
    members go missing (not acceptable) ... -/
example : asBuilt [⟨1, false, false⟩, ⟨0, true, false⟩] = .loadWithoutMembers ∧
    acceptable [⟨1, false, false⟩, ⟨0, true, false⟩] .loadWithoutMembers = false := by decide
/-- ... one ABOVE them, or in a hybrid section's own trailer, refuses (acceptable: the document declares) -/
example : asBuilt [⟨0, true, false⟩, ⟨1, false, false⟩] = .reject ∧ asBuilt [⟨2, true, false⟩] = .reject ∧
    acceptable [⟨0, true, false⟩, ⟨1, false, false⟩] .reject = true := by decide

end Parsley.DocSpec
