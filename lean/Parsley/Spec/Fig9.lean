/-
  Declarative side of C12, written from ISO 32000-1 (not from the Rust code):

  * Table 51 "Operator categories"  -> `catTable` / `catOf`
  * Figure 9 "Graphics objects"     -> `step` : the five-node automaton
        page description level, text object, path object, clipping path object,
        in-line image object   (shading and external objects are "immediate": they
        return to the page level at once)
    `BX`/`EX` are not drawn in Figure 9; they are permitted at page level and inside
    text objects (7.8.2: compatibility sections are orthogonal to graphics objects).
    Type 3 glyph operators `d0`/`d1` belong to glyph descriptions, not to page
    content: no node permits them.
  * A content stream as a *syntax tree* (`Prog`): operator instances with operands and
    the separators (white space / comments) written between the tokens; `render`
    is the encoder (= the case generator of the correspondence run), `expected` the
    meaning: the text tokens, or `none` when the stream must be rejected.

  Import-free apart from Base and the shared vocabulary (`Tok`).
-/
import Parsley.Base.Basic
import Parsley.Model.OpTypes
namespace Parsley.Fig9
open Parsley.Content (Tok)

/-- ISO 32000-1 Table 51 -/
inductive Cat where
  | generalGS | specialGS | pathConstruction | pathPainting | clipping | textObject | textState
  | textPositioning | textShowing | type3 | color | shading | inlineImage | xobject
  | markedContent | compatibility
deriving DecidableEq, Repr, Inhabited

/-- Table 51, operator by operator (names as bytes). -/
def catTable : List (Bytes × Cat) := [
  ([119], .generalGS),  -- w
  ([74], .generalGS),  -- J
  ([106], .generalGS),  -- j
  ([77], .generalGS),  -- M
  ([100], .generalGS),  -- d
  ([114, 105], .generalGS),  -- ri
  ([105], .generalGS),  -- i
  ([103, 115], .generalGS),  -- gs
  ([113], .specialGS),  -- q
  ([81], .specialGS),  -- Q
  ([99, 109], .specialGS),  -- cm
  ([109], .pathConstruction),  -- m
  ([108], .pathConstruction),  -- l
  ([99], .pathConstruction),  -- c
  ([118], .pathConstruction),  -- v
  ([121], .pathConstruction),  -- y
  ([104], .pathConstruction),  -- h
  ([114, 101], .pathConstruction),  -- re
  ([83], .pathPainting),  -- S
  ([115], .pathPainting),  -- s
  ([102], .pathPainting),  -- f
  ([70], .pathPainting),  -- F
  ([102, 42], .pathPainting),  -- f*
  ([66], .pathPainting),  -- B
  ([66, 42], .pathPainting),  -- B*
  ([98], .pathPainting),  -- b
  ([98, 42], .pathPainting),  -- b*
  ([110], .pathPainting),  -- n
  ([87], .clipping),  -- W
  ([87, 42], .clipping),  -- W*
  ([66, 84], .textObject),  -- BT
  ([69, 84], .textObject),  -- ET
  ([84, 99], .textState),  -- Tc
  ([84, 119], .textState),  -- Tw
  ([84, 122], .textState),  -- Tz
  ([84, 76], .textState),  -- TL
  ([84, 102], .textState),  -- Tf
  ([84, 114], .textState),  -- Tr
  ([84, 115], .textState),  -- Ts
  ([84, 100], .textPositioning),  -- Td
  ([84, 68], .textPositioning),  -- TD
  ([84, 109], .textPositioning),  -- Tm
  ([84, 42], .textPositioning),  -- T*
  ([84, 106], .textShowing),  -- Tj
  ([84, 74], .textShowing),  -- TJ
  ([39], .textShowing),  -- '
  ([34], .textShowing),  -- "
  ([100, 48], .type3),  -- d0
  ([100, 49], .type3),  -- d1
  ([67, 83], .color),  -- CS
  ([99, 115], .color),  -- cs
  ([83, 67], .color),  -- SC
  ([83, 67, 78], .color),  -- SCN
  ([115, 99], .color),  -- sc
  ([115, 99, 110], .color),  -- scn
  ([71], .color),  -- G
  ([103], .color),  -- g
  ([82, 71], .color),  -- RG
  ([114, 103], .color),  -- rg
  ([75], .color),  -- K
  ([107], .color),  -- k
  ([115, 104], .shading),  -- sh
  ([66, 73], .inlineImage),  -- BI
  ([73, 68], .inlineImage),  -- ID
  ([69, 73], .inlineImage),  -- EI
  ([68, 111], .xobject),  -- Do
  ([77, 80], .markedContent),  -- MP
  ([68, 80], .markedContent),  -- DP
  ([66, 77, 67], .markedContent),  -- BMC
  ([66, 68, 67], .markedContent),  -- BDC
  ([69, 77, 67], .markedContent),  -- EMC
  ([66, 88], .compatibility),  -- BX
  ([69, 88], .compatibility)   -- EX
]

def catOf (op : Bytes) : Option Cat :=
  match catTable.find? (fun r => r.1 == op) with
  | some r => some r.2
  | none => none

/-- the nodes of Figure 9 -/
inductive Node where
  | page | text | path | clip | image
deriving DecidableEq, Repr, Inhabited

def allNodes : List Node := [.page, .text, .path, .clip, .image]

def BT : Bytes := [66, 84]
def ET : Bytes := [69, 84]
def BI : Bytes := [66, 73]
def ID : Bytes := [73, 68]
def EI : Bytes := [69, 73]
def BX : Bytes := [66, 88]
def EX : Bytes := [69, 88]
def Tj : Bytes := [84, 106]
def TJ : Bytes := [84, 74]
def quote : Bytes := [39]
def dquote : Bytes := [34]
def Td : Bytes := [84, 100]
def TD : Bytes := [84, 68]
def Tstar : Bytes := [84, 42]
def opm : Bytes := [109]
def opre : Bytes := [114, 101]

/-- Figure 9: the node after operator `op` read in node `n`; `none` = not permitted there
    (or not an operator of Table 51 at all). -/
def step (n : Node) (op : Bytes) : Option Node :=
  match catOf op with
  | none => none
  | some c =>
    match n with
    | .page =>
      -- allowed: general/special graphics state, colour, text state, marked content
      if c = .generalGS ∨ c = .specialGS ∨ c = .color ∨ c = .textState ∨ c = .markedContent
          ∨ c = .compatibility then some .page
      else if c = .shading ∨ c = .xobject then some .page     -- immediate objects
      else if op = BT then some .text
      else if op = opm ∨ op = opre then some .path
      else if op = BI then some .image
      else none
    | .text =>
      -- allowed: general graphics state, colour, text state, text showing, text positioning, marked content
      if c = .generalGS ∨ c = .color ∨ c = .textState ∨ c = .textShowing ∨ c = .textPositioning
          ∨ c = .markedContent ∨ c = .compatibility then some .text
      else if op = ET then some .page
      else none
    | .path =>
      if c = .pathConstruction then some .path
      else if c = .pathPainting then some .page
      else if c = .clipping then some .clip
      else none
    | .clip => if c = .pathPainting then some .page else none
    | .image => if op = ID then some .image else if op = EI then some .page else none

/-! ## syntax of content streams -/

def isWs (b : UInt8) : Bool := b = 0 ∨ b = 9 ∨ b = 10 ∨ b = 12 ∨ b = 13 ∨ b = 32

/-- ISO 32000-1 Table 2 delimiters -/
def isDelimChar (b : UInt8) : Bool :=
  b = 40 ∨ b = 41 ∨ b = 60 ∨ b = 62 ∨ b = 91 ∨ b = 93 ∨ b = 123 ∨ b = 125 ∨ b = 47 ∨ b = 37

def isRegular (b : UInt8) : Bool := !isWs b && !isDelimChar b

def isDigit (b : UInt8) : Bool := 48 ≤ b ∧ b ≤ 57

def isHex (b : UInt8) : Bool := isDigit b || (65 ≤ b ∧ b ≤ 70) || (97 ≤ b ∧ b ≤ 102)

/-- a separator: white-space bytes and complete comments (`%` … end-of-line);
    the flag says "inside a comment". -/
def sepOKAux : Bool → Bytes → Bool
  | c, [] => !c
  | true, b :: t => if b = 10 then sepOKAux false t else sepOKAux true t
  | false, b :: t => if isWs b then sepOKAux false t else if b = 37 then sepOKAux true t else false

def sepOK (s : Bytes) : Bool := sepOKAux false s
/-- a non-empty separator -/
def sepNE (s : Bytes) : Bool := !s.isEmpty && sepOK s

/-- atoms (operands without nesting), as spelled -/
inductive Atom where
  | num (sp : Bytes)      -- `[-]ddd[.ddd]`
  | name (b : Bytes)      -- `/b`
  | lit (c : Bytes)       -- `(c)`
  | hex (sp : Bytes)      -- `<sp>`
  | bool (v : Bool)
  | null
deriving Repr, Inhabited, DecidableEq

inductive Operand where
  | atom (a : Atom)
  /-- `[` s0 (aᵢ sᵢ)* `]` -/
  | arr (s0 : Bytes) (els : List (Atom × Bytes))
  /-- `<<` s0 (`/`kᵢ sᵢ vᵢ tᵢ)* `>>` -/
  | dict (s0 : Bytes) (ents : List (Bytes × Bytes × Atom × Bytes))
deriving Repr, Inhabited, DecidableEq

/-- one operator with its operands; every operand is followed by a separator, the
    operator by `after`. -/
structure Inst where
  args : List (Operand × Bytes)
  op : Bytes
  after : Bytes
deriving Repr, Inhabited, DecidableEq

structure Prog where
  lead : Bytes
  insts : List Inst
deriving Repr, Inhabited, DecidableEq

/-! ### the encoder -/

def Atom.render : Atom → Bytes
  | .num sp => sp
  | .name b => 47 :: b
  | .lit c => 40 :: (c ++ [41])
  | .hex sp => 60 :: (sp ++ [62])
  | .bool true => [116, 114, 117, 101]
  | .bool false => [102, 97, 108, 115, 101]
  | .null => [110, 117, 108, 108]

def renderEls : List (Atom × Bytes) → Bytes
  | [] => []
  | (a, s) :: t => a.render ++ (s ++ renderEls t)

def renderEnts : List (Bytes × Bytes × Atom × Bytes) → Bytes
  | [] => []
  | (k, s, v, t) :: rest => (47 :: k) ++ (s ++ (v.render ++ (t ++ renderEnts rest)))

def Operand.render : Operand → Bytes
  | .atom a => a.render
  | .arr s0 els => 91 :: (s0 ++ (renderEls els ++ [93]))
  | .dict s0 ents => 60 :: 60 :: (s0 ++ (renderEnts ents ++ [62, 62]))

def renderArgs : List (Operand × Bytes) → Bytes
  | [] => []
  | (o, s) :: t => o.render ++ (s ++ renderArgs t)

def Inst.render (i : Inst) : Bytes := renderArgs i.args ++ (i.op ++ i.after)

def renderInsts : List Inst → Bytes
  | [] => []
  | i :: t => i.render ++ renderInsts t

def Prog.render (p : Prog) : Bytes := p.lead ++ renderInsts p.insts

/-! ### well-formedness of the spelling -/

/-- `[-] d{0,18} [. d{0,18}]` with at least one digit or the dot -/
def numOK (sp : Bytes) : Bool :=
  let body := match sp with | 45 :: t => t | _ => sp
  let ip := body.takeWhile isDigit
  let rest := body.dropWhile isDigit
  ip.length ≤ 18 &&
  (match rest with
   | [] => !ip.isEmpty
   | 46 :: fp => fp.all isDigit && fp.length ≤ 18
   | _ => false)

/-- name body: regular characters, no `#` escapes -/
def nameOK (b : Bytes) : Bool := b.all (fun x => isRegular x && x != 35)

/-- literal-string body: balanced parentheses, a backslash escapes the next byte -/
def litBal : Nat → Bytes → Bool
  | d, [] => d == 0
  | d, b :: t =>
    if b = 92 then
      match t with
      | [] => false
      | _ :: t' => litBal d t'
    else if b = 40 then litBal (d + 1) t
    else if b = 41 then (match d with | 0 => false | d' + 1 => litBal d' t)
    else litBal d t

def hexOK (sp : Bytes) : Bool := sp.all (fun b => isHex b || isWs b)

def Atom.ok : Atom → Bool
  | .num sp => numOK sp
  | .name b => nameOK b
  | .lit c => litBal 0 c
  | .hex sp => hexOK sp
  | .bool _ => true
  | .null => true

def keysDistinct : List Bytes → Bool
  | [] => true
  | k :: t => !t.contains k && keysDistinct t

def Operand.ok : Operand → Bool
  | .atom a => a.ok
  | .arr s0 els => sepOK s0 && els.all (fun e => e.1.ok && sepNE e.2)
  | .dict s0 ents =>
    sepOK s0 && ents.all (fun e => nameOK e.1 && sepNE e.2.1 && e.2.2.1.ok && sepNE e.2.2.2)
      && keysDistinct (ents.map (·.1))

def trueB : Bytes := [116, 114, 117, 101]
def falseB : Bytes := [102, 97, 108, 115, 101]
def nullB : Bytes := [110, 117, 108, 108]

/-- an operator token: non-empty, ASCII regular characters without `#`, not starting like a
    number, and not one of the keywords `true false null` -/
def opOK (op : Bytes) : Bool :=
  !op.isEmpty && op.all (fun x => isRegular x && x != 35 && x < 128)
    && (match op with | b :: _ => !(isDigit b || b = 45 || b = 46) | [] => false)
    && op != trueB && op != falseB && op != nullB

def Inst.ok (i : Inst) : Bool :=
  i.args.all (fun a => a.1.ok && sepNE a.2) && opOK i.op && sepOK i.after

/-- every operator except the last is followed by a non-empty separator -/
def instsOK : List Inst → Bool
  | [] => true
  | [i] => i.ok
  | i :: t => i.ok && !i.after.isEmpty && instsOK t

def Prog.ok (p : Prog) : Bool := sepOK p.lead && instsOK p.insts

/-! ### meaning -/

def hexDigitVal (b : UInt8) : Nat :=
  if 48 ≤ b ∧ b ≤ 57 then b.toNat - 48
  else if 65 ≤ b ∧ b ≤ 70 then b.toNat - 55
  else b.toNat - 87

/-- 7.3.4.3: white space ignored, a missing final digit is 0 -/
def hexBytes : Bytes → Bytes
  | [] => []
  | [a] => [UInt8.ofNat (16 * hexDigitVal a)]
  | a :: b :: t => UInt8.ofNat (16 * hexDigitVal a + hexDigitVal b) :: hexBytes t

/-- the string operand "byte for byte": for a literal string the bytes between the outer
    parentheses (the extractor is documented to be *raw*: no escape processing), for a
    hexadecimal string the bytes it denotes. -/
def Atom.strVal : Atom → Option Bytes
  | .lit c => some c
  | .hex sp => some (hexBytes (sp.filter (fun b => !isWs b)))
  | _ => none

def Atom.isNum : Atom → Bool
  | .num _ => true
  | _ => false

/-- `TJ` array: strings are shown, numbers adjust the position, nothing else is allowed -/
def tjTokens : List (Atom × Bytes) → Option (List Tok)
  | [] => some []
  | (a, _) :: t =>
    match a.strVal with
    | some v => (tjTokens t).map (Tok.raw v :: ·)
    | none => if a.isNum then tjTokens t else none

def Operand.strVal : Operand → Option Bytes
  | .atom a => a.strVal
  | _ => none

def Operand.isNum : Operand → Bool
  | .atom a => a.isNum
  | _ => false

/-- operands of the four text-showing operators (Table 109) and the tokens they yield;
    `none` = wrong number or kind of operands. -/
def showTokens (op : Bytes) (args : List Operand) : Option (List Tok) :=
  if op = Tj then
    match args with
    | [a] => a.strVal.map (fun v => [Tok.raw v])
    | _ => none
  else if op = quote then
    match args with
    | [a] => a.strVal.map (fun v => [Tok.space, Tok.raw v])
    | _ => none
  else if op = dquote then
    match args with
    | [aw, ac, a] =>
      if aw.isNum && ac.isNum then a.strVal.map (fun v => [Tok.space, Tok.raw v]) else none
    | _ => none
  else
    match args with
    | [.arr _ els] => tjTokens els
    | _ => none

/-- tokens of one permitted operator instance (documented separator tokens: a space at both
    ends of a text object, for the line moves `Td TD T*`, and in front of the text of `'` `"`). -/
def instTokens (c : Cat) (op : Bytes) (args : List Operand) : Option (List Tok) :=
  if c = .textShowing then showTokens op args
  else if c = .textObject then some [Tok.space]
  else if op = Td ∨ op = TD ∨ op = Tstar then some [Tok.space]
  else some []

/-- run Figure 9 over the instances; `compat` = depth of open `BX` sections.
    An operator that is not in Table 51 is ignored inside a compatibility section and is an
    error outside.  `none` = the stream must be rejected. -/
def run : Node → Nat → List Inst → Option (List Tok)
  | _, _, [] => some []
  | n, compat, i :: rest =>
    match catOf i.op with
    | none => if compat > 0 then run n compat rest else none
    | some c =>
      match step n i.op with
      | none => none
      | some n' =>
        match instTokens c i.op (i.args.map (·.1)) with
        | none => none
        | some ts =>
          let compat' := if i.op = BX then compat + 1 else if i.op = EX then compat - 1 else compat
          (run n' compat' rest).map (ts ++ ·)

def expected (p : Prog) : Option (List Tok) := run .page 0 p.insts

end Parsley.Fig9
