/-
  Declarative side of C06: what a specification-conformant encoding *is* (ISO 32000-1 7.4.2
  ASCIIHexDecode, 7.4.3 ASCII85Decode, 7.4.4 FlateDecode / RFC 1950-1951 stored blocks), as
  relations for the theorems and as executable encoders for the generators.  Nothing here mentions the model.
  Import-free.
-/
import Parsley.Base.Basic
namespace Parsley.FiltersSpec
open Parsley

/-- PDF white-space characters (ISO 32000-1 Table 1) -/
def isWs (b : UInt8) : Bool :=
  b == 0x00 || b == 0x09 || b == 0x0A || b == 0x0C || b == 0x0D || b == 0x20

/-- the text with all white space taken out -/
def strip (s : Bytes) : Bytes := s.filter fun b => !isWs b

/-! ### ASCIIHex -/

/-- value of a hexadecimal digit, either case -/
def hexVal (d : UInt8) : Option Nat :=
  if 48 ≤ d.toNat ∧ d.toNat ≤ 57 then some (d.toNat - 48)
  else if 65 ≤ d.toNat ∧ d.toNat ≤ 70 then some (d.toNat - 55)
  else if 97 ≤ d.toNat ∧ d.toNat ≤ 102 then some (d.toNat - 87)
  else none

/-- `HexPairs digits payload`: the digits, pairwise, spell the payload bytes -/
inductive HexPairs : Bytes → Bytes → Prop
  | nil : HexPairs [] []
  | cons {a b p : UInt8} {h l : Nat} {ds ps : Bytes} :
      hexVal a = some h → hexVal b = some l → p.toNat = 16 * h + l →
      HexPairs ds ps → HexPairs (a :: b :: ds) (p :: ps)

/-- `content` is an ASCIIHex encoding of `payload`: hex digits of either case with white space
    anywhere, then the EOD marker `>`, then anything; an odd number of digits stands for a
    final digit `0` (7.4.2). -/
def IsHexEncoding (content payload : Bytes) : Prop :=
  ∃ pre post : Bytes, content = pre ++ 0x3E :: post ∧
    (∀ b ∈ pre, isWs b = true ∨ (hexVal b).isSome = true) ∧
    (HexPairs (strip pre) payload ∨ HexPairs (strip pre ++ [0x30]) payload)

def hexDigitOf (upper : Bool) (n : Nat) : UInt8 :=
  if n < 10 then UInt8.ofNat (48 + n) else if upper then UInt8.ofNat (55 + n) else UInt8.ofNat (87 + n)

/-- executable encoder: digit case chosen per byte by `upper i`; with `odd`, a final `0` digit is left out -/
def encodeHexDigits (upper : Nat → Bool) : Nat → Bytes → Bytes
  | _, [] => []
  | i, b :: t => hexDigitOf (upper (2 * i)) (b.toNat / 16) :: hexDigitOf (upper (2 * i + 1)) (b.toNat % 16)
                  :: encodeHexDigits upper (i + 1) t

def encodeHex (upper : Nat → Bool) (odd : Bool) (payload : Bytes) : Bytes :=
  let ds := encodeHexDigits upper 0 payload
  let ds := if odd && ds.getLast? == some 0x30 then ds.dropLast else ds
  ds ++ [0x3E]

/-! ### ASCII85 -/

def be32 (a b c d : UInt8) : Nat := ((a.toNat * 256 + b.toNat) * 256 + c.toNat) * 256 + d.toNat

/-- the five base-85 digits of a 32-bit group, most significant first, offset by `!` -/
def digits5 (n : Nat) : Bytes :=
  [UInt8.ofNat (n / 52200625 % 85 + 33), UInt8.ofNat (n / 614125 % 85 + 33), UInt8.ofNat (n / 7225 % 85 + 33),
   UInt8.ofNat (n / 85 % 85 + 33), UInt8.ofNat (n % 85 + 33)]

/-- `A85Groups payload text`: `text` is a sequence of groups spelling `payload`:
    full groups of five digits, `z` for an all-zero group (encoder's choice), and a final
    partial group of `n+1` digits for `n ∈ {1,2,3}` trailing bytes (7.4.3). -/
inductive A85Groups : Bytes → Bytes → Prop
  | nil : A85Groups [] []
  | z {p s : Bytes} : A85Groups p s → A85Groups (0 :: 0 :: 0 :: 0 :: p) (0x7A :: s)
  | full {a b c d : UInt8} {p s : Bytes} :
      A85Groups p s → A85Groups (a :: b :: c :: d :: p) (digits5 (be32 a b c d) ++ s)
  | part1 {a : UInt8} : A85Groups [a] ((digits5 (be32 a 0 0 0)).take 2)
  | part2 {a b : UInt8} : A85Groups [a, b] ((digits5 (be32 a b 0 0)).take 3)
  | part3 {a b c : UInt8} : A85Groups [a, b, c] ((digits5 (be32 a b c 0)).take 4)

/-- `content` is an ASCII85 encoding of `payload`: the groups, then `~>`, white space anywhere -/
def IsA85Encoding (content payload : Bytes) : Prop :=
  ∃ text : Bytes, A85Groups payload text ∧ strip content = text ++ [0x7E, 0x3E]

/-- executable encoder; `useZ i` decides whether the `i`-th group, if zero, is written as `z` -/
def encodeA85Groups (useZ : Nat → Bool) : Nat → Bytes → Bytes
  | i, a :: b :: c :: d :: t =>
    (if be32 a b c d == 0 && useZ i then [0x7A] else digits5 (be32 a b c d)) ++ encodeA85Groups useZ (i + 1) t
  | _, [a, b, c] => (digits5 (be32 a b c 0)).take 4
  | _, [a, b] => (digits5 (be32 a b 0 0)).take 3
  | _, [a] => (digits5 (be32 a 0 0 0)).take 2
  | _, [] => []

def encodeA85 (useZ : Nat → Bool) (payload : Bytes) : Bytes := encodeA85Groups useZ 0 payload ++ [0x7E, 0x3E]

/-! ### zlib with stored blocks -/

/-- Adler-32 of RFC 1950: `a = 1 + Σ bytes`, `b = Σ` of the successive `a`, both mod 65521 -/
def adlerAB : Bytes → Nat × Nat → Nat × Nat
  | [], p => p
  | x :: t, (a, b) => adlerAB t ((a + x.toNat) % 65521, (b + (a + x.toNat) % 65521) % 65521)

def adler32 (data : Bytes) : Nat := let (a, b) := adlerAB data (1, 0); b * 65536 + a

def be32Bytes (n : Nat) : Bytes :=
  [UInt8.ofNat (n / 16777216 % 256), UInt8.ofNat (n / 65536 % 256), UInt8.ofNat (n / 256 % 256), UInt8.ofNat (n % 256)]

/-- one non-final stored block per part (each part at most 65535 bytes), closed by an empty final block -/
def storedBlocks : List Bytes → Bytes
  | [] => [0x01, 0x00, 0x00, 0xFF, 0xFF]
  | p :: ps =>
    [0x00, UInt8.ofNat (p.length % 256), UInt8.ofNat (p.length / 256),
     UInt8.ofNat (255 - p.length % 256), UInt8.ofNat (255 - p.length / 256)] ++ p ++ storedBlocks ps

/-- a zlib stream (CMF 0x78, FLG 0x01) holding `parts.flatten` in stored blocks -/
def zlibStored (parts : List Bytes) : Bytes :=
  [0x78, 0x01] ++ storedBlocks parts ++ be32Bytes (adler32 parts.flatten)

/-- cut a payload into parts of the given sizes (each clamped to 1..65535); the rest is one last part -/
def partition : Nat → List Nat → Bytes → List Bytes
  | 0, _, _ => []
  | _, _, [] => []
  | fuel + 1, [], s => s.take 65535 :: partition fuel [] (s.drop 65535)
  | fuel + 1, n :: ns, s =>
    let k := if n == 0 then 1 else if n > 65535 then 65535 else n
    s.take k :: partition fuel ns (s.drop k)

/-! ### fixed-Huffman literal-only DEFLATE (generator only: covered by correspondence, not by a theorem) -/

/-- the `n` bits of `v`, most significant first (Huffman codes are packed MSB first) -/
def codeBits (v n : Nat) : List Bool :=
  (List.range n).map fun i => (v / 2 ^ (n - 1 - i)) % 2 == 1

/-- pack bits into bytes, least significant bit first; `out` is reversed -/
def packBitsAux : List Bool → Nat → Nat → Bytes → Bytes
  | [], acc, k, out => (if k == 0 then out else UInt8.ofNat acc :: out).reverse
  | b :: t, acc, k, out =>
    let acc := acc + (if b then 2 ^ k else 0)
    if k == 7 then packBitsAux t 0 0 (UInt8.ofNat acc :: out) else packBitsAux t acc (k + 1) out

def packBits (l : List Bool) : Bytes := packBitsAux l 0 0 []

/-- one final fixed-Huffman block of literals -/
def zlibFixedLiterals (data : Bytes) : Bytes :=
  let bits := [true, true, false] ++ data.flatMap (fun b =>
    if b.toNat < 144 then codeBits (0x30 + b.toNat) 8 else codeBits (0x190 + (b.toNat - 144)) 9) ++ codeBits 0 7
  [0x78, 0x01] ++ packBits bits ++ be32Bytes (adler32 data)

end Parsley.FiltersSpec
