/-
  C05 spec side.

  1. `Framed`     the declarative framing predicate: at position `p` the buffer reads
                  `stream` (LF | CR LF) <exactly n bytes, whatever they are> [CR] [LF] `endstream`.
  2. `LenRes`     what the declared length of a stream dictionary is, given the objects defined so far.
  3. A *scene* encoder: a short sequence of indirect objects (streams with every way of declaring a
     length, plain objects that serve as length targets), rendered to bytes with a layout (where each
     part starts), and the expected outcome of parsing each of them read off the description and the
     layout — never by running the parser model.  This is the generator and the oracle of the
     correspondence run.
  Import-free (core + Parsley.Model/Spec only).
-/
import Parsley.Spec.Spelling
namespace Parsley.Framing
open Parsley Parsley.Obj

/-! ## 1. framing -/

def kwStream : Bytes := [115, 116, 114, 101, 97, 109]
def kwEndstream : Bytes := [101, 110, 100, 115, 116, 114, 101, 97, 109]
def kwEndobj : Bytes := [101, 110, 100, 111, 98, 106]
def kwObj : Bytes := [111, 98, 106]

/-- end-of-line after the `stream` keyword -/
def eolsAfterStream : List Bytes := [[10], [13, 10]]
/-- optional end-of-line before `endstream` -/
def eolsBeforeEndstream : List Bytes := [[], [13], [10], [13, 10]]

/-- **Framing.**  From position `p` the buffer reads `stream`, an end-of-line `e1`, a payload of
    exactly `n` bytes (no condition on the bytes), an optional end-of-line `e2` (mandatory in
    strict mode), `endstream`.  `st` is where the payload starts, `stop` is just after `endstream`. -/
structure Framed (strict : Bool) (s : Bytes) (p n : Nat) (payload : Bytes) (st stop : Nat) : Prop where
  witness : ∃ e1 ∈ eolsAfterStream, ∃ e2 ∈ eolsBeforeEndstream, ∃ tail : Bytes,
    s.drop p = kwStream ++ e1 ++ payload ++ e2 ++ kwEndstream ++ tail ∧
    payload.length = n ∧
    st = p + 6 + e1.length ∧
    stop = st + n + e2.length + 9 ∧
    (strict = true → e2 ≠ [])

/-- executable form of `Framed` (used by the oracle): the payload and the two positions, if framed -/
def framedAt (strict : Bool) (s : Bytes) (p n : Nat) : Option (Bytes × Nat × Nat) :=
  if !kwStream.isPrefixOf (s.drop p) then none else
  let q := p + 6
  match (eolsAfterStream.filter fun e => e.isPrefixOf (s.drop q)).head? with
  | none => none
  | some e1 =>
    let st := q + e1.length
    if s.length < st + n then none else
    let after := s.drop (st + n)
    match (eolsBeforeEndstream.filter fun e => (e ++ kwEndstream).isPrefixOf after && !(strict && e.isEmpty)).head? with
    | none => none
    | some e2 => some ((s.drop st).take n, st, st + n + e2.length + 9)

/-! ## 2. the declared length -/

/-- what an identifier is bound to, as far as lengths are concerned -/
abbrev Lookup := Nat × Nat → Option Obj

/-- **Length resolution.**  `LenRes look d r`: the declared length of dictionary value `d`
    (`none` = no `Length` entry) resolves to `r`:
    `.ok n` a usable length, `.err .ctx` not yet known, `.err .guard` invalid. -/
inductive LenRes (look : Lookup) : Option Obj → Res Nat → Prop
  | missing : LenRes look none (.err .guard)
  | direct (n : Nat) : LenRes look (some (.int n)) (.ok n)
  | negative (z : Int) : z < 0 → LenRes look (some (.int z)) (.err .guard)
  | notInt (v : Obj) : (∀ z, v ≠ .int z) → (∀ a g, v ≠ .ref a g) → LenRes look (some v) (.err .guard)
  | refUndefined (a g : Nat) : look (a, g) = none → LenRes look (some (.ref a g)) (.err .ctx)
  | refInt (a g n : Nat) : look (a, g) = some (.int n) → LenRes look (some (.ref a g)) (.ok n)
  | refNegative (a g : Nat) (z : Int) : look (a, g) = some (.int z) → z < 0 →
      LenRes look (some (.ref a g)) (.err .guard)
  | refNotInt (a g : Nat) (v : Obj) : look (a, g) = some v → (∀ z, v ≠ .int z) →
      LenRes look (some (.ref a g)) (.err .guard)

/-! ## 3. scenes: encoder, layout, expected outcome -/

/-- One indirect object of a scene.  `f` are small numeric choices (see `Item` accessors),
    `payload` the stream data (unused for plain objects). -/
structure Item where
  isStream : Bool
  f : List Nat
  payload : Bytes
deriving Repr

namespace Item
def g (it : Item) (k : Nat) : Nat := it.f[k]?.getD 0
-- common
def num (it : Item) := it.g 0
def gen (it : Item) := it.g 1
-- stream:  2 pre, 3 post, 4 order, 5 lenKind, 6 lenA, 7 lenB, 8 lenKey, 9..14 ws, 15 eol1, 16 eol2, 17 es, 18 eo
-- plain:   2 valKind, 3 valA, 9..14 ws, 18 eo
end Item

def bs := Spelling.bs
def natDigits := Spelling.natDigits

/-- whitespace that may be empty -/
def wsOptTab : List Bytes := [[], [32], [10], [13, 10], bs "%c\n", [32, 32], bs " %x\r\n\t", [0, 12], [13]]
/-- whitespace that is not empty -/
def wsReqTab : List Bytes := [[32], [10], [13, 10], bs "%c\n", [32, 32], bs " %x\r\n\t", [0, 12], [13], bs "\t%endobj\n"]
def wsOpt (k : Nat) : Bytes := wsOptTab[k % wsOptTab.length]?.getD []
def wsReq (k : Nat) : Bytes := wsReqTab[k % wsReqTab.length]?.getD [32]

/-- dictionary entries whose keys sort before `Length` (spelling, sorted value) -/
def preTab : List (Bytes × List (Bytes × Obj)) := [
  ([], []),
  (bs "/DL 3 ", [(bs "DL", .int 3)]),
  (bs "/Filter/FlateDecode", [(bs "Filter", .name (bs "FlateDecode"))]),
  (bs "/Filter [/A85 /Fl]/DecodeParms<</K 1>> ",
     [(bs "DecodeParms", .dict [(bs "K", .int 1)]), (bs "Filter", .arr [.name (bs "A85"), .name (bs "Fl")])])]
/-- dictionary entries whose keys sort after `Length` -/
def postTab : List (Bytes × List (Bytes × Obj)) := [
  ([], []),
  (bs "/Type /XObject", [(bs "Type", .name (bs "XObject"))]),
  (bs "/Width 10/Subtype/Image ", [(bs "Subtype", .name (bs "Image")), (bs "Width", .int 10)]),
  (bs "/Z [1 (endstream) 2 0 R]", [(bs "Z", .arr [.int 1, .str (bs "endstream"), .ref 2 0])])]

/-- values that are not usable lengths: spelling, parsed value (`none`: a null entry is dropped) -/
def otherTab : List (Bytes × Option Obj) := [
  (bs "2.5", some (.real 25 10)),
  (bs "/N", some (.name (bs "N"))),
  (bs "(5)", some (.str (bs "5"))),
  (bs "[5]", some (.arr [.int 5])),
  (bs "true", some (.bool true)),
  (bs "9223372036854775808", some (.real 9223372036854775808 1)),
  (bs "null", none),
  (bs "<</Length 5>>", some (.dict [(bs "Length", .int 5)])),
  (bs "5.0", some (.real 50 10))]

/-- plain object values: spelling, value -/
def plainTab : List (Bytes × Obj) := [
  (bs "/Name", .name (bs "Name")),
  (bs "2.5", .real 25 10),
  (bs "<</Length 3>>", .dict [(bs "Length", .int 3)]),
  (bs "[7]", .arr [.int 7]),
  (bs "(stream)", .str (bs "stream")),
  (bs "9 0 R", .ref 9 0),
  (bs "<< /A 1 >>", .dict [(bs "A", .int 1)])]

/-- the `Length` entry: spelling of key and value, the parsed entry (key, value), the declared length -/
inductive Declared where
  | int (z : Int)
  | ref (a g : Nat)
  | invalid          -- missing or not an integer / reference
deriving Repr, DecidableEq

def lenKeyTab : List (Bytes × Bytes) :=
  [(bs "/Length", bs "Length"), (bs "/Len#67th", bs "Length"), (bs "/#4cength", bs "Length"), (bs "/length", bs "length")]

structure LenEntry where
  spelling : Bytes
  entry : Option (Bytes × Obj)
  declared : Declared

def lenEntry (it : Item) : LenEntry :=
  let (ks, key) := lenKeyTab[it.g 8 % lenKeyTab.length]?.getD (bs "/Length", bs "Length")
  let isLen := key == bs "Length"
  match it.g 5 % 4 with
  | 0 =>
    let n := it.g 6
    let (tok, z) : Bytes × Int := match it.g 7 % 4 with
      | 1 => ([45] ++ natDigits n, -(n : Int))
      | 2 => ([43] ++ natDigits n, (n : Int))
      | 3 => ([48, 48] ++ natDigits n, (n : Int))
      | _ => (natDigits n, (n : Int))
    ⟨ks ++ [32] ++ tok ++ [32], some (key, .int z), if isLen then .int z else .invalid⟩
  | 1 =>
    ⟨ks ++ [32] ++ natDigits (it.g 6) ++ [32] ++ natDigits (it.g 7) ++ bs " R ", some (key, .ref (it.g 6) (it.g 7)),
     if isLen then .ref (it.g 6) (it.g 7) else .invalid⟩
  | 2 => ⟨[], none, .invalid⟩
  | _ =>
    let (tok, v) := otherTab[it.g 6 % otherTab.length]?.getD (bs "/N", some (.name (bs "N")))
    ⟨ks ++ [32] ++ tok ++ [32], v.map fun v => (key, v), .invalid⟩

def eol1Tab : List Bytes := [[10], [13, 10], [13], [], [32, 10], [10, 13]]
def eol2Tab : List Bytes := [[], [13], [10], [13, 10], [32], [10, 10], [13, 13]]
def esTab : List Bytes := [kwEndstream, bs "endstrea", [], bs "Endstream"]
def eoTab : List Bytes := [kwEndobj, bs "endob", [], bs "endstream"]

/-- where the parts of a rendered item are -/
structure Layout where
  off : Nat            -- where the call starts (leading whitespace included)
  start : Nat          -- first digit of the object number
  ostart : Nat         -- start of the object value
  oend : Nat           -- end of the value (plain) / of the dictionary (stream)
  kw : Nat             -- position of the `stream` keyword
  stop : Nat           -- end of the item's text
deriving Repr

/-- the expected (sorted) dictionary of a stream item -/
def streamDict (it : Item) : List (Bytes × Obj) :=
  let pre := (preTab[it.g 2 % preTab.length]?.getD ([], [])).2
  let post := (postTab[it.g 3 % postTab.length]?.getD ([], [])).2
  let le := lenEntry it
  match le.entry with
  | none => pre ++ post
  | some (k, v) => if k == bs "Length" then pre ++ [(k, v)] ++ post else pre ++ post ++ [(k, v)]

/-- text of one item placed at offset `off`, with its layout -/
def renderItem (it : Item) (off : Nat) : Bytes × Layout :=
  let w0 := wsOpt (it.g 9)
  let head := natDigits it.num ++ wsReq (it.g 10) ++ natDigits it.gen ++ wsOpt (it.g 11) ++ kwObj
  if it.isStream then
    let w3 := wsOpt (it.g 12)
    let pre := (preTab[it.g 2 % preTab.length]?.getD ([], [])).1
    let post := (postTab[it.g 3 % postTab.length]?.getD ([], [])).1
    let le := (lenEntry it).spelling
    let parts := match it.g 4 % 3 with
      | 0 => pre ++ le ++ post
      | 1 => le ++ post ++ [32] ++ pre
      | _ => post ++ [32] ++ pre ++ le
    let dict := [60, 60] ++ parts ++ [62, 62]
    let w4 := wsOpt (it.g 13)
    let e1 := eol1Tab[it.g 15 % eol1Tab.length]?.getD [10]
    let e2 := eol2Tab[it.g 16 % eol2Tab.length]?.getD []
    let es := esTab[it.g 17 % esTab.length]?.getD kwEndstream
    let w5 := wsOpt (it.g 14)
    let eo := eoTab[it.g 18 % eoTab.length]?.getD kwEndobj
    let start := off + w0.length
    let ostart := start + head.length + w3.length
    let oend := ostart + dict.length
    let kw := oend + w4.length
    let body := kwStream ++ e1 ++ it.payload ++ e2 ++ es ++ w5 ++ eo
    let all := w0 ++ head ++ w3 ++ dict ++ w4 ++ body
    (all, ⟨off, start, ostart, oend, kw, off + all.length⟩)
  else
    let w3 := wsReq (it.g 12)
    let tok : Bytes := match it.g 2 with
      | 0 => natDigits (it.g 3)
      | 1 => [45] ++ natDigits (it.g 3)
      | k => (plainTab[(k - 2) % plainTab.length]?.getD (bs "/Name", .null)).1
    let w4 := wsReq (it.g 13)
    let eo := eoTab[it.g 18 % eoTab.length]?.getD kwEndobj
    let start := off + w0.length
    let ostart := start + head.length + w3.length
    let oend := ostart + tok.length
    let all := w0 ++ head ++ w3 ++ tok ++ w4 ++ eo
    (all, ⟨off, start, ostart, oend, oend, off + all.length⟩)

def plainValue (it : Item) : Obj :=
  match it.g 2 with
  | 0 => .int (it.g 3)
  | 1 => .int (-(it.g 3 : Int))
  | k => (plainTab[(k - 2) % plainTab.length]?.getD (bs "/Name", .null)).2

/-- a scene: its items, each followed by a newline -/
def renderScene : List Item → Nat → Bytes × List Layout
  | [], _ => ([], [])
  | it :: t, off =>
    let (b, l) := renderItem it off
    let (bt, lt) := renderScene t (off + b.length + 1)
    (b ++ [10] ++ bt, l :: lt)

/-- what the spec expects of one call -/
inductive Expect where
  | accept (num gen start stop ostart oend : Nat) (val : Obj)
  | needContext           -- rejected, reported as insufficient context
  | reject                -- rejected with any other error kind
deriving Inhabited

/-- spec-side whitespace between tokens: white-space bytes and comments up to the line feed -/
def skipWs : Nat → Bytes → Bytes
  | 0, s => s
  | f + 1, s =>
    match s with
    | [] => []
    | b :: t =>
      if b == 32 || b == 0 || b == 9 || b == 13 || b == 10 || b == 12 then skipWs f t
      else if b == 37 then
        let r := t.dropWhile (· != 10)
        skipWs f (r.drop 1)
      else s

/-- objects defined so far, as the spec sees them (position of the value included) -/
abbrev SDefs := List ((Nat × Nat) × (Obj × Nat × Nat))

def sLookup (d : SDefs) (k : Nat × Nat) : Option (Obj × Nat × Nat) := (d.find? fun e => e.1 == k).map (·.2)
def sBind (d : SDefs) (k : Nat × Nat) (v : Obj × Nat × Nat) : SDefs := (k, v) :: d.filter fun e => e.1 != k

/-- executable `LenRes` -/
def resolve (d : SDefs) : Declared → Res Nat
  | .invalid => .err .guard
  | .int z => if z < 0 then .err .guard else .ok z.toNat
  | .ref a g =>
    match sLookup d (a, g) with
    | none => .err .ctx
    | some (.int z, _, _) => if z < 0 then .err .guard else .ok z.toNat
    | some _ => .err .guard

/-- The expected outcome of parsing item `it` (laid out at `lay`) of buffer `buf`, with `d` defined
    before; and what is defined afterwards.  An identifier that is defined twice is rejected, and the
    second definition replaces the first in the context (as the implementation documents by
    inserting before it reports). -/
def expectItem (buf : Bytes) (d : SDefs) (it : Item) (lay : Layout) : Expect × SDefs :=
  let id := (it.num, it.gen)
  let finish (val : Obj) (oend : Nat) (after : Nat) : Expect × SDefs :=
    -- `endobj` must follow (white space allowed)
    let rest := skipWs (buf.length + 1) (buf.drop after)
    if kwEndobj.isPrefixOf rest then
      let stop := buf.length - rest.length + 6
      let d' := sBind d id (val, lay.ostart, oend)
      match sLookup d id with
      | none => (.accept it.num it.gen lay.start stop lay.ostart oend val, d')
      | some _ => (.reject, d')
    else (.reject, d)
  if it.isStream then
    match resolve d (lenEntry it).declared with
    | .err .ctx => (.needContext, d)
    | .err _ => (.reject, d)
    | .panic _ => (.reject, d)
    | .ok n =>
      match framedAt false buf lay.kw n with
      | none => (.reject, d)
      | some (payload, st, stop) => finish (.stream (streamDict it) ⟨st, n, payload⟩) stop stop
  else finish (plainValue it) lay.oend lay.oend

def expectScene (buf : Bytes) : SDefs → List Item → List Layout → List Expect × SDefs
  | d, it :: t, l :: lt =>
    let (e, d') := expectItem buf d it l
    let (es, d'') := expectScene buf d' t lt
    (e :: es, d'')
  | d, _, _ => ([], d)

end Parsley.Framing
