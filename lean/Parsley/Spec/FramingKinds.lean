/-
  C05 spec side, plain objects of EVERY kind as the target of a `/Length n g R`.

  `Framing.renderItem` writes a plain object `n g obj <value> endobj` with a value taken from a
  seven-row table (`plainTab`).  This file adds the missing kinds of object, each parameterised by
  numbers of the description (valKind = `it.g 2` >= 100, parameters `it.g 3`, `it.g 4`):

      100  real with zero fraction  `a.0`          101  real                 `a.5`
      102  `true`     103  `false`   104  `null`    105  name                 `/a`
      106  literal string `(a)`      107  hexadecimal string `<..>` (the digits of a)
      108  array `[a]`               109  dictionary `<</Length a>>`
      110  REFERENCE `a b R`         111  negative real with zero fraction `-a.0`
      112  real with zero fraction and leading `+`, `+a.00`

  (integers inside and outside the i64 range are the kinds 0 / 1 of `Framing` / `FramingWide`; a
  stream object as a target is an ordinary stream item of the scene.)

  What is expected needs no new clause: `Framing.resolve` (the executable `LenRes`) already says that
  a `/Length n g R` whose object (n, g) is defined and is anything but a non-negative integer is an
  INVALID length (the stream object is rejected with an error that is not `insufficient context`),
  whatever that object is - in particular when it is itself a reference: a reference is not an
  integer, it is not followed, and what it points to (an integer, nothing, itself) does not matter.
  `needs more context` is expected only when (n, g) ITSELF is not defined.

  The definitions live here rather than in Spec/Framing.lean because that file is imported by the
  proofs of C05 and, through them, C01/C03/C04; the oracle is not part of any theorem.
  Import-free (core + Parsley.Model/Spec only); never runs the parser model.
-/
import Parsley.Spec.FramingWide
namespace Parsley.Framing
open Parsley Parsley.Obj

def kindBase : Nat := 100

def hexDigit (n : Nat) : UInt8 := if n < 10 then (48 + n).toUInt8 else (87 + n).toUInt8
def hexSpell (b : Bytes) : Bytes := b.flatMap fun x => [hexDigit (x.toNat / 16), hexDigit (x.toNat % 16)]

/-- spelling and value of the extended kind `j` with parameters `a`, `b` -/
def kindVal (j a b : Nat) : Bytes × Obj :=
  match j with
  | 0 => (natDigits a ++ bs ".0", .real ((a : Int) * 10) 10)
  | 1 => (natDigits a ++ bs ".5", .real ((a : Int) * 10 + 5) 10)
  | 2 => (bs "true", .bool true)
  | 3 => (bs "false", .bool false)
  | 4 => (bs "null", .null)
  | 5 => ([47] ++ natDigits a, .name (natDigits a))
  | 6 => ([40] ++ natDigits a ++ [41], .str (natDigits a))
  | 7 => ([60] ++ hexSpell (natDigits a) ++ [62], .str (natDigits a))
  | 8 => ([91] ++ natDigits a ++ [93], .arr [.int a])
  | 9 => (bs "<</Length " ++ natDigits a ++ bs ">>", .dict [(bs "Length", .int a)])
  | 11 => ([45] ++ natDigits a ++ bs ".0", .real (-((a : Int) * 10)) 10)
  | 12 => ([43] ++ natDigits a ++ bs ".00", .real ((a : Int) * 100) 100)
  | _ => (natDigits a ++ [32] ++ natDigits b ++ bs " R", .ref a b)

def isKind (it : Item) : Bool := !it.isStream && it.g 2 ≥ kindBase

/-- `Framing.renderItem`, with the extended kinds of plain value -/
def renderItemK (it : Item) (off : Nat) : Bytes × Layout :=
  if isKind it then
    let w0 := wsOpt (it.g 9)
    let head := natDigits it.num ++ wsReq (it.g 10) ++ natDigits it.gen ++ wsOpt (it.g 11) ++ kwObj
    let w3 := wsReq (it.g 12)
    let tok : Bytes := (kindVal (it.g 2 - kindBase) (it.g 3) (it.g 4)).1
    let w4 := wsReq (it.g 13)
    let eo := eoTab[it.g 18 % eoTab.length]?.getD kwEndobj
    let start := off + w0.length
    let ostart := start + head.length + w3.length
    let oend := ostart + tok.length
    let all := w0 ++ head ++ w3 ++ tok ++ w4 ++ eo
    (all, ⟨off, start, ostart, oend, oend, off + all.length⟩)
  else renderItem it off

def renderSceneK : List Item → Nat → Bytes × List Layout
  | [], _ => ([], [])
  | it :: t, off =>
    let (b, l) := renderItemK it off
    let (bt, lt) := renderSceneK t (off + b.length + 1)
    (b ++ [10] ++ bt, l :: lt)

/-- The expected outcome of parsing item `it`: `expectItemW`, and for a plain object of an extended
    kind its clause for plain objects with the value of `kindVal`. -/
def expectItemK (buf : Bytes) (d : SDefs) (it : Item) (lay : Layout) : Expect × SDefs :=
  if isKind it then
    let id := (it.num, it.gen)
    if !(NumLit.headerOK it.num && NumLit.headerOK it.gen) then (.reject, d) else
    let val := (kindVal (it.g 2 - kindBase) (it.g 3) (it.g 4)).2
    -- `endobj` must follow (white space allowed)
    let rest := skipWs (buf.length + 1) (buf.drop lay.oend)
    if kwEndobj.isPrefixOf rest then
      let stop := buf.length - rest.length + 6
      let d' := sBind d id (val, lay.ostart, lay.oend)
      match sLookup d id with
      | none => (.accept it.num it.gen lay.start stop lay.ostart lay.oend val, d')
      | some _ => (.reject, d')
    else (.reject, d)
  else expectItemW buf d it lay

def expectSceneK (buf : Bytes) : SDefs → List Item → List Layout → List Expect × SDefs
  | d, it :: t, l :: lt =>
    let (e, d') := expectItemK buf d it l
    let (es, d'') := expectSceneK buf d' t lt
    (e :: es, d'')
  | d, _, _ => ([], d)

end Parsley.Framing
