/-
  C05 spec side, integer literals of any size.

  `Framing.expectItem` reads every digit run of a scene as an Integer object.  That is the meaning
  of the text only while the written value lies in the i64 range (all the generator of
  Driver/C05.lean produced until the wide-literal family was added).  This file states the expected
  outcome for scenes whose numbers are written with ANY digit string, using the spec of number
  tokens `NumLit.denote`:

    * a declared length `/Length <literal>` outside -2^63 .. 2^63-1 is a Real object (or, beyond the
      i128 range, no object at all): the length is invalid and the stream object is rejected - it is
      never framed by the literal reduced modulo 2^64 or by any other number;
    * an integer object `n g obj <literal> endobj` outside that range is defined as the real
      literal/1 (beyond i128: rejected, nothing defined); a stream whose `/Length n g R` refers to it
      is rejected with an invalid-length error (not an insufficient-context error);
    * object number / generation of the header `n g obj` and of a reference `n g R` above 2^63-1:
      the object (resp. the dictionary containing the reference) does not parse: rejected.

  On scenes whose literals all lie in the i64 range `expectItemW` is `Framing.expectItem` (same
  clauses in the same order).  The definitions live here rather than in Spec/Framing.lean because
  that file is imported by the proofs of C05 and, through them, C01/C03/C04: the oracle is not part
  of any theorem.  Import-free (core + Parsley.Model/Spec only); never runs the parser model.
-/
import Parsley.Spec.Framing
import Parsley.Spec.NumLit
namespace Parsley.Framing
open Parsley Parsley.Obj

/-- the parsed `Length` entry and the declared length, for literals of any size -/
def lenEntryW (it : Item) : Option LenEntry :=
  let le := lenEntry it
  match it.g 5 % 4 with
  | 0 =>
    match NumLit.denote (it.g 7 % 4 == 1) (it.g 6) with
    | none => none                                            -- not a number token: the dictionary does not parse
    | some (.int _) => some le
    | some v => some { le with entry := le.entry.map fun (k, _) => (k, v), declared := .invalid }
  | 1 => if NumLit.headerOK (it.g 6) && NumLit.headerOK (it.g 7) then some le else none
  | _ => some le

/-- the value of a plain item, for literals of any size (`none`: the value does not parse) -/
def plainValueW (it : Item) : Option Obj :=
  match it.g 2 with
  | 0 => NumLit.denote false (it.g 3)
  | 1 => NumLit.denote true (it.g 3)
  | _ => some (plainValue it)

/-- `Framing.streamDict` with the `Length` entry of `lenEntryW` -/
def streamDictW (it : Item) (le : LenEntry) : List (Bytes × Obj) :=
  let pre := (preTab[it.g 2 % preTab.length]?.getD ([], [])).2
  let post := (postTab[it.g 3 % postTab.length]?.getD ([], [])).2
  match le.entry with
  | none => pre ++ post
  | some (k, v) => if k == bs "Length" then pre ++ [(k, v)] ++ post else pre ++ post ++ [(k, v)]

/-- The expected outcome of parsing item `it` (laid out at `lay`) of buffer `buf`, with `d` defined
    before; and what is defined afterwards.  Literals of any size. -/
def expectItemW (buf : Bytes) (d : SDefs) (it : Item) (lay : Layout) : Expect × SDefs :=
  let id := (it.num, it.gen)
  let finish (val : Obj) (oend : Nat) (after : Nat) : Expect × SDefs :=
    -- `endobj` must follow (white space allowed)
    let rest := skipWs (buf.length + 1) (buf.drop after)
    if kwEndobj.isPrefixOf rest then
      let stop := buf.length - rest.length + 6
      let d' := sBind d id (val, lay.ostart, oend)
      match sLookup d id with
      | none => (.accept it.num it.gen lay.start stop lay.ostart oend val, d')
      | some _ => (.reject, d')
    else (.reject, d)
  -- the header `num gen obj` admits numbers up to 2^63-1 only
  if !(NumLit.headerOK it.num && NumLit.headerOK it.gen) then (.reject, d) else
  if it.isStream then
    match lenEntryW it with
    | none => (.reject, d)
    | some le =>
      match resolve d le.declared with
      | .err .ctx => (.needContext, d)
      | .err _ => (.reject, d)
      | .panic _ => (.reject, d)
      | .ok n =>
        match framedAt false buf lay.kw n with
        | none => (.reject, d)
        | some (payload, st, stop) => finish (.stream (streamDictW it le) ⟨st, n, payload⟩) stop stop
  else
    match plainValueW it with
    | none => (.reject, d)
    | some v => finish v lay.oend lay.oend

def expectSceneW (buf : Bytes) : SDefs → List Item → List Layout → List Expect × SDefs
  | d, it :: t, l :: lt =>
    let (e, d') := expectItemW buf d it l
    let (es, d'') := expectSceneW buf d' t lt
    (e :: es, d'')
  | d, _, _ => ([], d)

end Parsley.Framing
