/-
  Spec of name tokens (oracle of the C02 `hash` / `nohash` cases).

  A name token is `/` followed by the maximal run of regular characters (everything but
  whitespace and the delimiters `( ) < > [ ] { } / %`).  Read left to right, the run denotes a
  byte string:
    * `#` followed by two hexadecimal digits (either case) is ONE byte, the one with that code;
      the code 00 is not allowed: the token is then not a name (the parser reports "null char in
      name");
    * every other byte stands for itself - in particular a `#` that is NOT followed by two
      hexadecimal digits (last byte of the token, second-to-last byte, followed by one hex digit
      and one other byte, followed by another `#`, ...) is the literal byte `#`.  (ISO 32000 asks
      writers to spell `#` as `#23`; Parsley accepts the raw `#` as an ordinary name byte, and so
      does this spec.)
  Bytes consumed by a code are not looked at again: `/#2341` is the three bytes `#41`, not `A`.

  Import-free (core Lean + `Bytes`).  Independent of the parser model (Model/Prim.lean `nameDec`
  mirrors the `windows(3)` loop of the Rust code with its trailing-byte cases; this is the plain
  recursive reading of the lexical rule, with its own digit table).
-/
import Parsley.Base.Basic
namespace Parsley.NameLit
open Parsley

/-- the value of a hexadecimal digit, either case -/
def hexDigit? (b : UInt8) : Option UInt8 :=
  if 48 ≤ b && b ≤ 57 then some (b - 48)            -- '0'..'9'
  else if 65 ≤ b && b ≤ 70 then some (b - 55)       -- 'A'..'F'
  else if 97 ≤ b && b ≤ 102 then some (b - 87)      -- 'a'..'f'
  else none

/-- the byte written by the two characters after a `#`, when both are hexadecimal digits -/
def code? (h l : UInt8) : Option UInt8 :=
  match hexDigit? h, hexDigit? l with
  | some x, some y => some (16 * x + y)
  | _, _ => none

/-- **What the characters of a name token (after the `/`) denote**: `none` = not a name (a `#00`
    code).  Left to right: `#` + two hex digits -> that byte; anything else -> itself. -/
def nameDenote : Bytes → Option Bytes
  | [] => some []
  | [b] => some [b]
  | [b, c] => some [b, c]
  | b :: h :: l :: t =>
    match (if b == 35 then code? h l else none) with
    | some ch => if ch == 0 then none else (nameDenote t).map (ch :: ·)
    | none => (nameDenote (h :: l :: t)).map (b :: ·)
termination_by s => s.length

/-- is the `#` at position `i` of the token a raw one (a literal byte, not the start of a code
    and not inside one)?  Used by the generator to describe its cases, not by the oracle. -/
def rawHashCount : Bytes → Nat
  | [] => 0
  | [b] => if b == 35 then 1 else 0
  | [b, c] => (if b == 35 then 1 else 0) + (if c == 35 then 1 else 0)
  | b :: h :: l :: t =>
    match (if b == 35 then code? h l else none) with
    | some _ => rawHashCount t
    | none => (if b == 35 then 1 else 0) + rawHashCount (h :: l :: t)
termination_by s => s.length

/-- number of `#xx` codes read -/
def codeCount : Bytes → Nat
  | b :: h :: l :: t =>
    match (if b == 35 then code? h l else none) with
    | some _ => 1 + codeCount t
    | none => codeCount (h :: l :: t)
  | _ => 0
termination_by s => s.length

/-- the spelling of a byte string with EVERY byte written as a code (upper-case digits) -/
def allCodes : Bytes → Bytes
  | [] => []
  | b :: t =>
    let d (n : Nat) : UInt8 := if n < 10 then UInt8.ofNat (48 + n) else UInt8.ofNat (55 + n)
    35 :: d (b.toNat / 16) :: d (b.toNat % 16) :: allCodes t

end Parsley.NameLit
