/-
  Spec of point-free number tokens (shared by the oracles of C02 and C05).

  A number token without a decimal point - optional sign, a run of decimal digits - denotes
    * the Integer object of that value when the value lies in the i64 range  -2^63 .. 2^63-1,
    * otherwise the Real object value/1 (numerator, denominator 1) when the written magnitude
      fits an i128 (<= 2^127-1),
    * otherwise nothing: the token is not a PDF object (the parser reports a numerical overflow).
  In particular a literal of magnitude >= 2^63 is NEVER an Integer of some other (reduced) value:
  `18446744073709551621` (2^64+5) is the real 18446744073709551621/1, not the integer 5.

  In the positions where the grammar wants an integer and nothing else (object number and
  generation of `n g obj` and of `n g R`), only magnitudes <= 2^63-1 are accepted (`headerOK`).

  Import-free (core + the value type of Parsley.Model.Obj).  Independent of the parser model:
  plain arithmetic on the written value.
-/
import Parsley.Model.Obj
namespace Parsley.NumLit
open Parsley Parsley.Obj

def i64Lo : Int := -(2 ^ 63)
def i64Hi : Int := 2 ^ 63 - 1
def i128Hi : Nat := 2 ^ 127 - 1

/-- the value written by a sign and a magnitude -/
def signed (neg : Bool) (mag : Nat) : Int := if neg then -(mag : Int) else (mag : Int)

/-- **What a point-free number token denotes** (`neg`: a minus sign is written; `mag`: the value of
    the digit run - leading zeros and a plus sign do not matter). -/
def denote (neg : Bool) (mag : Nat) : Option Obj :=
  if mag > i128Hi then none
  else if i64Lo ≤ signed neg mag && signed neg mag ≤ i64Hi then some (.int (signed neg mag))
  else some (.real (signed neg mag) 1)

/-- is the token an Integer object? -/
def isInt (neg : Bool) (mag : Nat) : Bool :=
  match denote neg mag with | some (.int _) => true | _ => false

/-- an unsigned number in a position that admits integers only (object number / generation) -/
def headerOK (n : Nat) : Bool := (n : Int) ≤ i64Hi

/-- the low 64 bits of `z` read as a two's-complement i64: what a truncating conversion would make
    of it.  Used by the generators only, to build literals that a truncating implementation confuses
    with a small number. -/
def wrap64 (z : Int) : Int :=
  let m := z % (2 ^ 64 : Int)          -- 0 ≤ m < 2^64
  if m ≤ i64Hi then m else m - 2 ^ 64

/-- a literal (negative?, magnitude) outside the i64 range whose low 64 bits are `t` (|t| small):
    `k * 2^64 + t` for `neg = false`, `-(k * 2^64 - t)` for `neg = true`  (k ≥ 1) -/
def wideLit (neg : Bool) (k : Nat) (t : Int) : Bool × Nat :=
  if neg then (true, ((k : Int) * 2 ^ 64 - t).toNat) else (false, ((k : Int) * 2 ^ 64 + t).toNat)

end Parsley.NumLit
