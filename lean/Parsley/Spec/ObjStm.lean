/-
  C14 spec side: what an object stream MEANS, independently of how the parser
  walks it (ISO 32000-1, 7.5.7).

  * the header is N pairs of decimal integers `id offset`, separated by white
    space, somewhere in the first /First bytes of the decoded data
    (`encodeHeader`: the encoder; every layout is a choice of white-space runs);
  * the content is everything from /First on; the object with the k-th
    identifier is THE OBJECT LOCATED AT ITS DECLARED OFFSET (relative to
    /First).  What "the object located at offset o" is, is a parameter `rd` of
    the spec (instantiated in Props/C14 with the object parser of C02/C16);
  * a stream is well formed when offsets stay inside the content, every object
    ends at or before the next declared offset, and the identifiers are pairwise
    distinct and not yet defined (`Extracts`, `Fresh`);
  * `encodeObjStm` lays out a list of (identifier, spelled object, gap bytes,
    layout) and is the generator of the correspondence run: gaps are arbitrary
    bytes that belong to no object.
  Import-free apart from the models' value types and the C02 spelling encoder.
-/
import Parsley.Model.Obj
import Parsley.Spec.Spelling
namespace Parsley.ObjStmSpec
open Parsley Parsley.Obj Parsley.Spelling

/-! ## header -/

/-- one header pair with its layout: white space before the identifier and between the
    identifier and the offset -/
structure HdrEntry where
  id : Nat
  ofs : Nat
  pre : Bytes
  mid : Bytes

def encodePair (e : HdrEntry) : Bytes := e.pre ++ (natDigits e.id ++ (e.mid ++ natDigits e.ofs))

def encodeHeader : List HdrEntry → Bytes
  | [] => []
  | e :: t => encodePair e ++ encodeHeader t

def allWs (w : Bytes) : Bool := w.all Prim.isWsEol

/-- a legal layout: white-space runs, non-empty where two numbers would otherwise touch -/
def layoutOK (isFirst : Bool) (e : HdrEntry) : Bool :=
  allWs e.pre && allWs e.mid && !e.mid.isEmpty && (isFirst || !e.pre.isEmpty)

def layoutsOK : Bool → List HdrEntry → Bool
  | _, [] => true
  | f, e :: t => layoutOK f e && layoutsOK false t

/-- the pairs a header declares -/
def declared (es : List HdrEntry) : List (Nat × Nat) := es.map fun e => (e.id, e.ofs)

/-! ## content -/

/-- "the object located at offset o of the content": value with the span it occupies -/
abbrev Reader := Nat → Option (Located Obj)

/-- `Extracts rd size e pairs r`: reading the declared pairs in order from a content of `size`
    bytes, with the previous object ending at `e`, yields the members `r`:
    every offset lies inside the content and not before the end of the previous object, and the
    member is the object located at that offset. -/
def Extracts (rd : Reader) (size : Nat) : Nat → List (Nat × Nat) → List (Nat × Located Obj) → Prop
  | _, [], r => r = []
  | e, (id, ofs) :: t, r =>
    ∃ o r', r = (id, o) :: r' ∧ e ≤ ofs ∧ ofs ≤ size ∧ rd ofs = some o ∧ Extracts rd size o.stop t r'

/-- identifiers pairwise distinct, and none of them defined (with generation 0) by `defined` -/
def Fresh (defined : Nat × Nat → Bool) (ids : List Nat) : Prop :=
  ids.Nodup ∧ ∀ id ∈ ids, defined (id, 0) = false

/-! ## the encoder used as generator -/

/-- one member to lay out: junk bytes that precede it (after the previous object), then its
    spelling (which may start with white space / comments) -/
structure Entry where
  id : Nat
  gap : Bytes
  body : Bytes

/-- content bytes and the declared (id, offset) pairs; `pos` = bytes laid out so far -/
def layoutContent : List Entry → Nat → Bytes × List (Nat × Nat)
  | [], _ => ([], [])
  | e :: t, pos =>
    let ofs := pos + e.gap.length
    let (rest, ps) := layoutContent t (ofs + e.body.length)
    (e.gap ++ e.body ++ rest, (e.id, ofs) :: ps)

/-- header entries for declared pairs with the given white-space runs (cyclic) -/
def mkHeader (ps : List (Nat × Nat)) (ws : List (Bytes × Bytes)) : List HdrEntry :=
  (ps.zipIdx).map fun (p, k) =>
    let l := ws[k % (if ws.length == 0 then 1 else ws.length)]?.getD ([32], [32])
    ⟨p.1, p.2, (if k == 0 then l.1 else if l.1.isEmpty then [32] else l.1), (if l.2.isEmpty then [32] else l.2)⟩

/-- the decoded stream data and /First for a list of members:
    header ++ padding ++ content, with /First = |header ++ padding| -/
def encodeObjStm (es : List Entry) (ws : List (Bytes × Bytes)) (pad : Bytes) : Bytes × Nat × List (Nat × Nat) :=
  let (content, ps) := layoutContent es 0
  let hdr := encodeHeader (mkHeader ps ws) ++ pad
  (hdr ++ content, hdr.length, ps)

end Parsley.ObjStmSpec
