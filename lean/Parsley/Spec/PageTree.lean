/-
  Declarative specification of the page DOM (property C11), independent of the converter model:

  * `deref`   : the value a (chain of) indirect reference(s) denotes -- follow at most |defs| links
                (no visited set: a chain that is still a reference after |defs| links cannot end);
  * `view`    : what a page-tree object *says* (parent, count, kids, own font-resource names,
                content streams), or `defective` when the object lacks what a DOM entry needs;
  * `discover`: the breadth-first discovery of the tree, level by level, from the root's kids over
                defined references, first discovery wins; each discovered object is paired with the
                font-resource names in scope on its discovery path (nearest declaring ancestor);
  * `specDom` : expected DOM = one record per discovered object; `none` = an error must be reported
                (some discovered object, the root or the catalog is defective).
  * `wfObj` / `wfDefs`: the representation invariant "every dictionary is a map" (keys strictly
                increasing); checked by the judge on every case, assumed by Props/C11Spec.
  Only `utf8Valid` (a model of `std::str::from_utf8`, not of the crate) is shared with Model/PageDom.
-/
import Parsley.Model.PageDom
namespace Parsley.PageTreeSpec
open Parsley Parsley.Obj
open Parsley.PageDom (ObjId Defs Kvs utf8Valid nPages nPage nKids nCount nParent nResources nContents
  nType nFont nFontName nFlags nBaseFont nSubtype nFontDescriptor nEncoding)

/-- the definition of an object identifier -/
def defOf (defs : Defs) (id : ObjId) : Option Obj := (defs.find? fun e => e.1 == id).map (·.2)

/-- follow at most `n` links; returns the identifier the value was found under (if any link was
    followed) and the value -/
def derefN (defs : Defs) : Nat → Option ObjId → Obj → Option (Option ObjId × Obj)
  | 0, _, .ref _ _ => none
  | n + 1, _, .ref a g =>
    match defOf defs (a, g) with
    | none => none
    | some o => derefN defs n (some (a, g)) o
  | _, src, o => some (src, o)

def deref (defs : Defs) (o : Obj) : Option (Option ObjId × Obj) := derefN defs defs.length none o

/-- value of a dictionary entry through references -/
def entry (defs : Defs) (d : Kvs) (k : Bytes) : Option Obj :=
  match dictGet k d with
  | none => none
  | some o => (deref defs o).map (·.2)

def isName : Option Obj → Bool | some (.name _) => true | _ => false
def isNat : Option Obj → Bool | some (.int i) => 0 ≤ i | _ => false

/-! ### fonts: only well-formedness and the resource names matter to the property -/

def descrBodyOK (d : Kvs) : Bool := isName (dictGet nFontName d) && isNat (dictGet nFlags d)

def descrOK (defs : Defs) (fd : Kvs) : Bool :=
  match dictGet nFontDescriptor fd with
  | none => true
  | some (.dict d) => descrBodyOK d
  | some (.ref a g) => match defOf defs (a, g) with | some (.dict d) => descrBodyOK d | _ => false
  | some _ => false

def encodingOK (defs : Defs) (fd : Kvs) : Bool :=
  match dictGet nEncoding fd with
  | none => true
  | some o =>
    match deref defs o with
    | some (_, .name n) => utf8Valid n
    | some (_, .dict _) => true
    | _ => false

def fontBodyOK (defs : Defs) (fd : Kvs) : Bool :=
  isName (dictGet nBaseFont fd) && isName (dictGet nSubtype fd) && descrOK defs fd && encodingOK defs fd

/-- a font resource: a font dictionary, directly or through one reference -/
def fontOK (defs : Defs) : Obj → Bool
  | .dict fd => fontBodyOK defs fd
  | .ref a g => match defOf defs (a, g) with | some (.dict fd) => fontBodyOK defs fd | _ => false
  | _ => false

/-- own resources of a node: `none` = not declared; `some none` = declared but defective;
    `some (some names)` = declared, with these font resource names -/
def ownFonts (defs : Defs) (d : Kvs) : Option (Option (List Bytes)) :=
  match entry defs d nResources with
  | some (.dict rd) =>
    match dictGet nFont rd with
    | none => some (some [])
    | some fv =>
      match deref defs fv with
      | some (_, .dict fonts) => if fonts.all fun kv => fontOK defs kv.2 then some (some (fonts.map (·.1))) else some none
      | _ => some none
  | _ => none

/-! ### what a page-tree object says -/

/-- a content stream: the identifier it is defined under, or inline -/
def streamOf (defs : Defs) (o : Obj) : Option (Option ObjId) :=
  match deref defs o with
  | some (src, .stream _ _) => some src
  | _ => none

def contentsOf (defs : Defs) (d : Kvs) : Option (List (Option ObjId)) :=
  match dictGet nContents d with
  | none => none
  | some co =>
    match deref defs co with
    | some (src, .stream _ _) => some [src]
    | some (_, .arr xs) => xs.mapM (streamOf defs)
    | _ => none

/-- the identifiers listed by a /Kids value (an array, possibly through references);
    elements that are not references are not kids -/
def kidsOf (defs : Defs) (d : Kvs) : Option (List ObjId) :=
  match entry defs d nKids with
  | some (.arr xs) => some (xs.filterMap fun | .ref a g => some (a, g) | _ => none)
  | _ => none

def parentOf (d : Kvs) : Option ObjId :=
  match dictGet nParent d with
  | some (.ref a g) => some (a, g)
  | _ => none

def countOf (d : Kvs) : Option Nat :=
  match dictGet nCount d with
  | some (.int i) => if 0 ≤ i then some i.toNat else none
  | _ => none

inductive View where
  | pages (parent : ObjId) (count : Nat) (kids : List ObjId) (own : Option (List Bytes))
  | page (parent : ObjId) (own : Option (List Bytes)) (contents : List (Option ObjId))
  | defective

def view (defs : Defs) : Obj → View
  | .dict d =>
    match dictGet nType d, parentOf d, ownFonts defs d with
    | some (.name t), some parent, own =>
      match own with
      | some none => .defective
      | _ =>
        let own := own.bind id
        if t == nPages then
          match countOf d, kidsOf defs d with
          | some c, some kids => .pages parent c kids own
          | _, _ => .defective
        else if t == nPage then
          match contentsOf defs d with
          | some cs => .page parent own cs
          | none => .defective
        else .defective
    | _, _, _ => .defective
  | _ => .defective

/-! ### representation invariant of dictionaries

  `Obj.dict kvs` stands for a Rust `BTreeMap<Vec<u8>, _>`: an association list sorted by key bytes
  (Model/Obj.lean).  `wfObj` says that every dictionary inside a value is such a map: keys strictly
  increasing.  The judge checks it on every case; Props/C11Spec assumes it of the definition map. -/

/-- keys strictly increasing (every key below all later keys) -/
def sortedKeys : Kvs → Bool
  | [] => true
  | (k, _) :: t => t.all (fun e => bytesLt k e.1) && sortedKeys t

mutual
def wfObj : Obj → Bool
  | .arr xs => wfList xs
  | .dict kvs => sortedKeys kvs && wfKvs kvs
  | .stream kvs _ => sortedKeys kvs && wfKvs kvs
  | _ => true
def wfList : List Obj → Bool
  | [] => true
  | x :: t => wfObj x && wfList t
def wfKvs : List (Bytes × Obj) → Bool
  | [] => true
  | (_, v) :: t => wfObj v && wfKvs t
end

/-- every definition is a well-formed value -/
def wfDefs (defs : Defs) : Bool := defs.all fun e => wfObj e.2

/-! ### expected DOM -/

inductive Rec where
  | node (id parent : ObjId) (count : Nat) (fonts : Option (List Bytes)) (kids : List ObjId)
  | leaf (id parent : ObjId) (fonts : List Bytes) (contents : List (Option ObjId))

def Rec.id : Rec → ObjId | .node id .. => id | .leaf id .. => id

abbrev Scope := Option (List Bytes)

/-- newly discovered kids of one node, in order: defined, not seen before -/
def newKids (defs : Defs) (sc : Scope) : List ObjId → List ObjId → List (ObjId × Scope) × List ObjId
  | [], seen => ([], seen)
  | k :: t, seen =>
    if (defOf defs k).isSome && !seen.contains k then
      let (fr, seen') := newKids defs sc t (k :: seen)
      ((k, sc) :: fr, seen')
    else newKids defs sc t seen

/-- one level: records of the frontier's objects, next frontier, seen set; `none` = defective object -/
def level (defs : Defs) : List (ObjId × Scope) → List ObjId → Option (List Rec × List (ObjId × Scope) × List ObjId)
  | [], seen => some ([], [], seen)
  | (id, sc) :: t, seen =>
    match (defOf defs id).map (view defs) with
    | some (.pages parent c kids own) =>
      let eff : Scope := match own with | some f => some f | none => sc
      let (fr, seen1) := newKids defs eff kids seen
      match level defs t seen1 with
      | none => none
      | some (recs, fr', seen2) => some (.node id parent c eff kids :: recs, fr ++ fr', seen2)
    | some (.page parent own cs) =>
      let fonts : List Bytes := match own, sc with
        | some f, _ => f
        | none, some f => f
        | none, none => []
      match level defs t seen with
      | none => none
      | some (recs, fr', seen2) => some (.leaf id parent fonts cs :: recs, fr', seen2)
    | _ => none

/-- breadth-first discovery, at most `n` levels -/
def discover (defs : Defs) : Nat → List (ObjId × Scope) → List ObjId → Option (List Rec)
  | 0, [], _ => some []
  | 0, _ :: _, _ => none
  | n + 1, fr, seen =>
    if fr.isEmpty then some [] else
    match level defs fr seen with
    | none => none
    | some (recs, fr', seen') =>
      match discover defs n fr' seen' with
      | none => none
      | some more => some (recs ++ more)

structure SpecDom where
  rootCount : Nat
  rootFonts : Scope
  rootKids : List ObjId
  recs : List Rec

/-- the expected DOM of the catalog `cat`; `none` = an error is expected -/
def specDom (defs : Defs) (cat : Obj) : Option SpecDom :=
  match cat with
  | .dict cd =>
    match dictGet nPages cd with
    | some (.ref a g) =>
      match defOf defs (a, g) with
      | some (.dict rd) =>
        match ownFonts defs rd, countOf rd, kidsOf defs rd with
        | some none, _, _ => none
        | own, some c, some kids =>
          let sc : Scope := own.bind id
          let (fr, seen) := newKids defs sc kids []
          match discover defs (defs.length + 1) fr seen with
          | none => none
          | some recs => some { rootCount := c, rootFonts := sc, rootKids := kids, recs }
        | _, _, _ => none
      | _ => none
    | _ => none
  | _ => none

end Parsley.PageTreeSpec
