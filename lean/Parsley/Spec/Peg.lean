/-
  Declarative side of C18: parsing-expression syntax over guarded single-byte
  parsers, span-free value shapes, and the *textbook* PEG (ordered choice,
  greedy repetition, negative lookahead) big-step relation `Peg e x r` on the
  remaining input `x` (B. Ford, POPL 2004, fig. 2 – restricted to the four
  combinators of src/pcore/prim_combinators.rs).

  Nothing here mentions cursors, spans, restores, fuel, error kinds or panics.
  `pegEval` is the executable reading of the relation used as the oracle of the
  correspondence run; `Props/C18.lean` proves `pegEval_sound`,
  `peg_deterministic` and `pegEval_eq_peg` (on expressions whose star bodies
  consume, `pegEval e x = some r ↔ Peg e x r`), so the oracle's answer is *the*
  outcome the relation assigns.
  Import-free apart from Base (core Lean only).
-/
import Parsley.Base.Basic
namespace Parsley.Peg
open Parsley

/-- The guard of a single-byte parser.  `any` is `AsciiChar::new()` (no guard),
    the others are `AsciiChar::new_guarded(Box::new(|c| …))` with a *pure*
    predicate on the (ASCII) character. -/
inductive Guard where
  | any                       -- unguarded: every ASCII byte
  | eq (b : UInt8)            -- |c| *c == b
  | ne (b : UInt8)            -- |c| *c != b
  | range (lo hi : UInt8)     -- |c| lo <= *c && *c <= hi
deriving DecidableEq, Repr, Inhabited

def Guard.holds : Guard → UInt8 → Bool
  | .any, _ => true
  | .eq b, c => c == b
  | .ne b, c => c != b
  | .range lo hi, c => lo ≤ c && c ≤ hi

/-- A single-byte parser accepts `c` iff it is ASCII and passes the guard. -/
def Guard.accepts (g : Guard) (c : UInt8) : Bool := c.toNat < 128 && g.holds c

/-- Parser expressions: the trees from which the harness builds the real
    `AsciiChar / Sequence / Alternate / Star / Not` values. -/
inductive E where
  /-- a single-byte parser with guard `g`.  `raw = false`: the crate's `AsciiChar` (leaves the
      cursor alone when it fails).  `raw = true`: an operand with the cursor discipline of many
      hand-written parsers of the crate (arrays, dictionaries, xref entries …): it has consumed the
      byte when the guard rejects it and does *not* put the cursor back.  The textbook semantics
      has no cursor, so `Peg` does not look at the flag; raw operands exist to exercise the
      restores that the *combinators* perform themselves. -/
  | chr (g : Guard) (raw : Bool := false)
  | seq (a b : E)
  | alt (a b : E)
  | star (a : E)
  | not (a : E)
deriving DecidableEq, Repr, Inhabited

/-- Value structure without locations: `char`, `(T1,T2)`, `Alt::Left/Right`,
    `Vec<T>`, `()`. -/
inductive Shape where
  | ch (c : UInt8)
  | pair (a b : Shape)
  | left (a : Shape)
  | right (a : Shape)
  | list (l : List Shape)
  | unit
deriving Repr, Inhabited

/-- Outcome of an expression on an input: `none` = failure, `some (v, n)` =
    success with value structure `v` having consumed the first `n` bytes. -/
abbrev Outcome := Option (Shape × Nat)

/-- The standard backtracking (PEG) semantics. -/
inductive Peg : E → Bytes → Outcome → Prop where
  | chr_ok {g w c x} : g.accepts c = true → Peg (.chr g w) (c :: x) (some (.ch c, 1))
  | chr_rej {g w c x} : g.accepts c = false → Peg (.chr g w) (c :: x) none
  | chr_eof {g w} : Peg (.chr g w) [] none
  /- a sequence succeeds iff both parts succeed in order -/
  | seq_ok {a b x va n vb m} :
      Peg a x (some (va, n)) → Peg b (x.drop n) (some (vb, m)) →
      Peg (.seq a b) x (some (.pair va vb, n + m))
  | seq_fail1 {a b x} : Peg a x none → Peg (.seq a b) x none
  | seq_fail2 {a b x va n} :
      Peg a x (some (va, n)) → Peg b (x.drop n) none → Peg (.seq a b) x none
  /- alternation commits to the left operand when it succeeds -/
  | alt_left {a b x va n} : Peg a x (some (va, n)) → Peg (.alt a b) x (some (.left va, n))
  | alt_right {a b x vb m} :
      Peg a x none → Peg b x (some (vb, m)) → Peg (.alt a b) x (some (.right vb, m))
  | alt_fail {a b x} : Peg a x none → Peg b x none → Peg (.alt a b) x none
  /- repetition takes the longest run and always succeeds -/
  | star_stop {a x} : Peg a x none → Peg (.star a) x (some (.list [], 0))
  | star_step {a x v n vs m} :
      Peg a x (some (v, n)) → Peg (.star a) (x.drop n) (some (.list vs, m)) →
      Peg (.star a) x (some (.list (v :: vs), n + m))
  /- negation succeeds without consuming iff its operand fails -/
  | not_ok {a x} : Peg a x none → Peg (.not a) x (some (.unit, 0))
  | not_fail {a x v n} : Peg a x (some (v, n)) → Peg (.not a) x none

/-- Is `e` a bare raw operand (the only expressions that may leave the cursor moved on failure)? -/
def E.isRaw : E → Bool
  | .chr _ raw => raw
  | _ => false

/-- "The operand consumes input": a syntactic guarantee that every success of
    `e` consumes at least one byte. -/
def consumes : E → Bool
  | .chr _ _ => true
  | .seq a b => consumes a || consumes b
  | .alt a b => consumes a && consumes b
  | .star _ => false
  | .not _ => false

/-- The domain of the property: repetition is applied only to operands that
    consume input (otherwise `Star::parse` and the textbook semantics both
    diverge). -/
def StarBodiesConsume : E → Bool
  | .chr _ _ => true
  | .seq a b => StarBodiesConsume a && StarBodiesConsume b
  | .alt a b => StarBodiesConsume a && StarBodiesConsume b
  | .star a => consumes a && StarBodiesConsume a
  | .not a => StarBodiesConsume a

/-! ### Executable reading of the relation (the oracle)

`none` = the relation assigns no outcome within the budget (a repetition whose
body succeeds without consuming has no finite derivation); `some r` = `Peg e x r`. -/

/-- Greedy repetition of `p`; `k` bounds the number of iterations and is
    instantiated with `|x| + 1` – each iteration must consume. -/
def starEval (p : Bytes → Option Outcome) : Nat → Bytes → Option (List Shape × Nat)
  | 0, _ => none
  | k + 1, x =>
    match p x with
    | none => none
    | some none => some ([], 0)
    | some (some (v, n)) =>
      if n = 0 then none else
      match starEval p k (x.drop n) with
      | some (vs, m) => some (v :: vs, n + m)
      | none => none

def pegEval : E → Bytes → Option Outcome
  | .chr _ _, [] => some none
  | .chr g _, c :: _ => if g.accepts c then some (some (.ch c, 1)) else some none
  | .seq a b, x =>
    match pegEval a x with
    | none => none
    | some none => some none
    | some (some (va, n)) =>
      match pegEval b (x.drop n) with
      | none => none
      | some none => some none
      | some (some (vb, m)) => some (some (.pair va vb, n + m))
  | .alt a b, x =>
    match pegEval a x with
    | none => none
    | some (some (va, n)) => some (some (.left va, n))
    | some none =>
      match pegEval b x with
      | none => none
      | some none => some none
      | some (some (vb, m)) => some (some (.right vb, m))
  | .star a, x =>
    match starEval (pegEval a) (x.length + 1) x with
    | some (vs, m) => some (some (.list vs, m))
    | none => none
  | .not a, x =>
    match pegEval a x with
    | none => none
    | some none => some (some (.unit, 0))
    | some (some _) => some none

end Parsley.Peg
