/-
  Declarative reading of C07: the FORWARD filters of the PNG specification
  (filter types 0..4: None, Sub, Up, Average, Paeth; ISO/IEC 15948 clause 9) and of
  TIFF 6.0 section 14 (horizontal differencing, predictor 2), as functions from
  sample rows to the bytes an encoder writes.  Nothing here refers to the model;
  the oracle of the correspondence run is computed from these definitions only.

  A row is the byte string of `rowBytes` bytes holding `columns * colors` samples
  of `bpc` bits (16-bit samples high-order byte first, sub-byte samples packed).
  Bytes/samples to the left of the first pixel and above the first row are 0.
-/
import Parsley.Base.Basic
namespace Parsley.PredSpec
open Parsley

/-- |x| on integers -/
def iabs (x : Int) : Int := if x < 0 then -x else x

/-- PNG 9.4 PaethPredictor: `p = a + b - c` (no wrap-around), nearest of a, b, c, ties in that order. -/
def paeth (a b c : UInt8) : UInt8 :=
  let p : Int := (a.toNat : Int) + b.toNat - c.toNat
  let pa := iabs (p - a.toNat)
  let pb := iabs (p - b.toNat)
  let pc := iabs (p - c.toNat)
  if pa ≤ pb ∧ pa ≤ pc then a else if pb ≤ pc then b else c

/-- PNG 9.2 filter type 3: `floor((a + b) / 2)`, the sum formed without overflow. -/
def average (a b : UInt8) : UInt8 := UInt8.ofNat ((a.toNat + b.toNat) / 2)

/-- the predicted value for filter type `ft` from a = left, b = above, c = upper left -/
def predicted (ft : Nat) (a b c : UInt8) : UInt8 :=
  match ft with
  | 0 => 0
  | 1 => a
  | 2 => b
  | 3 => average a b
  | _ => paeth a b c

/-- byte `bpp` positions to the left of position `k` (0 outside the row) -/
def leftOf (row : Bytes) (bpp k : Nat) : UInt8 := if k < bpp then 0 else row.getD (k - bpp) 0

/-- PNG: `Filt(x) = Orig(x) - predicted(Orig(a), Orig(b), Orig(c))` modulo 256 -/
def pngFilterRow (ft bpp : Nat) (prev raw : Bytes) : Bytes :=
  (List.range raw.length).map fun k =>
    raw.getD k 0 - predicted ft (leftOf raw bpp k) (prev.getD k 0) (leftOf prev bpp k)

/-- a PNG-filtered image: each row preceded by its filter-type byte; `prev` is the row above
    (`[]` = all zero above the first row) -/
def pngRows (ft bpp : Nat) : Bytes → List Bytes → Bytes
  | _, [] => []
  | prev, r :: rs => UInt8.ofNat ft :: (pngFilterRow ft bpp prev r ++ pngRows ft bpp r rs)

/-- TIFF horizontal differencing on a row of samples of any fixed-width type:
    each sample minus the same component of the pixel to the left (`d = colors` samples back). -/
def diffLeft {α : Type} [Sub α] [Inhabited α] (d : Nat) (s : List α) : List α :=
  (List.range s.length).map fun j =>
    if j < d then s.getD j default else s.getD j default - s.getD (j - d) default

/-- 16-bit samples of a row, high-order byte first -/
def samples16 : Bytes → List UInt16
  | hi :: lo :: t => UInt16.ofNat (256 * hi.toNat + lo.toNat) :: samples16 t
  | _ => []

def bytes16 : List UInt16 → Bytes
  | [] => []
  | s :: t => UInt8.ofNat (s.toNat / 256) :: UInt8.ofNat (s.toNat % 256) :: bytes16 t

def tiffFilterRow (bpc colors : Nat) (raw : Bytes) : Bytes :=
  if bpc = 16 then bytes16 (diffLeft colors (samples16 raw)) else diffLeft colors raw

/-- bytes per complete pixel, rounded up, at least 1 (PNG 9.2) -/
def bytesPerPixel (colors bpc : Nat) : Nat := max 1 ((colors * bpc + 7) / 8)

/-- bytes per row of samples (rows are padded to a byte boundary) -/
def rowBytes (columns colors bpc : Nat) : Nat := (columns * colors * bpc + 7) / 8

structure Params where
  predictor : Nat
  colors : Nat
  columns : Nat
  bpc : Nat
deriving Repr, DecidableEq

/-- the predictors of the statement with the sample sizes PDF allows for them
    (TIFF predictor 2 on whole-byte samples) -/
def Params.accepted (p : Params) : Prop :=
  (p.predictor = 2 ∧ (p.bpc = 8 ∨ p.bpc = 16)) ∨
  ((10 ≤ p.predictor ∧ p.predictor ≤ 14) ∧ (p.bpc = 1 ∨ p.bpc = 2 ∨ p.bpc = 4 ∨ p.bpc = 8 ∨ p.bpc = 16))

instance (p : Params) : Decidable p.accepted := by unfold Params.accepted; exact inferInstance

/-! ### the /DecodeParms dictionary of a predictor (ISO 32000-1, 7.4.4.3, Table 8)

  "Predictor  integer  … Default value: 1.   Colors  integer  … Default value: 1.
   BitsPerComponent  integer  … Default value: 8.   Columns  integer  … Default value: 1."
  An entry whose value is the default may be left out by the writer; nothing else may.
  (Stated here from the standard; the model's `unwrap_or` constants are not consulted.) -/

def defaultPredictor : Nat := 1
def defaultColors : Nat := 1
def defaultBpc : Nat := 8
def defaultColumns : Nat := 1

/-- the parameters a dictionary with these (present or absent) integer entries denotes -/
def Params.ofEntries (predictor colors columns bpc : Option Nat) : Params :=
  ⟨predictor.getD defaultPredictor, colors.getD defaultColors, columns.getD defaultColumns, bpc.getD defaultBpc⟩

/-- a legal spelling of the entry with value `v` and default `dflt`: written out, or left out
    when (and only when) `v` is the default -/
def Spelled (v dflt : Nat) (entry : Option Int) : Prop :=
  entry = some (v : Int) ∨ (entry = none ∧ v = dflt)

/-- executable form of the writer's choice: bit `bit` of `mask` asks to leave the entry out, which is
    honoured only for a default-valued entry -/
def spellEntry (mask bit v dflt : Nat) : Option Nat :=
  if mask / 2 ^ bit % 2 = 1 ∧ v = dflt then none else some v

/-- the four entries of `p` as a writer with omission choice `mask` spells them
    (bit 0 /Predictor, 1 /Colors, 2 /Columns, 3 /BitsPerComponent) -/
def Params.entries (p : Params) (mask : Nat) : Option Nat × Option Nat × Option Nat × Option Nat :=
  (spellEntry mask 0 p.predictor defaultPredictor, spellEntry mask 1 p.colors defaultColors,
   spellEntry mask 2 p.columns defaultColumns, spellEntry mask 3 p.bpc defaultBpc)

/-- what an encoder writes for the rows of an image under /Predictor `p.predictor` -/
def predict (p : Params) (rows : List Bytes) : Bytes :=
  if p.predictor = 2 then (rows.map (tiffFilterRow p.bpc p.colors)).flatten
  else pngRows (p.predictor - 10) (bytesPerPixel p.colors p.bpc) [] rows

/-- cut a byte string into rows of `n` bytes (`fuel` rows) -/
def splitRows (n : Nat) : Nat → Bytes → List Bytes
  | 0, _ => []
  | f + 1, d => d.take n :: splitRows n f (d.drop n)

end Parsley.PredSpec
