/-
  Declarative side of C20: what the bytes of an RTPS datagram ARE, given the packet.

    encode p  =  "RTPS" ++ version(LE) ++ vendor(LE) ++ 12-byte prefix
                 ++ for each sub-message: kind, flags, length (byte order selected by
                    bit 0 of flags: 1 = little-endian, 0 = big-endian), payload

  `WF p` says when a packet value is the reading of its own encoding: the prefix has 12
  bytes, every sub-message that is not the last carries a non-zero length field equal to
  its payload size, and the last one either does too or has length field 0 (= "payload
  extends to the end of the datagram").

  `refDecode` is a reference decoder written directly on byte lists by pattern matching
  (no cursor, no shared code with Model/Rtps.lean).  It is used by the oracle to decide
  whether a *rejection* is legitimate; `Props/C20.lean` proves it is exactly the inverse
  of `encode` on `WF`.
  Import-free (core only); knows nothing of Model/Rtps.lean or Model/Bin.lean.
-/
import Parsley.Base.Basic
import Parsley.Model.RtpsTypes
namespace Parsley.RtpsSpec
open Parsley Parsley.Rtps

def magic : Bytes := [0x52, 0x54, 0x50, 0x53]   -- "RTPS"

/-- little-endian bytes of a 16-bit value -/
def u16le (v : UInt16) : Bytes := [UInt8.ofNat (v.toNat % 256), UInt8.ofNat (v.toNat / 256)]
/-- big-endian bytes of a 16-bit value -/
def u16be (v : UInt16) : Bytes := [UInt8.ofNat (v.toNat / 256), UInt8.ofNat (v.toNat % 256)]

/-- the endianness bit of the sub-message flags -/
def isLittle (flags : UInt8) : Bool := flags.toNat % 2 == 1

def encodeSub (m : SubMsg) : Bytes :=
  [m.hdr.id, m.hdr.flags]
    ++ (if isLittle m.hdr.flags then u16le m.hdr.length else u16be m.hdr.length)
    ++ m.payload

def encodeHdr (h : Header) : Bytes :=
  magic ++ u16le h.version ++ u16le h.vendor ++ h.guidPrefix

def encode (p : Packet) : Bytes :=
  encodeHdr p.hdr ++ p.msgs.flatMap encodeSub

/-- length field = payload size, and non-zero -/
def SubOk (m : SubMsg) : Prop := m.hdr.length.toNat = m.payload.length ∧ m.hdr.length ≠ 0

instance (m : SubMsg) : Decidable (SubOk m) := inferInstanceAs (Decidable (_ ∧ _))

def SubsWF : List SubMsg → Prop
  | [] => True
  | [m] => SubOk m ∨ m.hdr.length = 0
  | m :: m' :: ms => SubOk m ∧ SubsWF (m' :: ms)

def decSubsWF : (ms : List SubMsg) → Decidable (SubsWF ms)
  | [] => isTrue trivial
  | [m] => inferInstanceAs (Decidable (SubOk m ∨ m.hdr.length = 0))
  | m :: m' :: ms =>
    match decSubsWF (m' :: ms) with
    | isTrue h => if h' : SubOk m then isTrue ⟨h', h⟩ else isFalse (fun c => h' c.1)
    | isFalse h => isFalse (fun c => h c.2)

instance (ms : List SubMsg) : Decidable (SubsWF ms) := decSubsWF ms

/-- A packet value that is the reading of its own encoding. -/
def WF (p : Packet) : Prop := p.hdr.guidPrefix.length = 12 ∧ SubsWF p.msgs

instance (p : Packet) : Decidable (WF p) := inferInstanceAs (Decidable (_ ∧ _))

/-! ### Reference decoder (oracle for rejections) -/

def valU16 (little : Bool) (a b : UInt8) : UInt16 :=
  UInt16.ofNat (if little then a.toNat + 256 * b.toNat else 256 * a.toNat + b.toNat)

/-- split a byte list into sub-messages (fuel: any number ≥ the list length) -/
def splitSubs : Nat → Bytes → Option (List SubMsg)
  | _, [] => some []
  | 0, _ :: _ => none
  | fuel + 1, id :: fl :: a :: b :: r =>
    let len := valU16 (isLittle fl) a b
    if len = 0 then some [⟨⟨id, fl, len⟩, r⟩]
    else if r.length < len.toNat then none
    else (splitSubs fuel (r.drop len.toNat)).map (⟨⟨id, fl, len⟩, r.take len.toNat⟩ :: ·)
  | _ + 1, _ => none

def refDecode : Bytes → Option Packet
  | 0x52 :: 0x54 :: 0x50 :: 0x53 :: v0 :: v1 :: w0 :: w1 :: r =>
    if r.length < 12 then none
    else (splitSubs r.length (r.drop 12)).map fun ms =>
      ⟨⟨valU16 true v0 v1, valU16 true w0 w1, r.take 12⟩, ms⟩
  | _ => none

end Parsley.RtpsSpec
