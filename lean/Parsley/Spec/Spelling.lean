/-
  C02 spec side: the lexical rules as an *encoder*.  `spell` turns a value and a
  stream of encoder choices into one legal spelling; the choices cover every
  ∀-quantified freedom of the statement (whitespace/comment runs, `#hh` escapes
  and hex case in names, literal vs hexadecimal strings, hex whitespace and the
  odd-digit shorthand, signs and leading zeros, dictionary entry order and
  null-valued entries).  Import-free.
-/
import Parsley.Model.Obj
namespace Parsley.Spelling
open Parsley Parsley.Obj

/-- encoder choices: a finite list of numbers, read left to right (exhausted ⇒ 0) -/
abbrev Ch := List Nat

def pick (c : Ch) (bound : Nat) : Nat × Ch :=
  match c with
  | [] => (0, [])
  | x :: t => (if bound == 0 then 0 else x % bound, t)

def bs (s : String) : Bytes := s.toUTF8.toList

/-- whitespace / comment pieces (a comment always carries its terminating LF) -/
def wsPieces : List Bytes :=
  [[32], [10], [13], [9], [0], [12], [13, 10], [37, 99, 10], [37, 10],
   [37, 37, 69, 79, 70, 32, 40, 120, 41, 32, 60, 60, 13, 10], [32, 32]]   -- "%c\n", "%\n", "%%EOF (x) <<\r\n"

/-- a run of `k` whitespace pieces -/
def wsRun : Nat → Ch → Bytes × Ch
  | 0, c => ([], c)
  | k + 1, c =>
    let (i, c) := pick c wsPieces.length
    let (r, c) := wsRun k c
    (wsPieces[i]?.getD [32] ++ r, c)

/-- optional whitespace (0..2 pieces) -/
def wsOpt (c : Ch) : Bytes × Ch := let (k, c) := pick c 3; wsRun k c
/-- mandatory whitespace (1..3 pieces) -/
def wsReq (c : Ch) : Bytes × Ch := let (k, c) := pick c 3; wsRun (k + 1) c

def hexDigitOf (n : Nat) (upper : Bool) : UInt8 :=
  if n < 10 then UInt8.ofNat (48 + n) else UInt8.ofNat ((if upper then 55 else 87) + n)

def isRegularByte (b : UInt8) : Bool := !Prim.isNameTerm b

/-- one name byte: raw when it is a regular character other than '#' and `raw` is chosen, else `#hh` -/
def encByte (b : UInt8) (raw u1 u2 : Bool) : Bytes :=
  if isRegularByte b && b != 35 && raw then [b]
  else [35, hexDigitOf (b.toNat / 16) u1, hexDigitOf (b.toNat % 16) u2]

def nameByte (b : UInt8) (c : Ch) : Bytes × Ch :=
  let (esc, c) := pick c 3
  let (up1, c) := pick c 2
  let (up2, c) := pick c 2
  (encByte b (esc != 0) (up1 == 1) (up2 == 1), c)

def nameBody : Bytes → Ch → Bytes × Ch
  | [], c => ([], c)
  | b :: t, c =>
    let (x, c) := nameByte b c
    let (r, c) := nameBody t c
    (x ++ r, c)

def decDigits : Nat → Nat → Bytes     -- fuel, n : decimal digits of n (no leading zeros; "0" for 0)
  | 0, _ => [48]
  | f + 1, n => if n < 10 then [UInt8.ofNat (48 + n)] else decDigits f (n / 10) ++ [UInt8.ofNat (48 + n % 10)]

def natDigits (n : Nat) : Bytes := decDigits 64 n

def zeros (k : Nat) : Bytes := List.replicate k 48

/-- sign prefix: '-' for negatives; for non-negatives nothing or '+' -/
def signOf (neg : Bool) (c : Ch) : Bytes × Ch :=
  if neg then ([45], c) else let (p, c) := pick c 4; (if p == 1 then [43] else [], c)

def spellInt (n : Int) (c : Ch) : Bytes × Ch :=
  let (sg, c) := signOf (n < 0) c
  let (z, c) := pick c 3
  (sg ++ zeros z ++ natDigits n.natAbs, c)

/-- a real (num, 10^k), k ≥ 1: digits of |num| left-padded to at least k digits, point inserted -/
def spellReal (n : Int) (k : Nat) (c : Ch) : Bytes × Ch :=
  let (sg, c) := signOf (n < 0) c
  let ds := natDigits n.natAbs
  let ds := zeros (k - ds.length) ++ ds
  let ip := ds.take (ds.length - k)
  let fp := ds.drop (ds.length - k)
  let (z, c) := pick c 3
  -- a zero integer part may be spelled "0" or omitted
  let ip' := if ip.all (· == 48) then (if z == 0 then [] else zeros z) else zeros z ++ ip
  (sg ++ ip' ++ [46] ++ fp, c)

/-- hexadecimal string: each byte as two digits (random case), whitespace interleaved, and the
    final '0' digit dropped when the choice says so and the low nibble is 0 -/
def hexBody : Bytes → Ch → Bytes × Ch
  | [], c => ([], c)
  | [b], c =>
    let (u1, c) := pick c 2
    let (u2, c) := pick c 2
    let (dropIt, c) := pick c 2
    let (w, c) := wsOpt' c
    if b.toNat % 16 == 0 && dropIt == 1 then ([hexDigitOf (b.toNat / 16) (u1 == 1)] ++ w, c)
    else ([hexDigitOf (b.toNat / 16) (u1 == 1)] ++ w ++ [hexDigitOf (b.toNat % 16) (u2 == 1)], c)
  | b :: t, c =>
    let (u1, c) := pick c 2
    let (u2, c) := pick c 2
    let (w1, c) := wsOpt' c
    let (w2, c) := wsOpt' c
    let (r, c) := hexBody t c
    ([hexDigitOf (b.toNat / 16) (u1 == 1)] ++ w1 ++ [hexDigitOf (b.toNat % 16) (u2 == 1)] ++ w2 ++ r, c)
where
  /-- whitespace inside a hex string: no comments -/
  wsOpt' (c : Ch) : Bytes × Ch :=
    let (k, c) := pick c 6
    (match k with | 1 => [32] | 2 => [10] | 3 => [13, 10, 9] | 4 => [0, 12] | _ => [], c)

/-- is `body` a legal literal-string body (balanced modulo backslash escapes, no dangling escape)? -/
def litBalanced : Bytes → Nat → Bool
  | [], d => d == 0
  | 92 :: _ :: t, d => litBalanced t d
  | [92], _ => false
  | 40 :: t, d => litBalanced t (d + 1)
  | 41 :: t, d => d != 0 && litBalanced t (d - 1)
  | _ :: t, d => litBalanced t d

/-- does the spelling end in a regular character (so that a separator is needed before a
    following regular character)?  An empty name `/` counts: a following regular character
    would be absorbed into it. -/
def endsRegular (b : Bytes) : Bool := match b.getLast? with | some x => isRegularByte x || x == 47 | none => false
def startsRegular (b : Bytes) : Bool := match b.head? with | some x => isRegularByte x | none => false

/-- separator between two adjacent tokens: mandatory iff both sides are regular characters -/
def sepFor (l r : Bytes) (c : Ch) : Bytes × Ch :=
  if endsRegular l && startsRegular r then wsReq c else wsOpt c

mutual
/-- one legal spelling of `v` (no leading/trailing whitespace) -/
def spell : Obj → Ch → Bytes × Ch
  | .null, c => (bs "null", c)
  | .bool b, c => (bs (if b then "true" else "false"), c)
  | .int n, c => spellInt n c
  | .real n d, c =>
    -- d = 10^k
    spellReal n ((natDigits d).length - 1) c
  | .name b, c => let (r, c) := nameBody b c; (47 :: r, c)
  | .str b, c =>
    let (h, c) := pick c 2
    if h == 0 && litBalanced b 0 then ([40] ++ b ++ [41], c)
    else let (r, c) := hexBody b c; ([60] ++ r ++ [62], c)
  | .ref n g, c =>
    let (w1, c) := wsReq c
    let (w2, c) := wsReq c
    (natDigits n ++ w1 ++ natDigits g ++ w2 ++ [82], c)
  | .arr xs, c =>
    let (w, c) := wsOpt c
    let (r, c) := spellElems xs [91] c
    ([91] ++ w ++ r, c)
  | .dict kvs, c =>
    let (w, c) := wsOpt c
    let (r, c) := spellEntries kvs c
    ([60, 60] ++ w ++ r, c)
  | .comment _, c => ([], c)
  | .stream _ _, c => ([], c)
/-- elements then the closing bracket; `prev` is the text before (for the separator rule) -/
def spellElems : List Obj → Bytes → Ch → Bytes × Ch
  | [], _, c => ([93], c)
  | x :: t, prev, c =>
    let (sx, c) := spell x c
    let (sep, c) := sepFor prev sx c
    let (r, c) := spellElems t sx c
    (sep ++ sx ++ r, c)
/-- dictionary entries (in the given order), optional null-valued extra entries, then `>>` -/
def spellEntries : List (Bytes × Obj) → Ch → Bytes × Ch
  | [], c =>
    let (w, c) := wsOpt c
    (w ++ [62, 62], c)
  | (k, v) :: t, c =>
    let (kb, c) := nameBody k c
    let key := 47 :: kb
    let (sv, c) := spell v c
    let (sep, c) := sepFor key sv c
    let (w, c) := wsOpt c
    -- optionally a null-valued entry under a key that cannot clash ("\x01nul…")
    let (nl, c) := pick c 5
    let extra := if nl == 1 then bs "/#01nul" ++ [32] ++ bs "null" ++ [10] else []
    let (r, c) := spellEntries t c
    -- a key (or `>>`) following a value needs no separator: '/' and '>' are delimiters
    (extra ++ key ++ sep ++ sv ++ w ++ r, c)
end

/-- well-formedness of a value for `spell` (the domain of C02) -/
def okKey (k : Bytes) : Bool := k.all (· != 0)
def isPow10 (d : Nat) : Bool := (natDigits d).head? == some 49 && ((natDigits d).drop 1).all (· == 48)
mutual
def wf : Obj → Bool
  | .null | .bool _ => true
  | .int n => decide (-(2 ^ 63 - 1 : Int) ≤ n ∧ n ≤ (2 ^ 63 - 1 : Int))
  | .real n d => decide (n.natAbs < 2 ^ 120) && d ≥ 10 && d < 10 ^ 30 && isPow10 d
  | .name b => okKey b
  | .str _ => true
  | .ref _ g => g < 2 ^ 62
  | .arr xs => wfList xs
  | .dict kvs => wfKvs kvs
  | .comment _ => false
  | .stream _ _ => false
def wfList : List Obj → Bool
  | [] => true
  | x :: t => wf x && wfList t
def wfKvs : List (Bytes × Obj) → Bool
  | [] => true
  | (k, v) :: t => okKey k && wf v && (match v with | .null => false | _ => true) && wfKvs t
end

end Parsley.Spelling
