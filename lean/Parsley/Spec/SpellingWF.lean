/-
  C02 spec side, continued: the exact domain of the executable encoder `spell` of
  Spec/Spelling.lean and the value a spelling denotes.

  * `wfDeep v`      — the values the encoder spells legally, for EVERY choice stream (decidable).
  * `canon v`       — the value the spelling denotes: the dictionaries of `v` (written in any entry
                      order) as `BTreeMap`s, i.e. entries inserted one by one into the sorted map.
  * `sortedDeep v`  — `v` is already in that form (every dictionary strictly sorted by key bytes);
                      then `canon v = v` (proved in Lemmas/SpellEncoder.lean).

  What `wfDeep` excludes, and why (witnesses in Props/C02Encoder.lean):
  * integers outside ±(2^63-1), reals with more than 2^120 in the numerator or a denominator that
    is not 10^k (1 ≤ k < 30), names/keys containing a NUL byte, comments and streams (as `wf`);
  * references whose object number exceeds i64::MAX (`wf` bounds only the generation number; the
    parser reads both with the i64 integer parser);
  * dictionaries with a null value (the parser drops such an entry, so no spelling denotes them);
  * dictionaries that repeat a key (the encoder would write the key twice, which the lexical
    rules and the parser reject);
  * dictionaries in which the key `\x01nul` occurs in any position but the LAST written one: the
    encoder may put its extra entry `/#01nul null` before any later entry, which then repeats a
    key that already has a non-null value.
  Import-free (core Lean + Parsley.Model/Spec only).
-/
import Parsley.Spec.Spelling
namespace Parsley.Spelling
open Parsley Parsley.Obj

/-- the key of the encoder's optional null-valued entry `/#01nul null` -/
def nulKey : Bytes := [1, 110, 117, 108]

def isNullO : Obj → Bool
  | .null => true
  | _ => false

/-- insert the entries one by one (`BTreeMap::insert`), starting from `map` -/
def insAll (map : List (Bytes × Obj)) : List (Bytes × Obj) → List (Bytes × Obj)
  | [] => map
  | (k, v) :: t => insAll (dictInsert k v map) t

mutual
/-- the value denoted by a spelling of `v`: dictionaries as sorted maps, at every level -/
def canon : Obj → Obj
  | .arr xs => .arr (canonList xs)
  | .dict kvs => .dict (insAll [] (canonKvs kvs))
  | .null => .null
  | .bool b => .bool b
  | .int n => .int n
  | .real n d => .real n d
  | .str b => .str b
  | .name b => .name b
  | .ref n g => .ref n g
  | .comment b => .comment b
  | .stream kvs sc => .stream kvs sc
def canonList : List Obj → List Obj
  | [] => []
  | x :: t => canon x :: canonList t
def canonKvs : List (Bytes × Obj) → List (Bytes × Obj)
  | [] => []
  | (k, v) :: t => (k, canon v) :: canonKvs t
end

mutual
/-- the exact domain of `spell`: every choice stream yields a legal spelling of `canon v` -/
def wfDeep : Obj → Bool
  | .null | .bool _ => true
  | .int n => decide (-(2 ^ 63 - 1 : Int) ≤ n ∧ n ≤ (2 ^ 63 - 1 : Int))
  | .real n d => decide (n.natAbs < 2 ^ 120) && d ≥ 10 && d < 10 ^ 30 && isPow10 d
  | .name b => okKey b
  | .str _ => true
  | .ref n g => decide (n ≤ 2 ^ 63 - 1) && decide (g < 2 ^ 62)
  | .arr xs => wfDeepList xs
  | .dict kvs => wfDeepKvs kvs
  | .comment _ => false
  | .stream _ _ => false
def wfDeepList : List Obj → Bool
  | [] => true
  | x :: t => wfDeep x && wfDeepList t
def wfDeepKvs : List (Bytes × Obj) → Bool
  | [] => true
  | (k, v) :: t =>
    okKey k && wfDeep v && !isNullO v && t.all (fun p => p.1 != k) && (t.isEmpty || k != nulKey) && wfDeepKvs t
end

mutual
/-- every dictionary of the value is strictly sorted by key bytes (each key below all later ones) -/
def sortedDeep : Obj → Bool
  | .arr xs => sortedDeepList xs
  | .dict kvs => sortedDeepKvs kvs
  | _ => true
def sortedDeepList : List Obj → Bool
  | [] => true
  | x :: t => sortedDeep x && sortedDeepList t
def sortedDeepKvs : List (Bytes × Obj) → Bool
  | [] => true
  | (k, v) :: t => t.all (fun p => bytesLt k p.1) && sortedDeep v && sortedDeepKvs t
end

/-- the following contexts the generator of the correspondence run puts after a spelling
    (delimiters, keywords, end of buffer, whitespace, a comment, an integer, `R`) -/
def genContexts : List Bytes :=
  [[], bs "]", bs ">>", bs " endobj", bs "\nendstream", bs "/Next", bs "(x)", bs "<", bs " 2 R", bs " R", bs "%c",
   bs "\r\n", bs " 7", bs "[", bs "\x00x"]

/-- after an integer the context ` 2 R` would turn the spelling into a reference; the generator
    uses ` 2 RG` instead (legal: `R` does not end its token) -/
def genContextFor (isInt : Bool) (ctx : Bytes) : Bytes :=
  if isInt && (ctx == bs " 2 R") then bs " 2 RG" else ctx

end Parsley.Spelling
