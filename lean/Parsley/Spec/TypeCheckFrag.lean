/-
  C08: the decidable FRAGMENT predicates of the correctness theorems about the type-check machine
  (import-free apart from the model and the universe of Spec/WorkBound.lean; executable: the C08 judge
  evaluates `inF1` on every case and refuses to file a disagreement inside the proved fragment under a
  known finding).

  * `reachable ctx c`  the checks the machine can queue when started on `c`: closure of `[c]` under
                       `expand` = resolution through the context, `allow_indirect` (the form queued after a
                       reference was followed) and the immediate sub-checks.
  * `nodeOK ctx r`     a RESOLVED node of F1: not a name, not a disjunction, and every sub-check the `Any`
                       short-cut could skip (array element; dictionary, stream and wildcard entries) is `kidOK`.
  * `kidOK ctx k`      `k` resolves, and if it resolves to an `Any` check without predicate then that check has
                       no indirect requirement either (an `Any` entry with `indirect = required/forbidden` and no
                       predicate is skipped by the machine: known finding any-entry-skips-indirect).
  * `inF1 ctx c`       every reachable check resolves to a `nodeOK` node (and `reachable` is closed).
                       FRAGMENT F1 = "no disjunction, no dangling name, no Any-entry with a bare indirect
                       requirement among the checks reachable from `c`".  Elements of a heterogeneous array may be
                       ANY check of the fragment (no short-cut there).  Names may be recursive.
  Theorem (Lemmas/TypeCheckSound.lean, Props/C08.lean): on F1 the machine accepts iff the object conforms.
  The same on F2 below (Lemmas/TypeCheckSoundF2.lean, Props/C08F2.lean).
-/
import Parsley.Model.TypeCheck
import Parsley.Spec.Conforms
import Parsley.Spec.WorkBound
namespace Parsley.TC.Frag
open Parsley Parsley.TC Parsley.TC.Term

/-- a sub-check (array element, dictionary/stream entry, wildcard entry) the `Any` short-cut treats correctly -/
def kidOK (ctx : Ctx) (k : Chk) : Bool :=
  match resolve ctx k with
  | none => false
  | some (.any a) => a.pred.isSome || decide (a.ind = .allowed)
  | some _ => true

/-- a RESOLVED specification node of fragment F1 -/
def nodeOK (ctx : Ctx) : Chk → Bool
  | .named _ => false
  | .disj _ _ => false
  | .any _ => true
  | .prim _ _ => true
  | .array _ e _ => kidOK ctx e
  | .het _ _ => true
  | .dict _ es => es.chks.all (kidOK ctx)
  | .dictStar _ es _ sc => es.chks.all (kidOK ctx) && kidOK ctx sc
  | .stream _ es => es.chks.all (kidOK ctx)

/-- `L` is closed under resolution, `allow_indirect` and sub-checks, and every member resolves to an F1 node -/
def closedB (ctx : Ctx) (L : List Chk) : Bool :=
  L.all fun tc =>
    match resolve ctx tc with
    | none => false
    | some c => nodeOK ctx c && L.contains c && L.contains c.allowInd && (chkKids c).all L.contains

/-- what the machine derives from a queued check: its resolution, that without the indirect
    requirement (after a reference was followed), and the sub-checks -/
def expand (ctx : Ctx) (tc : Chk) : List Chk :=
  match resolve ctx tc with
  | none => []
  | some c => c :: c.allowInd :: chkKids c

def reach (ctx : Ctx) : Nat → List Chk → List Chk
  | 0, L => L
  | n+1, L =>
    let L' := (L ++ L.flatMap (expand ctx)).eraseDups
    if L'.length = L.length then L else reach ctx n L'

/-- the checks the machine can ever queue when started on `c` (names resolved through `ctx`) -/
def reachable (ctx : Ctx) (c : Chk) : List Chk := reach ctx ((chkU ctx c).length + 1) [c]

/-- FRAGMENT F1 (decidable) -/
def inF1 (ctx : Ctx) (c : Chk) : Bool :=
  (reachable ctx c).contains c && closedB ctx (reachable ctx c)

/-! ### fragment F2 (with disjunctions) -- machine = specification PROVED on it (`machine_eq_conforms_F2`,
  Props/C08F2.lean, Lemmas/TypeCheckSoundF2.lean); also evaluated by the judge on every case

  The memo keeps the pair (object, alternative) of an alternative that FAILED, and a pair found in the memo is
  skipped as if it had succeeded (`memo-leak`, Props/C08.lean `shared_alternative_leak_witness`).  A disjunction
  is therefore only decided correctly when its failed pairs can never come up again in another role:
    * every alternative is a LEAF check written in place (`Any`/primitive, predicate allowed) WITHOUT an indirect
      requirement of its own (so the verdict of an alternative depends on the value only, and the pair queued after
      following a reference carries the same check); the indirect requirement / predicate of the DISJUNCTION is free;
    * the alternatives of one disjunction are pairwise different;
    * PRIVACY: an alternative occurs nowhere else among the reachable checks -- not as an entry or element type,
      not as a guard, not as the root, not as an alternative of a disjunction with a different list of alternatives.
  Everything else as in F1. -/

def isLeafAlt : Chk → Bool
  | .any a => decide (a.ind = .allowed)
  | .prim a _ => decide (a.ind = .allowed)
  | _ => false

/-- like `expand`; a disjunction contributes its guard (`Any` check carrying its attributes, also after a
    reference) and its bare form, NOT its alternatives -/
def expand2 (ctx : Ctx) (tc : Chk) : List Chk :=
  match resolve ctx tc with
  | none => []
  | some (.disj a os) => [.disj a os, .any a, (Chk.any a).allowInd, .disj Attr.dflt os]
  | some c => c :: c.allowInd :: chkKids c

def reach2 (ctx : Ctx) : Nat → List Chk → List Chk
  | 0, L => L
  | n+1, L =>
    let L' := (L ++ L.flatMap (expand2 ctx)).eraseDups
    if L'.length = L.length then L else reach2 ctx n L'

def reachable2 (ctx : Ctx) (c : Chk) : List Chk := reach2 ctx ((chkU ctx c).length + 1) [c]

/-- the alternative lists of the reachable disjunctions -/
def altLists (ctx : Ctx) (L : List Chk) : List (List Chk) :=
  (L.filterMap fun tc =>
    match resolve ctx tc with
    | some (.disj _ os) => some os.chks
    | _ => none).eraseDups

def nodeOK2 (ctx : Ctx) : Chk → Bool
  | .disj _ os => !os.chks.isEmpty && os.chks.all isLeafAlt && decide (os.chks.eraseDups.length = os.chks.length)
  | c => nodeOK ctx c

/-- FRAGMENT F2 (decidable; the hypothesis of `Parsley.C08.machine_eq_conforms_F2`) -/
def inF2 (ctx : Ctx) (c : Chk) : Bool :=
  let L := reachable2 ctx c
  let Ds := altLists ctx L
  L.contains c &&
  (L.all fun tc =>
    (match resolve ctx tc with
     | none => false
     | some r => nodeOK2 ctx r) && (expand2 ctx tc).all L.contains) &&
  (Ds.all fun alts => alts.all fun k => !L.contains k) &&
  (Ds.all fun alts => Ds.all fun alts' => alts == alts' || alts.all fun k => !alts'.contains k)

end Parsley.TC.Frag
