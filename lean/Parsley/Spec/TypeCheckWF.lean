/-
  C08: WELL-FORMED specifications -- the (decidable, structural) hypothesis of the completeness theorem
  `machine_complete` (Lemmas/TypeCheckComplete.lean, Props/C08.lean).  Import-free apart from the model.

  * `wfChk ctx c`   every name occurring in `c` is registered in `ctx` and is bound to a representation (not to
                    another name), and no disjunction occurring in `c` has an empty list of alternatives;
  * `wfCtx ctx`     every registered representation is `wfChk`;
  * `wfSpec ctx c`  both.
  Why they are needed (each is a way for the real checker to leave through an exit that is not a verdict about the
  object): the loops over the entries of a dictionary / stream type resolve the check of EVERY entry, also of an
  optional entry whose key is absent (`TypeCheckError::UnknownTypeCheck`, a hard exit); a name bound to a name reaches
  the per-type `match` unresolved; `get_next_check` runs into `unreachable!()` on an empty disjunction.
-/
import Parsley.Model.TypeCheck
namespace Parsley.TC.Frag
open Parsley Parsley.TC

mutual
def wfChk (ctx : Ctx) : Chk → Bool
  | .named n =>
    match ctx.lookup n with
    | some (.named _) => false
    | some _ => true
    | none => false
  | .any _ => true
  | .prim _ _ => true
  | .array _ e _ => wfChk ctx e
  | .het _ es => wfChkL ctx es
  | .dict _ es => wfChkL ctx es
  | .dictStar _ es _ sc => wfChkL ctx es && wfChk ctx sc
  | .stream _ es => wfChkL ctx es
  | .disj _ os => (match os with | .nil => false | .cons _ _ _ _ => true) && wfChkL ctx os
def wfChkL (ctx : Ctx) : ChkL → Bool
  | .nil => true
  | .cons _ _ c t => wfChk ctx c && wfChkL ctx t
end

def wfCtx (ctx : Ctx) : Bool := ctx.all fun d => wfChk ctx d.2

/-- the specification `c` read in the context `ctx` is well formed -/
def wfSpec (ctx : Ctx) (c : Chk) : Bool := wfChk ctx c && wfCtx ctx

end Parsley.TC.Frag
