/-
  C09: the explicit work bound of the type checker, as a function of the case only (object graph,
  context, object, specification).  Import-free, executable (the C09 judge compares the iteration
  counter of the REAL check_type with `workBound`).  `Lemmas/TypeCheckTerm.lean` proves that the
  machine of Model/TypeCheck.lean always finishes within `workBound` steps.

  * `objU`   every object the machine can ever look at: null, the object, the definitions of the graph,
             and all their sub-objects (closed under components, `lookup` and reference chasing);
  * `baseU`  the nodes of the (normalised) specification and of every named entry of the context;
    `chkU`   those nodes in the five forms the machine queues them in (`decor`): as written, with the
             indirect requirement removed (after following a reference), bare (a disjunction after its
             guard), and the two `Any`-typed guards carrying a node's predicate/indirect requirement;
  * `pairU`  objects x checks: the memo can never hold more than `|pairU|` pairs;
  * `Wo`, `Wc` the largest fan-out of an object / a specification node.
  Taking up a new pair costs at most `costA` = 1 + (Wo + Wc + 2)(Wc + 3) later loop iterations (it queues at
  most Wo + Wc children, each of which is worth at most Wc + 3 iterations when it is a disjunction), hence
      workBound = costA * |objU| * |chkU| + Wc + 5        (|pairU| = |objU| * |chkU|).
-/
import Parsley.Model.TypeCheck
import Parsley.Spec.Conforms
namespace Parsley.TC.Term
open Parsley Parsley.TC Parsley.TC.Spec

/-- immediate components of an object -/
def objKids : Obj → List Obj
  | .arr xs => xs.vals
  | .dict xs => xs.vals
  | .stream xs _ _ => xs.vals
  | _ => []

/-- immediate sub-checks of a specification node -/
def chkKids : Chk → List Chk
  | .array _ e _ => [e]
  | .het _ es => es.chks
  | .dict _ es => es.chks
  | .stream _ es => es.chks
  | .disj _ es => es.chks
  | .dictStar _ es _ sc => es.chks ++ [sc]
  | _ => []

/-- the forms in which the machine queues a node `b` of the specification -/
def decor (b : Chk) : List Chk :=
  [b, b.allowInd, b.setAttr Attr.dflt, .any b.attr, .any b.allowInd.attr]

def objU (g : Graph) (o : Obj) : List Obj :=
  Obj.null :: (objSubs o ++ g.flatMap (fun d => objSubs d.2))

def baseU (ctx : Ctx) (c : Chk) : List Chk :=
  chkSubs c ++ ctx.flatMap (fun d => chkSubs d.2)

def chkU (ctx : Ctx) (c : Chk) : List Chk := (baseU ctx c).flatMap decor

def pairU (g : Graph) (ctx : Ctx) (o : Obj) (c : Chk) : List Pend :=
  (objU g o).flatMap fun x => (chkU ctx c).map fun d => (x, d)

def maxOf {α : Type} (f : α → Nat) : List α → Nat
  | [] => 0
  | a :: t => max (f a) (maxOf f t)

def Wo (g : Graph) (o : Obj) : Nat := maxOf (fun x => (objKids x).length) (objU g o)
def Wc (ctx : Ctx) (c : Chk) : Nat := maxOf (fun d => (chkKids d).length) (baseU ctx c)

def costA (g : Graph) (ctx : Ctx) (o : Obj) (c : Chk) : Nat :=
  1 + (Wo g o + Wc ctx c + 2) * (Wc ctx c + 3)

/-- bound on the iterations of the `get_next_check` loop (hence on work-loop iterations) for the
    normalised root check `c` -/
def bound (g : Graph) (ctx : Ctx) (o : Obj) (c : Chk) : Nat :=
  costA g ctx o c * ((objU g o).length * (chkU ctx c).length) + Wc ctx c + 5

/-- the bound for a call `check_type(ctxt, tctx, obj, chk)` -/
def workBound (fx : Fix) (g : Graph) (ctx : Ctx) (o : Obj) (chk : Chk) : Nat :=
  match resolve ctx chk with
  | none => 1
  | some rep => bound g ctx o (rep.norm fx)

end Parsley.TC.Term
