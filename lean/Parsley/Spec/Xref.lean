/-
  Declarative side of C13, independent of the model (`Model/Xref.lean` is not imported):

  * the fixed 20-byte form of a table entry as a recogniser over the 20-byte window;
  * encoders: a classic table from (subsections of) entries with free encoder choices
    (digit-field widths of the header numbers, the three entry terminators, blanks), and the
    rows of a cross-reference stream for a width triple;
  * the numbering of entries (consecutive from each subsection's start);
  * what a well-formed xref-stream dictionary is, and the decoding of its content by slicing
    it into rows and fields.
-/
import Parsley.Base.Basic
import Parsley.Model.XrefTypes
namespace Parsley.XrefSpec
open Parsley Parsley.Xref

/-! ### numbers in positional notation -/

/-- `w` digits of `v` in base `b`, most significant first, each shifted by `off`
    (`b = 10, off = 48`: ASCII decimal, zero padded; `b = 256, off = 0`: big-endian bytes) -/
def encBase (b off : Nat) : Nat → Nat → Bytes
  | 0, _ => []
  | w + 1, v => UInt8.ofNat (off + v / b ^ w % b) :: encBase b off w (v % b ^ w)

def padDec (w v : Nat) : Bytes := encBase 10 48 w v
def encBE (w v : Nat) : Bytes := encBase 256 0 w v

/-- value of a big-endian byte string: Σ bᵢ·256^(n-1-i) -/
def beVal : Bytes → Nat
  | [] => 0
  | b :: t => b.toNat * 256 ^ t.length + beVal t

/-- value of an ASCII digit string -/
def decOf : Bytes → Nat
  | [] => 0
  | b :: t => (b.toNat - 48) * 10 ^ t.length + decOf t

def isDig (b : UInt8) : Bool := 48 ≤ b.toNat && b.toNat ≤ 57

/-! ### the classic table -/

/-- the three legal two-byte entry terminators -/
inductive Eol where | spCr | spLf | crLf
deriving DecidableEq, Repr, Inhabited

def Eol.bytes : Eol → Bytes
  | .spCr => [32, 13] | .spLf => [32, 10] | .crLf => [13, 10]

/-- an entry as written: 10-digit offset/next, 5-digit generation, `n`/`f`, terminator -/
structure TEnt where
  info : Nat
  gen : Nat
  inuse : Bool
  eol : Eol
deriving DecidableEq, Repr, Inhabited

def TEnt.wf (e : TEnt) : Prop := e.info < 10 ^ 10 ∧ e.gen ≤ 65535
instance (e : TEnt) : Decidable e.wf := by unfold TEnt.wf; infer_instance

def encEntry (e : TEnt) : Bytes :=
  padDec 10 e.info ++ [32] ++ padDec 5 e.gen ++ [32] ++ [if e.inuse then 110 else 102] ++ e.eol.bytes

/-- The fixed 20-byte form, read off the window `w` (declaratively, by position). -/
def entryForm (w : Bytes) : Option (Nat × Nat × Bool) :=
  if w.length = 20
     ∧ (w.take 10).all isDig ∧ w[10]? = some 32
     ∧ ((w.drop 11).take 5).all isDig ∧ w[16]? = some 32
     ∧ (w[17]? = some 102 ∨ w[17]? = some 110)
     ∧ ((w.drop 18) = [32, 13] ∨ (w.drop 18) = [32, 10] ∨ (w.drop 18) = [13, 10])
     ∧ decOf ((w.drop 11).take 5) ≤ 65535
  then some (decOf (w.take 10), decOf ((w.drop 11).take 5), w[17]? == some 110)
  else none

/-- the 20 bytes under the cursor, read as an entry -/
def entryAt (s : Bytes) (i : Nat) : Option (Nat × Nat × Bool) :=
  entryForm ((s.drop i).take 20)

def mkEnt (obj : Nat) (x : Nat × Nat × Bool) : Ent :=
  ⟨obj, x.2.1, if x.2.2 then .inUse x.1 else .free x.1⟩

/-- a subsection as written; `wStart`/`wCount` are the numbers of digits used for the two
    header numbers (leading zeros allowed), `lead` blanks before the header, `hdrEol` the
    white space (containing what the writer likes) that ends the header line -/
structure TSub where
  start : Nat
  wStart : Nat
  wCount : Nat
  lead : Bytes
  hdrEol : Bytes
  ents : List TEnt
deriving DecidableEq, Repr, Inhabited

def isBlank (b : UInt8) : Bool := b == 32 || b == 0 || b == 9 || b == 12
def isWs (b : UInt8) : Bool := b == 32 || b == 0 || b == 9 || b == 13 || b == 10 || b == 12

def TSub.wf (t : TSub) : Prop :=
  t.start < 10 ^ t.wStart ∧ t.start < 2 ^ 63 ∧ 0 < t.wStart
  ∧ t.ents.length < 10 ^ t.wCount ∧ t.ents.length < 2 ^ 63 ∧ 0 < t.wCount
  ∧ t.lead.all isBlank ∧ t.hdrEol ≠ [] ∧ t.hdrEol.all isWs
  ∧ ∀ e ∈ t.ents, e.wf

instance (t : TSub) : Decidable t.wf := by unfold TSub.wf; infer_instance

def encSub (t : TSub) : Bytes :=
  t.lead ++ padDec t.wStart t.start ++ [32] ++ padDec t.wCount t.ents.length ++ t.hdrEol
    ++ t.ents.flatMap encEntry

def kwXref : Bytes := [120, 114, 101, 102]

/-- `xref` EOL subsection* -/
def encTable (subs : List TSub) : Bytes :=
  kwXref ++ [10] ++ subs.flatMap encSub

/-- entries numbered consecutively from `start` -/
def number (start : Nat) : List TEnt → List Ent
  | [] => []
  | e :: t => ⟨start, e.gen, if e.inuse then .inUse e.info else .free e.info⟩ :: number (start + 1) t

def tableEnts (subs : List TSub) : List Ent := subs.flatMap fun t => number t.start t.ents

/-- what may follow a table: after optional blanks, something that does not start a number -/
def endsSection (rest : Bytes) : Bool :=
  match (rest.dropWhile fun c => c == 32 || c == 0 || c == 9 || c == 13 || c == 12).head? with
  | some b => !(isDig b || b == 43 || b == 45)
  | none => true

/-! ### reading an ACCEPTED table back from the bytes

  Used by the oracle on arbitrary (raw, mutated) input: when an implementation says it accepted a
  table with subsections `(start, count)` and entries at given offsets, everything it consumed is
  re-derived from the bytes by position - header syntax and the fixed 20-byte form - without
  reference to any parser model.  The header reader is deliberately lenient about blanks (it only
  has to accept every layout a conforming reader may accept); the entries are checked strictly. -/

/-- skip white space and `%…` comments -/
def skipWsComments : Nat → Bytes → Nat → Nat
  | 0, _, i => i
  | f + 1, s, i =>
    match s[i]? with
    | some b =>
      if isWs b then skipWsComments f s (i + 1)
      else if b == 37 then
        let j := i + 1 + ((s.drop (i + 1)).takeWhile fun c => c != 10).length
        skipWsComments f s (if s[j]? == some 10 then j + 1 else j)
      else i
    | none => i

/-- an optionally signed decimal number at `i`: value and position after it -/
def readNum (s : Bytes) (i : Nat) : Option (Nat × Nat) :=
  let sg : Bool × Nat := match s[i]? with
    | some 43 => (false, i + 1)
    | some 45 => (true, i + 1)
    | _ => (false, i)
  let ds := (s.drop sg.2).takeWhile isDig
  if ds.isEmpty then none
  else if sg.1 && decOf ds != 0 then none
  else some (decOf ds, sg.2 + ds.length)

/-- a subsection header at or after `i`: `start SP count` and then at least one white-space byte or
    comment; returns start, count and the position where the entries begin -/
def scanHeader (s : Bytes) (i : Nat) : Option (Nat × Nat × Nat) :=
  let i0 := skipWsComments (s.length + 1) s i
  match readNum s i0 with
  | none => none
  | some (st, i1) =>
    if s[i1]? != some 32 then none
    else match readNum s (i1 + 1) with
      | none => none
      | some (cnt, i2) =>
        let i3 := skipWsComments (s.length + 1) s i2
        if i3 == i2 then none else some (st, cnt, i3)

/-- the entries claimed for one subsection: entry `k` sits at `first + 20 k`, those 20 bytes are in
    the fixed form and denote exactly the claimed entry numbered `start + k`; `some k` = first bad one -/
def badEntry (s : Bytes) (start first : Nat) (ents : List (Ent × Nat)) : Option Nat :=
  (ents.zipIdx.find? fun (p : (Ent × Nat) × Nat) =>
    !(p.1.2 == first + 20 * p.2 &&
      (match entryAt s p.1.2 with
       | some x => decide (mkEnt (start + p.2) x = p.1.1)
       | none => false))).map (·.2)

/-- walk the claimed subsections from `cur`; `none` = everything checks, `some msg` = what does not -/
def checkSubs (s : Bytes) : Nat → List (Nat × Nat) → List (Ent × Nat) → Nat → Option String
  | _, [], [], _ => none
  | _, [], _ :: _, _ => some "more entries than the subsections announce"
  | cur, (st, cnt) :: t, ents, n =>
    match scanHeader s cur with
    | none => some s!"no subsection header at offset {cur}"
    | some (st', cnt', first) =>
      if st' != st || cnt' != cnt then some s!"header at offset {cur} says {st'} {cnt'}"
      else if ents.length < cnt then some s!"subsection {st} {cnt} has too few entries"
      else match badEntry s st first (ents.take cnt) with
        | some k => some s!"entry {n + k} at offset {first + 20 * k} is not the claimed entry in the 20-byte form"
        | none => checkSubs s (first + 20 * cnt) t (ents.drop cnt) (n + cnt)

/-- an accepted table, re-read from the bytes: `xref` after optional white space at `start`, then
    the claimed subsections and entries -/
def checkAccepted (s : Bytes) (start : Nat) (subs : List (Nat × Nat)) (ents : List (Ent × Nat)) : Option String :=
  let i0 := skipWsComments (s.length + 1) s start
  if !(kwXref.isPrefixOf (s.drop i0)) then some s!"no xref keyword at offset {i0}"
  else if subs.isEmpty then some "no subsection"
  else checkSubs s (i0 + 4) subs ents 0

/-! ### the cross-reference stream -/

/-- a row as written: type, field 2, field 3 -/
structure SEnt where
  typ : Nat
  f2 : Nat
  f3 : Nat
deriving DecidableEq, Repr, Inhabited

/-- a row fits the widths: fields below `256^w`; with no type field every row is type 1 -/
def SEnt.fits (w0 w1 w2 : Nat) (e : SEnt) : Prop :=
  e.typ ≤ 2 ∧ (w0 = 0 → e.typ = 1) ∧ e.f2 < 256 ^ w1 ∧ e.f3 < 256 ^ w2

def encRow (w0 w1 w2 : Nat) (e : SEnt) : Bytes :=
  encBE w0 e.typ ++ encBE w1 e.f2 ++ encBE w2 e.f3

def encRows (w0 w1 w2 : Nat) (es : List SEnt) : Bytes := es.flatMap (encRow w0 w1 w2)

def sEnt (obj : Nat) (e : SEnt) : Ent :=
  match e.typ with
  | 0 => ⟨obj, e.f3, .free e.f2⟩
  | 1 => ⟨obj, e.f3, .inUse e.f2⟩
  | _ => ⟨obj, 0, .inStream e.f2 e.f3⟩

def numberS (start : Nat) : List SEnt → List Ent
  | [] => []
  | e :: t => sEnt start e :: numberS (start + 1) t

/-- `/Index` subsections `(start, rows)`; the denotation numbers each consecutively -/
def streamEnts (subs : List (Nat × List SEnt)) : List Ent :=
  subs.flatMap fun p => numberS p.1 p.2

/-- lookup in a dictionary -/
def lookup (d : Dict) (k : Bytes) : Option Val := (d.find? fun p => p.1 == k).map (·.2)

def sType : Bytes := [84, 121, 112, 101]
def sSize : Bytes := [83, 105, 122, 101]
def sIndex : Bytes := [73, 110, 100, 101, 120]
def sW : Bytes := [87]
def sXRef : Bytes := [88, 82, 101, 102]
def sFilter : Bytes := [70, 105, 108, 116, 101, 114]
def sDecodeParms : Bytes := [68, 101, 99, 111, 100, 101, 80, 97, 114, 109, 115]

def natAtom : Atom → Option Nat
  | .int v => if 0 ≤ v then some v.toNat else none
  | _ => none

/-- pairs of an even-length list -/
def pairs : List Nat → List (Nat × Nat)
  | a :: b :: t => (a, b) :: pairs t
  | _ => []

def nameVal : Option Val → Option Bytes
  | some (.atom (.name n)) => some n
  | _ => none

def natVal : Option Val → Option Nat
  | some (.atom a) => natAtom a
  | _ => none

def arrVal : Option Val → Option (List Atom)
  | some (.arr l) => some l
  | _ => none

/-- `/W`: exactly three non-negative integers, each at most 4, the second not 0 -/
def widthsMeaning (l : List Atom) : Option (Nat × Nat × Nat) :=
  match l.map natAtom with
  | [some w0, some w1, some w2] =>
    if w0 ≤ 4 ∧ w1 ≤ 4 ∧ w2 ≤ 4 ∧ w1 ≠ 0 then some (w0, w1, w2) else none
  | _ => none

/-- `/Index`: absent (or not an array - the code then ignores it) means `[0 Size]`; otherwise an
    even number of non-negative integers, read as (start, count) pairs -/
def indexMeaning (size : Nat) : Option (List Atom) → Option (List (Nat × Nat))
  | none => some [(0, size)]
  | some l =>
    if l.length % 2 = 0 ∧ l.all (fun a => (natAtom a).isSome) then some (pairs (l.filterMap natAtom))
    else none

/-- What a well-formed xref-stream dictionary says (filters aside): `/Type /XRef`, a
    non-negative integer `/Size`, `/W` and `/Index` as above.  `none` = malformed. -/
def dictMeaning (d : Dict) : Option (List (Nat × Nat) × Nat × Nat × Nat) :=
  match nameVal (lookup d sType), natVal (lookup d sSize), arrVal (lookup d sW) with
  | some t, some size, some w =>
    if t = sXRef then
      match widthsMeaning w, indexMeaning size (arrVal (lookup d sIndex)) with
      | some (w0, w1, w2), some idx => some (idx, w0, w1, w2)
      | _, _ => none
    else none
  | _, _, _ => none

/-- one row, by position -/
def rowMeaning (w0 w1 w2 obj : Nat) (row : Bytes) : Option Ent :=
  let t := if w0 = 0 then 1 else beVal (row.take w0)
  let f2 := beVal ((row.drop w0).take w1)
  let f3 := beVal ((row.drop (w0 + w1)).take w2)
  if t = 0 then some ⟨obj, f3, .free f2⟩
  else if t = 1 then some ⟨obj, f3, .inUse f2⟩
  else if t = 2 then some ⟨obj, 0, .inStream f2 f3⟩
  else none

/-- `cnt` consecutive rows of width `rw` numbered from `obj`; `none` = a row is short or has a
    type above 2 -/
def sliceRows (w0 w1 w2 : Nat) : Nat → Nat → Bytes → Option (List Ent × Bytes)
  | 0, _, s => some ([], s)
  | n + 1, obj, s =>
    let rw := w0 + w1 + w2
    if s.length < rw then none
    else match rowMeaning w0 w1 w2 obj (s.take rw) with
      | none => none
      | some e =>
        match sliceRows w0 w1 w2 n (obj + 1) (s.drop rw) with
        | some (es, r) => some (e :: es, r)
        | none => none

def sliceIndex (w0 w1 w2 : Nat) : List (Nat × Nat) → Bytes → Option (List Ent × Bytes)
  | [], s => some ([], s)
  | (st, cnt) :: t, s =>
    match sliceRows w0 w1 w2 cnt st s with
    | none => none
    | some (es, r) =>
      match sliceIndex w0 w1 w2 t r with
      | some (es', r') => some (es ++ es', r')
      | none => none

/-- The decoding of an (unfiltered, unencrypted) xref stream: the entries and the number of
    content bytes used; `none` = to be rejected. -/
def streamMeaning (d : Dict) (content : Bytes) : Option (List Ent × Nat) :=
  match dictMeaning d with
  | none => none
  | some (idx, w0, w1, w2) =>
    match sliceIndex w0 w1 w2 idx content with
    | some (es, r) => some (es, content.length - r.length)
    | none => none

end Parsley.XrefSpec
