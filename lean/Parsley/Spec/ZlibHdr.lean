/-
  Declarative side of C06: the two-byte zlib header (RFC 1950 2.2) as a PARAMETER of the spec-side encoders.

    CMF  bits 0-3  CM     compression method: 8 = deflate (the only one defined)
         bits 4-7  CINFO  log2 of the LZ77 window size, minus 8; values above 7 are not allowed
    FLG  bits 0-4  FCHECK such that CMF * 256 + FLG is a multiple of 31
         bit  5    FDICT  a preset dictionary follows (never the case in a PDF stream)
         bits 6-7  FLEVEL compression level: informational, not needed for decompression

  So a decoder without preset dictionaries must take exactly 8 * 4 = 32 headers (`headers`), of which the encoders of
  `Spec/Filters.lean`, `DeflateFixed`, `DeflateDyn` write one (`78 01` = CINFO 7, FLEVEL 0).  The `...H` encoders below
  take the header as an argument; the old ones are their instances at `[0x78, 0x01]` (`rfl` lemmas at the end).
  A stream written under CINFO = c may only use distances up to the window `2 ^ (c + 8)` (`window`, `maxDist`).
  Nothing here mentions the model.  Import-free (Base + Spec only): used by the drivers.
-/
import Parsley.Spec.Filters
import Parsley.Spec.DeflateFixed
import Parsley.Spec.DeflateDyn
namespace Parsley.ZlibHdr
open Parsley

/-- the header for window `2 ^ (cinfo + 8)` and level field `flevel`, FDICT clear: FCHECK is the value
    that completes `CMF * 256 + FLG` to a multiple of 31 -/
def header (cinfo flevel : Nat) : Bytes :=
  let cmf := 16 * cinfo + 8
  let flg := 64 * flevel
  [UInt8.ofNat cmf, UInt8.ofNat (flg + (31 - (cmf * 256 + flg) % 31) % 31)]

/-- every header a conformant stream without preset dictionary can start with: CINFO 0..7 x FLEVEL 0..3 -/
def headers : List Bytes :=
  (List.range 8).flatMap fun c => (List.range 4).map fun l => header c l

/-- header number `i` (0..31): CINFO = i / 4, FLEVEL = i % 4 -/
def headerNo (i : Nat) : Bytes := header (i / 4 % 8) (i % 4)

/-- RFC 1950 read field by field -/
def cm (cmf : UInt8) : Nat := cmf.toNat % 16
def cinfo (cmf : UInt8) : Nat := cmf.toNat / 16
def fcheckOk (cmf flg : UInt8) : Bool := (cmf.toNat * 256 + flg.toNat) % 31 == 0
def fdict (flg : UInt8) : Bool := flg.toNat / 32 % 2 == 1

/-- may a stream (in a context without preset dictionaries) start with these two bytes? -/
def legal (cmf flg : UInt8) : Bool :=
  cm cmf == 8 && decide (cinfo cmf ≤ 7) && fcheckOk cmf flg && !fdict flg

/-- the window a header declares -/
def window (cmf : UInt8) : Nat := 2 ^ (cinfo cmf + 8)

/-- the largest distance a token list uses (0: literals only) -/
def maxDist (toks : List DeflateFixed.Tok) : Nat :=
  toks.foldl (fun m t => match t with
    | .lit _ => m
    | .copy _ _ ds de => max m (DeflateFixed.copyDist ds de)) 0

/-- stored blocks under a given header -/
def zlibStoredH (hdr : Bytes) (parts : List Bytes) : Bytes :=
  hdr ++ FiltersSpec.storedBlocks parts ++ FiltersSpec.be32Bytes (FiltersSpec.adler32 parts.flatten)

/-- one final fixed-Huffman block of literals under a given header -/
def zlibFixedLiteralsH (hdr : Bytes) (data : Bytes) : Bytes :=
  hdr ++ (FiltersSpec.zlibFixedLiterals data).drop 2

/-- fixed-Huffman blocks closed by an empty final block, under a given header -/
def zlibFixedH (hdr : Bytes) (blocks : List (List DeflateFixed.Tok)) (payload : Bytes) : Bytes :=
  hdr ++ DeflateFixed.pack (DeflateFixed.streamBits blocks) ++ FiltersSpec.be32Bytes (FiltersSpec.adler32 payload)

/-- fixed-Huffman blocks, the last one final, under a given header -/
def zlibFixedFH (hdr : Bytes) (blocks : List (List DeflateFixed.Tok)) (last : List DeflateFixed.Tok) (payload : Bytes) : Bytes :=
  hdr ++ DeflateFixed.pack (DeflateFixed.streamBitsF blocks last) ++ FiltersSpec.be32Bytes (FiltersSpec.adler32 payload)

/-- blocks of all three types under a given header -/
def zlibBlocksH (hdr : Bytes) (bs : List DeflateDyn.Block) (last : DeflateDyn.Block) (payload : Bytes) : Bytes :=
  hdr ++ DeflateFixed.pack (DeflateDyn.streamBitsAt 0 bs last) ++ FiltersSpec.be32Bytes (FiltersSpec.adler32 payload)

theorem zlibStoredH_default (parts : List Bytes) : zlibStoredH [0x78, 0x01] parts = FiltersSpec.zlibStored parts := rfl
theorem zlibFixedH_default (bs : List (List DeflateFixed.Tok)) (p : Bytes) :
    zlibFixedH [0x78, 0x01] bs p = DeflateFixed.zlibFixed bs p := rfl
theorem zlibFixedFH_default (bs : List (List DeflateFixed.Tok)) (l : List DeflateFixed.Tok) (p : Bytes) :
    zlibFixedFH [0x78, 0x01] bs l p = DeflateFixed.zlibFixedF bs l p := rfl
theorem zlibBlocksH_default (bs : List DeflateDyn.Block) (l : DeflateDyn.Block) (p : Bytes) :
    zlibBlocksH [0x78, 0x01] bs l p = DeflateDyn.zlibBlocks bs l p := rfl
theorem zlibFixedLiteralsH_default (d : Bytes) :
    zlibFixedLiteralsH [0x78, 0x01] d = FiltersSpec.zlibFixedLiterals d := rfl

/-- header 28 is the one the other spec encoders write -/
example : headerNo 28 = [0x78, 0x01] := by decide
example : header 4 2 = [0x48, 0x89] ∧ header 1 2 = [0x18, 0x95] ∧ header 0 0 = [0x08, 0x1D] ∧ header 7 2 = [0x78, 0x9C] := by decide

end Parsley.ZlibHdr
