#!/bin/sh
# Build the framework from files on disk only (offline).
set -e
cd "$(dirname "$0")"
export CARGO_NET_OFFLINE=true
(cd lean && lake build Parsley parsley_model)
cp /repo/Cargo.lock harness/Cargo.lock 2>/dev/null || true
(cd harness && cargo build --offline --bin corr)
echo setup done
