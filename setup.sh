#!/bin/sh
# Build the framework from files on disk only (offline).
set -e
cd "$(dirname "$0")"
export CARGO_NET_OFFLINE=true
python3 checklib/regen_index.py
(cd lean && lake build)
(cd harness && cargo build --offline --bins)
echo setup done
