#!/bin/bash
# Build the framework from files on disk only (offline).  Every claimed property is built on its own:
# a property whose proof or harness does not build must not stop the others from being set up
# (its own check then reports the broken obligation).
cd "$(dirname "$0")"
export CARGO_NET_OFFLINE=true
python3 checklib/regen_index.py
ids=$(python3 - <<'P'
import json
print(" ".join(c["property_id"] for c in json.load(open("MANIFEST.json"))["checks"]))
P
)
for id in $ids; do
  mods=$(python3 - "$id" <<'P'
import sys
sys.path.insert(0, "checklib")
from props import PROPS
print(" ".join(PROPS[sys.argv[1]]["modules"]))
P
)
  (cd lean && lake build $mods parsley_model_$id > /tmp/setup_$id.log 2>&1) && echo "lean $id ok" || { echo "lean $id FAILED"; tail -5 /tmp/setup_$id.log; }
  lc=$(echo $id | tr A-Z a-z)
  (cd harness && cargo build --offline --bin $lc > /tmp/setup_cargo_$id.log 2>&1) && echo "harness $id ok" || { echo "harness $id FAILED"; tail -5 /tmp/setup_cargo_$id.log; }
done
echo setup done
exit 0
